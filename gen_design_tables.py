#!/usr/bin/env python3
"""Regenerates the machine-written part of DESIGN.md (between the GENERATED markers) from what is on disk:
evidence/*.json (rules and obligation counts per property, as measured by the last run on the clean tree),
known_findings.json (fixed and known findings), seeded/*/detection.json (which check reports which seeded change).
Run after ./runall.sh on a clean /repo."""
import json, glob, os, re, subprocess

V = '/verif'
out = []
man = json.load(open(f'{V}/MANIFEST.json'))
claimed = [c['property_id'] for c in man['checks']]
props = {}
for l in open(f'{V}/properties.jsonl'):
    p = json.loads(l)
    props[p['id']] = p

out.append('### 9.1 Rules and obligations per claimed property (measured by the last run on the unchanged tree)\n')
out.append('| property | build configs | rule: obligations | discharged | known findings | functions analysed |')
out.append('|---|---|---|---|---|---|')
tot = 0
for pid in claimed:
    f = f'{V}/evidence/{pid}.json'
    if not os.path.exists(f):
        continue
    e = json.load(open(f))
    c = e['coverage']
    rules = ', '.join(f'{k}: {v}' for k, v in sorted(c.get('rules', {}).items()) if k != 'NONVACUITY')
    n = sum(v for k, v in c.get('rules', {}).items() if k != 'NONVACUITY')
    tot += n
    out.append(f"| {pid} | {' + '.join(c.get('build_configs', []))} | {rules} | {c.get('discharged')} | {c.get('known_findings')} | {c.get('functions_analysed')} |")
out.append(f'\nTotal obligations decided per run: {tot}.\n')

kf = json.load(open(f'{V}/known_findings.json'))['findings']
out.append('### 9.2 Genuine defects of the pinned tree\n')
out.append('Repaired (one `fix:` commit each in /repo; the check passes on the repaired tree and fires again when the repair is reverted):\n')
out.append('| finding | property | commit | rule instance | what failed |')
out.append('|---|---|---|---|---|')
seen = set()
for e in kf:
    if e['status'] != 'fixed':
        continue
    key = (e['finding'], e['key'])
    if key in seen:
        continue
    seen.add(key)
    what = re.sub(r'^fixed: property=\S+ \S+ ', '', e['what']).replace('|', '/')
    out.append(f"| {e['finding']} | {e['property']} | {e.get('commit','')} | `{e['key']}` | {what} |")
out.append('\nRecorded, not repaired (printed as KNOWN-FINDING, exit 0; any other instance of the same rule is still a VIOLATION):\n')
out.append('| finding | property | rule instances | what fails |')
out.append('|---|---|---|---|')
byf = {}
for e in kf:
    if e['status'] != 'known':
        continue
    byf.setdefault((e['finding'], e['property']), []).append(e)
for (fid, pid), es in sorted(byf.items(), key=lambda x: (int(re.sub(r'\D', '', x[0][0]) or 0), x[0][0], x[0][1])):
    what = es[0]['what'].replace('|', '/')
    out.append(f"| {fid} | {pid} | {len(es)} | {what} |")

out.append('\n### 9.3 Seeded changes and the checks that report them\n')
out.append('Each row is one change produced by an isolated sub-agent (property text and a scratch worktree only), confirmed with `seeded/verify.sh` '
           '(demo passes on HEAD, fails with the patch, existing tests still pass). The outcome column is what the thorough tier of the property\'s check '
           'measured on the current tree (the change applied as an in-memory overlay); "first report" is the first obligation it reports that the unchanged tree does not.\n')
out.append('| seed | property | files changed | outcome | first report |')
out.append('|---|---|---|---|---|')
import sys
evdir = sys.argv[1] if len(sys.argv) > 1 else f'{V}/evidence'
seedres = {}
for pid in claimed:
    f = f'{evdir}/{pid}.json'
    if not os.path.exists(f):
        continue
    cov = json.load(open(f))['coverage']
    sc = cov.get('seeded_changes')
    if not sc:
        continue
    for smp in (sc.get('samples') or []):
        seedres[smp['seed']] = ('reported' if smp['reported'] else 'NOT reported', (smp.get('first_reports') or [''])[0])
    for st in (sc.get('stale') or []):
        seedres[st.split(':')[0]] = ('stale (' + st.split(': ', 1)[-1] + ')', '')
nd = nm = 0
for d in sorted(glob.glob(f'{V}/seeded/C*_*')):
    sid = os.path.basename(d)
    try:
        meta = json.load(open(f'{d}/meta.json'))
    except Exception:
        continue
    pid = meta.get('property')
    res, rep = seedres.get(sid, ('not run', ''))
    rep = re.sub(r'^[^|]*\|', '', rep)[:150].replace('|', '/')
    if res == 'reported':
        nd += 1
    elif res.startswith('NOT'):
        nm += 1
    files = ', '.join(os.path.basename(x) for x in (meta.get('files_changed') or []))
    out.append(f"| {sid} | {pid} | {files} | {res} | {rep} |")
out.append(f'\nReported: {nd}; not reported: {nm}.\n')

out.append('### 9.3b Derived single-edit mutants (thorough tier, last run)\n')
out.append('| property | generated | analysed | type-checked | killed | by kind |')
out.append('|---|---|---|---|---|---|')
for pid in claimed:
    f = f'{evdir}/{pid}.json'
    if not os.path.exists(f):
        continue
    dm = json.load(open(f))['coverage'].get('derived_mutants')
    if not dm:
        continue
    kinds = '; '.join(f'{k} {v}' for k, v in sorted(dm.get('by_kind', {}).items()))
    out.append(f"| {pid} | {dm['generated']} | {dm['analysed']} | {dm['type_checked']} | {dm['killed']} | {kinds} |")
out.append('')

text = '\n'.join(out)
p = f'{V}/DESIGN.md'
s = open(p).read()
b, e = '<!-- BEGIN GENERATED -->', '<!-- END GENERATED -->'
if b in s and e in s:
    s = s[:s.index(b) + len(b)] + '\n' + text + '\n' + s[s.index(e):]
    open(p, 'w').write(s)
    print('DESIGN.md tables regenerated:', len(out), 'lines')
else:
    print('markers not found in DESIGN.md')
