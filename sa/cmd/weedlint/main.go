// weedlint decides the structural obligations of one property on /repo's current source.
package main

import (
	"flag"
	"fmt"
	"os"
	"path/filepath"
	"runtime"
	"runtime/debug"
	"sort"
	"strconv"
	"strings"

	"verif/sa/eng"
	"verif/sa/props"
)

func main() {
	prop := flag.String("prop", "", "property id (C01..C40)")
	tier := flag.String("tier", "quick", "quick|thorough")
	verbose := flag.Bool("v", false, "print every obligation")
	verifDir := flag.String("verif", "/verif", "verif directory (evidence, known findings)")
	list := flag.Bool("list", false, "list implemented properties")
	dump := flag.String("dump", "", "debug: dump SSA of pkg:func, e.g. weed/storage:(*Volume).readNeedle")
	tags := flag.String("tags", "", "build tags for -dump")
	flag.Parse()
	if *dump != "" {
		prog, err := eng.Load(*tags, nil)
		if err != nil {
			fmt.Println(err)
			os.Exit(2)
		}
		i := strings.Index(*dump, ":")
		fn := prog.Func((*dump)[:i], (*dump)[i+1:])
		if fn == nil {
			fmt.Println("not found")
			os.Exit(2)
		}
		for _, f := range eng.WithAnon(fn) {
			f.WriteTo(os.Stdout)
		}
		return
	}
	if t := os.Getenv("VERIF_TIER"); t == "quick" || t == "thorough" {
		*tier = t
	}
	if *list {
		var ids []string
		for id := range props.Registry {
			ids = append(ids, id)
		}
		sort.Strings(ids)
		for _, id := range ids {
			fmt.Println(id)
		}
		return
	}
	p := props.Registry[*prop]
	if p == nil {
		fmt.Printf("unknown property %q\n", *prop)
		os.Exit(2)
	}
	os.Exit(run(p, *tier, *verbose, *verifDir))
}

func run(p *props.Prop, tier string, verbose bool, verifDir string) (code int) {
	c := eng.NewCtx(p.ID, tier, verifDir)
	defer func() {
		if r := recover(); r != nil {
			fmt.Printf("analyser panic: %v\n%s\n", r, debug.Stack())
			fmt.Printf("VIOLATION property=%s replay=%s/evidence/%s.violations.json\n", p.ID, verifDir, p.ID)
			code = 1
		}
	}()
	configs := p.Configs
	if len(configs) == 0 {
		configs = []string{""}
	}
	if tier == "thorough" {
		configs = []string{"", "5BytesOffset"}
	}
	bases := map[string]*eng.Prog{}
	for _, tags := range configs {
		prog, err := eng.Load(tags, nil)
		if err != nil {
			fmt.Printf("load failed: %v\n", err)
			fmt.Printf("VIOLATION property=%s replay=%s/evidence/%s.violations.json\n", p.ID, verifDir, p.ID)
			return 1
		}
		c.P = prog
		bases[tags] = prog
		name := tags
		if name == "" {
			name = "default"
		}
		c.Config = append(c.Config, name)
		p.Run(c)
		c.Note("config %s: %d packages, %d functions in SSA", name, len(prog.Pkgs), prog.NFuncs)
	}
	if tier == "thorough" && os.Getenv("VERIF_NO_MUTANTS") == "" {
		mutationKill(p, c, configs, bases, verbose)
	}
	if verbose {
		c.PrintAll()
	}
	return c.Finish(p.Explanation, p.Assumptions, p.Trusted)
}

// mutationKill is the second half of the thorough tier: it tests the rules of the property both
// ways on the current tree. (a) every committed seeded change of this property (a realistic
// breaking change produced without knowledge of the checker) is applied as an in-memory overlay
// and must be reported; (b) single-edit mutants are derived inside the functions the rules
// looked at, type-checked, and analysed: the kill rate and the survivors are recorded as
// evidence of what the rules are sensitive to. Nothing is executed; /repo is not touched.
// The outcome never changes the exit code: a surviving mutant is a statement about the checker,
// not a violation of the property by the tree.
func mutationKill(p *props.Prop, base *eng.Ctx, configs []string, bases map[string]*eng.Prog, verbose bool) {
	baseline := base.Unresolved()
	type verdict struct {
		m        eng.Mutant
		compiled bool
		killed   bool
		crashed  bool
		reports  []string
	}
	analyse := func(m eng.Mutant) (v verdict) {
		v.m = m
		defer func() {
			if r := recover(); r != nil {
				v.crashed = true
				v.killed = true // a real run fails on an analyser panic, too
				v.reports = []string{fmt.Sprintf("analyser panic: %v", r)}
			}
		}()
		c := eng.NewCtx(p.ID, "mutant", base.VerifD)
		for _, tags := range configs {
			prog, err := eng.LoadMutant(bases[tags], m.Overlay)
			if err != nil {
				if os.Getenv("WEEDLINT_DEBUG_MUTANT") != "" {
					fmt.Printf("  mutant %s [%s]: %v\n", m.ID, tags, err)
				}
				continue // does not type-check under this configuration (or the file is not part of it)
			}
			v.compiled = true
			c.P = prog
			name := tags
			if name == "" {
				name = "default"
			}
			c.Config = append(c.Config, name)
			p.Run(c)
		}
		if !v.compiled {
			return v
		}
		for k := range c.Unresolved() {
			if !baseline[k] {
				v.killed = true
				v.reports = append(v.reports, k)
			}
		}
		sort.Strings(v.reports)
		if len(v.reports) > 3 {
			v.reports = v.reports[:3]
		}
		return v
	}
	runAll := func(ms []eng.Mutant) []verdict {
		out := make([]verdict, len(ms))
		sem := make(chan struct{}, parallelism())
		done := make(chan int)
		for i := range ms {
			go func(i int) {
				sem <- struct{}{}
				out[i] = analyse(ms[i])
				<-sem
				done <- i
			}(i)
		}
		for range ms {
			<-done
		}
		return out
	}

	// (a) seeded changes
	var seeds []eng.Mutant
	var stale []string
	dirs, _ := filepath.Glob(filepath.Join(base.VerifD, "seeded", p.ID+"_*"))
	sort.Strings(dirs)
	for _, d := range dirs {
		id := filepath.Base(d)
		m, ok, why := eng.SeededMutant(id, filepath.Join(d, "patch.diff"))
		if !ok {
			stale = append(stale, id+": "+why)
			continue
		}
		seeds = append(seeds, m)
	}
	sv := runAll(seeds)
	var seedKilled, seedMissed []string
	var seedSamples []interface{}
	for _, v := range sv {
		if !v.compiled && !v.crashed {
			stale = append(stale, v.m.ID+": does not type-check on this tree")
			continue
		}
		if v.killed {
			seedKilled = append(seedKilled, v.m.ID)
		} else {
			seedMissed = append(seedMissed, v.m.ID)
			fmt.Printf("CHECKER-WEAKNESS property=%s seeded change %s (%s) is not reported by the rules\n", p.ID, v.m.ID, v.m.Where)
		}
		seedSamples = append(seedSamples, map[string]interface{}{"seed": v.m.ID, "files": v.m.Where, "reported": v.killed, "first_reports": v.reports})
	}

	// (b) derived single-edit mutants inside the analysed functions
	all := eng.AutoMutants(base.TouchedSpans())
	limit := 48
	if n, err := strconv.Atoi(os.Getenv("VERIF_MUTANTS")); err == nil && n >= 0 {
		limit = n
	}
	sample := eng.Sample(all, limit, 0)
	av := runAll(sample)
	compiled, killed := 0, 0
	byKind := map[string][2]int{}
	var survivors, killedSamples []interface{}
	for _, v := range av {
		if !v.compiled && !v.crashed {
			continue
		}
		compiled++
		k := byKind[v.m.Kind]
		k[0]++
		if v.killed {
			killed++
			k[1]++
			if len(killedSamples) < 8 {
				killedSamples = append(killedSamples, map[string]interface{}{"mutant": v.m.ID, "edit": v.m.Desc, "reported_as": v.reports})
			}
		} else {
			survivors = append(survivors, map[string]interface{}{"mutant": v.m.ID, "edit": v.m.Desc})
			if verbose {
				fmt.Printf("  survived  %s  %s\n", v.m.ID, v.m.Desc)
			}
		}
		byKind[v.m.Kind] = k
	}
	kinds := map[string]string{}
	for k, v := range byKind {
		kinds[k] = fmt.Sprintf("%d/%d killed", v[1], v[0])
	}
	base.Mutation = map[string]interface{}{
		"mutation_rule": "thorough tier, second half: the rules are run on changed copies of the source supplied as go/packages overlays (type-checked, never executed, tree untouched). seeded = the committed seeded changes of this property (realistic breaking changes written without knowledge of the rules); derived = single-edit mutants (negated condition, flipped comparison/connective, dropped call/defer/field store, constant+1, break<->continue) inside the functions the rules analysed, sampled evenly and deterministically. A mutant counts as killed when the rules report an obligation they do not report on the unchanged tree. Survivors do not change the verdict: many single edits do not break the property (equivalent or irrelevant mutants), and the rules decide named structural clauses, not the whole behaviour.",
		"seeded_changes": map[string]interface{}{
			"applied": len(seeds), "reported": len(seedKilled), "not_reported": seedMissed, "stale": stale, "samples": seedSamples,
		},
		"derived_mutants": map[string]interface{}{
			"generated": len(all), "analysed": len(sample), "type_checked": compiled, "killed": killed, "by_kind": kinds,
			"killed_samples": killedSamples, "survivors": survivors,
		},
		"evaluations":         len(seeds) + compiled,
		"distinct_nontrivial": len(seedKilled) + killed,
	}
	fmt.Printf("mutation-kill property=%s seeded: %d/%d reported (%d stale); derived: %d generated, %d analysed, %d type-check, %d killed\n",
		p.ID, len(seedKilled), len(seeds), len(stale), len(all), len(sample), compiled, killed)
}

func parallelism() int {
	if n, err := strconv.Atoi(os.Getenv("VERIF_PAR")); err == nil && n > 0 {
		return n
	}
	n := runtime.NumCPU() / 2
	if n < 1 {
		n = 1
	}
	if n > 8 {
		n = 8
	}
	return n
}
