// weedlint decides the structural obligations of one property on /repo's current source.
package main

import (
	"flag"
	"fmt"
	"os"
	"runtime/debug"
	"sort"
	"strings"

	"verif/sa/eng"
	"verif/sa/props"
)

func main() {
	prop := flag.String("prop", "", "property id (C01..C40)")
	tier := flag.String("tier", "quick", "quick|thorough")
	verbose := flag.Bool("v", false, "print every obligation")
	verifDir := flag.String("verif", "/verif", "verif directory (evidence, known findings)")
	list := flag.Bool("list", false, "list implemented properties")
	dump := flag.String("dump", "", "debug: dump SSA of pkg:func, e.g. weed/storage:(*Volume).readNeedle")
	tags := flag.String("tags", "", "build tags for -dump")
	flag.Parse()
	if *dump != "" {
		prog, err := eng.Load(*tags, nil)
		if err != nil {
			fmt.Println(err)
			os.Exit(2)
		}
		i := strings.Index(*dump, ":")
		fn := prog.Func((*dump)[:i], (*dump)[i+1:])
		if fn == nil {
			fmt.Println("not found")
			os.Exit(2)
		}
		for _, f := range eng.WithAnon(fn) {
			f.WriteTo(os.Stdout)
		}
		return
	}
	if t := os.Getenv("VERIF_TIER"); t == "quick" || t == "thorough" {
		*tier = t
	}
	if *list {
		var ids []string
		for id := range props.Registry {
			ids = append(ids, id)
		}
		sort.Strings(ids)
		for _, id := range ids {
			fmt.Println(id)
		}
		return
	}
	p := props.Registry[*prop]
	if p == nil {
		fmt.Printf("unknown property %q\n", *prop)
		os.Exit(2)
	}
	os.Exit(run(p, *tier, *verbose, *verifDir))
}

func run(p *props.Prop, tier string, verbose bool, verifDir string) (code int) {
	c := eng.NewCtx(p.ID, tier, verifDir)
	defer func() {
		if r := recover(); r != nil {
			fmt.Printf("analyser panic: %v\n%s\n", r, debug.Stack())
			fmt.Printf("VIOLATION property=%s replay=%s/evidence/%s.violations.json\n", p.ID, verifDir, p.ID)
			code = 1
		}
	}()
	configs := p.Configs
	if len(configs) == 0 {
		configs = []string{""}
	}
	if tier == "thorough" {
		configs = []string{"", "5BytesOffset"}
	}
	for _, tags := range configs {
		prog, err := eng.Load(tags, nil)
		if err != nil {
			fmt.Printf("load failed: %v\n", err)
			fmt.Printf("VIOLATION property=%s replay=%s/evidence/%s.violations.json\n", p.ID, verifDir, p.ID)
			return 1
		}
		c.P = prog
		name := tags
		if name == "" {
			name = "default"
		}
		c.Config = append(c.Config, name)
		p.Run(c)
		c.Note("config %s: %d packages, %d functions in SSA", name, len(prog.Pkgs), prog.NFuncs)
	}
	if verbose {
		c.PrintAll()
	}
	return c.Finish(p.Explanation, p.Assumptions, p.Trusted)
}
