package props

import (
	"fmt"
	"go/token"
	"strings"

	"golang.org/x/tools/go/ssa"

	"verif/sa/eng"
)

// helpers shared by several properties ---------------------------------------

// needleCookieOf: v is a load of Needle.Cookie; returns the base needle value.
func isCookieLoad(v ssa.Value) bool { return eng.IsField(v, "Needle.Cookie") }

// okOfGet: v is the "found" result (index 1) of a NeedleMapper.Get / map lookup call.
func okOfCall(names ...string) func(ssa.Value) bool {
	return func(v ssa.Value) bool {
		ex, ok := v.(*ssa.Extract)
		if !ok || ex.Index != 1 {
			return false
		}
		c, ok := ex.Tuple.(*ssa.Call)
		return ok && eng.CalleeIs(c, names...)
	}
}

// returnsOnlyNonNilErr: every return reachable from the given locations carries
// an error operand that is not the nil constant (and is not a phi with a nil edge).
func returnsNonNilErr(c *eng.Ctx, rule, key string, fn *ssa.Function, starts []eng.Loc, what string) {
	if len(starts) == 0 {
		c.Ob(rule, eng.FuncName(fn)+" "+key, false, fn.Pos(), "no failing edge found for: "+what)
		return
	}
	for i, st := range starts {
		bad, path := eng.Search(st, func(in ssa.Instruction) bool {
			r, ok := in.(*ssa.Return)
			if !ok {
				return false
			}
			e := eng.ReturnErrOperand(r)
			if e == nil {
				return false
			}
			return mayBeNil(e)
		}, eng.SearchOpt{})
		k := fmt.Sprintf("%s %s edge#%d", eng.FuncName(fn), key, i)
		if bad != nil {
			c.Ob(rule, k, false, eng.InstrPos(bad), "a return with a possibly-nil error is reachable from the failing edge ("+what+"); path "+eng.DescribePath(c.P, fn, path))
		} else {
			c.Ob(rule, k, true, fn.Pos(), what)
		}
	}
}

func mayBeNil(e ssa.Value) bool { return eng.MayBeNil(e) }

func init() {
	register(&Prop{
		ID:  "C01",
		Run: runC01,
		Explanation: "Static decision of structural necessary conditions of C01 on the SSA of the volume write/read/delete paths: " +
			"(1) the write-commit site appends only past the equal edge of stored-cookie == request-cookie when the key exists and the unequal edge returns an error; " +
			"(2) Store.WriteVolumeNeedle / DeleteVolumeNeedle reach the volume mutators only on the not-read-only edge; " +
			"(3) readNeedle reaches ReadData only past found && offset!=0 && (not deleted || ReadDeleted) and its not-found/deleted exits return errors; every success return of readNeedle is preceded by the ReadData that hydrates the stored cookie; " +
			"(4) in the HTTP handlers every body / delete sink is dominated by the equal edge of a cookie comparison whose request-side operand was loaded before the store read; " +
			"(5) the index is updated only on the nil-error edge of the append; (6) every replay of the index file into a lookup structure (in-memory map, leveldb rebuild, MemDb, EC encoder) removes the key on the tombstone branch. " +
			"Decides these clauses for all paths; does NOT decide that returned bytes/metadata equal the last write.",
		Assumptions: []string{"data values and history semantics are out of scope of the static rules", "no-return calls: glog.Fatal*, os.Exit, log.Fatal*"},
		Trusted:     baseTrusted,
	})
}

func cookieCmpAtom(isReq func(ssa.Value) bool) eng.Atom {
	// stored.Cookie == request.Cookie, operands must be distinct values; one side satisfies isReq
	return func(cond ssa.Value) (bool, bool) {
		b, ok := cond.(*ssa.BinOp)
		if !ok || (b.Op != token.EQL && b.Op != token.NEQ) {
			return false, false
		}
		x, y := b.X, b.Y
		okPair := func(req, stored ssa.Value) bool {
			return isReq(req) && isCookieLoad(stored) && !isReq(stored) && req != stored
		}
		if !(okPair(x, y) || okPair(y, x)) {
			return false, false
		}
		return true, b.Op == token.EQL
	}
}

func runC01(c *eng.Ctx) {
	P := c.P
	appendCall := eng.PlainCallTo("needle.Needle).Append")
	putCall := eng.PlainCallTo("storage.NeedleMapper).Put")
	delCall := eng.PlainCallTo("storage.NeedleMapper).Delete")
	getOK := okOfCall("storage.NeedleMapper).Get")

	// (1) + (5): write-commit sites of package storage, discovered by role.
	nCommit := 0
	for _, fn := range P.SrcFuncs("weed/storage") {
		apps := eng.Find(fn, appendCall)
		if len(apps) == 0 {
			continue
		}
		puts := eng.Find(fn, putCall)
		dels := eng.Find(fn, delCall)
		if len(puts)+len(dels) == 0 {
			continue
		}
		c.Touch(fn)
		// (5) index update only on err == nil edge of the append
		for i, a := range apps {
			e := eng.ErrOf(a)
			if e == nil {
				c.Undecided("ORDER-append-then-index", fmt.Sprintf("%s append#%d", eng.FuncName(fn), i), eng.InstrPos(a), "append error result not found")
				continue
			}
			idx := append(append([]ssa.Instruction{}, puts...), dels...)
			var after []ssa.Instruction
			for _, x := range idx {
				if h, _ := eng.Search(eng.After(a), eng.Is(x), eng.SearchOpt{}); h != nil {
					after = append(after, x)
				}
			}
			c.Guard("ORDER-append-then-index", fmt.Sprintf("append#%d->index", i), fn, eng.After(a), after, eng.PassEdges(fn, eng.ErrNil(e)),
				"needle map Put/Delete only on the err==nil edge of the preceding Append")
		}
		if len(puts) == 0 {
			continue
		}
		nCommit++
		// (1) cookie guard on overwrite
		isReq := func(v ssa.Value) bool {
			if !isCookieLoad(v) {
				return false
			}
			b := eng.FieldBase(v)
			_, isParam := b.(*ssa.Parameter)
			return isParam
		}
		atom := cookieCmpAtom(isReq)
		cut := eng.MergeEdges(eng.PassEdges(fn, atom), eng.FailEdges(fn, eng.BoolVal(true, getOK)))
		if len(eng.PassEdges(fn, atom)) == 0 {
			cut = nil
		}
		c.Guard("GUARD-cookie-overwrite", "append", fn, eng.Entry(fn), apps, cut,
			"when the key exists the Append is reached only on stored.Cookie == request.Cookie")
		var fails []eng.Loc
		for e := range eng.FailEdges(fn, atom) {
			fails = append(fails, eng.Loc{B: e.B.Succs[e.I], Idx: 0})
		}
		returnsNonNilErr(c, "GUARD-cookie-overwrite-err", "mismatch-exit", fn, fails, "cookie mismatch returns a non-nil error")
	}
	if nCommit == 0 {
		c.Undecided("GUARD-cookie-overwrite", "discovery", token.NoPos, "no function in weed/storage both appends a needle and Puts it into the needle map")
	}

	// (1b) the "unchanged, skip the write" shortcut is taken only for byte-identical content
	if fn := c.NeedFunc("weed/storage", "(*Volume).isFileUnchanged"); fn != nil {
		var trues []ssa.Instruction
		for _, r := range eng.Find(fn, eng.IsReturn) {
			for _, v := range eng.Resolve(r.(*ssa.Return).Results[0]) {
				if b, ok := eng.ConstBool(v); ok && b {
					trues = append(trues, r)
				} else if !ok {
					trues = append(trues, r) // computed result: must be guarded as well
				}
			}
		}
		if len(trues) == 0 {
			c.Undecided("GUARD-unchanged", eng.FuncName(fn), fn.Pos(), "no `return true` found")
		}
		dataEq := func(cond ssa.Value) (bool, bool) {
			call, ok := cond.(*ssa.Call)
			if !ok || !eng.CalleeIs(call, "bytes.Equal") {
				return false, false
			}
			if eng.MentionsField(call.Call.Args[0], "Needle.Data") && eng.MentionsField(call.Call.Args[1], "Needle.Data") {
				return true, true
			}
			return false, false
		}
		cookieEq := cookieCmpAtom(func(v ssa.Value) bool {
			if !isCookieLoad(v) {
				return false
			}
			_, isParam := eng.FieldBase(v).(*ssa.Parameter)
			return isParam
		})
		c.Guard("GUARD-unchanged", "same-bytes", fn, eng.Entry(fn), trues, eng.PassEdges(fn, dataEq), "a write is skipped as 'unchanged' only when the stored data bytes equal the new ones (a checksum match is not enough)")
		c.Guard("GUARD-unchanged", "same-cookie", fn, eng.Entry(fn), trues, eng.PassEdges(fn, cookieEq), "a write is skipped as 'unchanged' only when the cookies match")
	}

	// (2) read-only guards in Store
	commitSite := map[*ssa.Function]bool{}
	for _, fn := range P.SrcFuncs("weed/storage") {
		if len(eng.Find(fn, appendCall)) > 0 && len(eng.Find(fn, eng.Or(putCall, delCall))) > 0 {
			commitSite[fn] = true
		}
	}
	mutator := eng.CallReaching(func(in ssa.Instruction) bool {
		cl, ok := in.(ssa.CallInstruction)
		return ok && commitSite[eng.StaticFn(cl)]
	}, 5)
	nRO := 0
	for _, fn := range P.SrcFuncs("weed/storage") {
		if fn.Signature.Recv() == nil || eng.TypeName(fn.Signature.Recv().Type()) != "Store" || fn.Parent() != nil {
			continue
		}
		sinks := eng.Find(fn, func(in ssa.Instruction) bool {
			cl, ok := in.(*ssa.Call)
			if !ok || !mutator(in) {
				return false
			}
			f := eng.StaticFn(cl)
			return f != nil && f.Signature.Recv() != nil && eng.TypeName(f.Signature.Recv().Type()) == "Volume"
		})
		if len(sinks) == 0 {
			continue
		}
		nRO++
		ro := eng.AnyAtom(
			eng.BoolCall(false, "storage.Volume).IsReadOnly"),
			eng.BoolVal(false, func(v ssa.Value) bool { return eng.IsField(v, "Volume.noWriteOrDelete") }),
		)
		c.Guard("GUARD-readonly", "volume-mutator", fn, eng.Entry(fn), sinks, eng.PassEdges(fn, ro),
			"Store reaches the volume write/delete only on the not-read-only edge")
		var fails []eng.Loc
		for e := range eng.FailEdges(fn, ro) {
			fails = append(fails, eng.Loc{B: e.B.Succs[e.I], Idx: 0})
		}
		returnsNonNilErr(c, "GUARD-readonly-err", "readonly-exit", fn, fails, "read-only volume rejects with a non-nil error")
	}
	c.Expect("GUARD-readonly", 2)

	// (3) readNeedle
	if fn := c.NeedFunc("weed/storage", "(*Volume).readNeedle"); fn != nil {
		reads := eng.Find(fn, eng.PlainCallTo("needle.Needle).ReadData"))
		if len(reads) == 0 {
			c.Undecided("GUARD-read", eng.FuncName(fn), fn.Pos(), "no ReadData call found")
		}
		found := eng.PassEdges(fn, eng.BoolVal(true, getOK))
		c.Guard("GUARD-read", "found", fn, eng.Entry(fn), reads, found, "ReadData only when the map lookup found the key")
		nz := eng.PassEdges(fn, eng.BoolCall(false, "types.Offset).IsZero"))
		c.Guard("GUARD-read", "offset-nonzero", fn, eng.Entry(fn), reads, nz, "ReadData only when the stored offset is non-zero")
		live := eng.MergeEdges(
			eng.PassEdges(fn, eng.BoolCall(false, "types.Size).IsDeleted")),
			eng.PassEdges(fn, eng.BoolVal(true, func(v ssa.Value) bool { return eng.IsField(v, "ReadOption.ReadDeleted") })),
		)
		if len(eng.PassEdges(fn, eng.BoolCall(false, "types.Size).IsDeleted"))) == 0 {
			live = nil
		}
		c.Guard("GUARD-read", "not-deleted", fn, eng.Entry(fn), reads, live, "ReadData only when the entry is not deleted (or the caller asked for deleted data)")
		var fails []eng.Loc
		for _, a := range []eng.Atom{eng.BoolVal(true, getOK), eng.BoolCall(false, "types.Offset).IsZero")} {
			for e := range eng.FailEdges(fn, a) {
				fails = append(fails, eng.Loc{B: e.B.Succs[e.I], Idx: 0})
			}
		}
		returnsNonNilErr(c, "GUARD-read-err", "notfound-exit", fn, fails, "not-found exits return a non-nil error")
		// deleted exit: the IsDeleted true edge reaches ReadData only via ReadDeleted; every other exit returns an error
		var delStarts []eng.Loc
		for e := range eng.FailEdges(fn, eng.BoolCall(false, "types.Size).IsDeleted")) {
			delStarts = append(delStarts, eng.Loc{B: e.B.Succs[e.I], Idx: 0})
		}
		for i, st := range delStarts {
			bad, path := eng.Search(st, func(in ssa.Instruction) bool {
				r, ok := in.(*ssa.Return)
				return ok && mayBeNil(eng.ReturnErrOperand(r))
			}, eng.SearchOpt{Cut: eng.PassEdges(fn, eng.BoolVal(true, func(v ssa.Value) bool { return eng.IsField(v, "ReadOption.ReadDeleted") }))})
			k := fmt.Sprintf("%s deleted-exit edge#%d", eng.FuncName(fn), i)
			if bad != nil {
				c.Ob("GUARD-read-err", k, false, eng.InstrPos(bad), "deleted entry can return success without ReadDeleted; path "+eng.DescribePath(P, fn, path))
			} else {
				c.Ob("GUARD-read-err", k, true, fn.Pos(), "deleted entries return an error unless ReadDeleted is set")
			}
		}
		// ORDER-hydrate: every success return is preceded by ReadData
		var succ []ssa.Instruction
		for _, r := range eng.Find(fn, eng.IsReturn) {
			if mayBeNil(eng.ReturnErrOperand(r.(*ssa.Return))) {
				succ = append(succ, r)
			}
		}
		c.Before("ORDER-hydrate", "success-return", fn, eng.PlainCallTo("needle.Needle).ReadData"), succ,
			"a success return of the volume read is preceded by ReadData, which loads the stored cookie the handlers compare against")
	}

	// (4) handlers
	hydrate := eng.PlainCallTo("storage.Store).ReadVolumeNeedle", "storage.Store).ReadEcShardNeedle")
	handlerCookie := func(fn *ssa.Function) eng.Atom {
		hyd := eng.Find(fn, hydrate)
		return func(cond ssa.Value) (bool, bool) {
			b, ok := cond.(*ssa.BinOp)
			if !ok || (b.Op != token.EQL && b.Op != token.NEQ) {
				return false, false
			}
			// one operand: request cookie = load of Needle.Cookie dominating every hydrate call (or a parameter named cookie)
			isReq := func(v ssa.Value) bool {
				if p, ok := v.(*ssa.Parameter); ok {
					return eng.TypeName(p.Type()) == "Cookie"
				}
				in, ok := v.(ssa.Instruction)
				if !ok || !isCookieLoad(v) || len(hyd) == 0 {
					return false
				}
				for _, h := range hyd {
					if !eng.Dominates(in, h) {
						return false
					}
				}
				return true
			}
			isStored := func(v ssa.Value) bool {
				in, ok := v.(ssa.Instruction)
				if !ok || !isCookieLoad(v) || len(hyd) == 0 {
					return false
				}
				reached := false
				for _, h := range hyd {
					if eng.Dominates(in, h) {
						return false
					}
					if x, _ := eng.Search(eng.After(h), eng.Is(in), eng.SearchOpt{}); x != nil {
						reached = true
					}
				}
				return reached
			}
			if (isReq(b.X) && isStored(b.Y)) || (isReq(b.Y) && isStored(b.X)) {
				return true, b.Op == token.EQL
			}
			return false, false
		}
	}
	type hspec struct {
		pkg, name string
		sinks     eng.InstrPred
		what      string
	}
	bodyRead := func(in ssa.Instruction) bool {
		u, ok := in.(*ssa.UnOp)
		if !ok || u.Op != token.MUL {
			return false
		}
		switch eng.FieldSpec(u) {
		case "Needle.Data", "Needle.Name", "Needle.Mime", "Needle.Pairs":
			return true
		}
		return false
	}
	for _, h := range []hspec{
		{"weed/server", "(*VolumeServer).GetOrHeadHandler", eng.Or(eng.PlainCallTo("weed/server.writeResponseContent", "VolumeServer).tryHandleChunkedFile"), bodyRead), "response body / metadata sink"},
		{"weed/server", "(*VolumeServer).DeleteHandler", eng.Or(eng.PlainCallTo("topology.ReplicatedDelete", "operation.ChunkManifest).DeleteChunks"), bodyRead), "delete sink"},
		{"weed/storage", "(*Store).DeleteEcShardNeedle", eng.PlainCallTo("Store).doDeleteNeedleFromAtLeastOneRemoteEcShards"), "EC delete sink"},
	} {
		fn := c.NeedFunc(h.pkg, h.name)
		if fn == nil {
			continue
		}
		sinks := eng.Find(fn, h.sinks)
		if len(sinks) == 0 {
			c.Undecided("GUARD-handler-cookie", eng.FuncName(fn), fn.Pos(), "no "+h.what+" found")
			continue
		}
		c.Guard("GUARD-handler-cookie", "sinks", fn, eng.Entry(fn), sinks, eng.PassEdges(fn, handlerCookie(fn)),
			h.what+" only on the equal edge of stored cookie == request cookie (request cookie loaded before the store read)")
	}
	// the gRPC batch delete: a file id is deleted only past the equal edge of the cookie comparison, or when the
	// caller asked to skip the comparison
	if fn := c.NeedFunc("weed/server", "(*VolumeServer).BatchDelete"); fn != nil {
		sinks := eng.Find(fn, eng.PlainCallTo("storage.Store).DeleteVolumeNeedle"))
		skip := eng.PassEdges(fn, eng.BoolVal(true, func(v ssa.Value) bool { return eng.IsField(v, "BatchDeleteRequest.SkipCookieCheck") }))
		if len(sinks) == 0 {
			c.Undecided("GUARD-handler-cookie", eng.FuncName(fn), fn.Pos(), "no delete sink found")
		} else {
			c.Guard("GUARD-handler-cookie", "sinks", fn, eng.Entry(fn), sinks, eng.MergeEdges(eng.PassEdges(fn, handlerCookie(fn)), skip),
				"a file id of a batch is deleted only on the equal edge of stored cookie == request cookie (or when the request says to skip the comparison)")
		}
	}
	c.Expect("GUARD-handler-cookie", 6)
	c.Expect("ORDER-append-then-index", 2)

	// (4z) what a read returns for a key is found through the in-memory index: the 5th offset byte travels with its entry
	if n := lockstepExtra(c, "LOCKSTEP-index"); n < 30 {
		c.Undecided("LOCKSTEP-index", "discovery", token.NoPos, fmt.Sprintf("only %d entry accesses of the compact map found (expected >= 30)", n))
	}
	// a blob is served until its own TTL has passed since it was appended (the time the volume server wrote it), not
	// since the client-supplied modification time
	if rd := c.NeedFunc("weed/storage", "(*Volume).readNeedle"); rd != nil {
		feat, pos := expiryFeatures(rd)
		c.Ob("GUARD-read-expiry", eng.FuncName(rd)+" counts-from-append-time", strings.Contains(feat, "Needle.AppendAtNs") && !strings.Contains(feat, "Needle.LastModified"), pos,
			"the read path decides expiry from the append time and the blob's TTL: {"+feat+"}")
	}

	// (5a) a write or delete that arrives while the volume is compacted survives the commit with its latest state
	if fn := c.NeedFunc("weed/storage", "(*Volume).makeupDiff"); fn != nil {
		newestEntryWins(c, "ORDER-append-then-index", fn)
	}

	// (5b) ERR-storage: on the volume's read / write / delete paths no error of a callee is dropped: every call
	// that returns an error is followed, on its non-nil edge, only by returns that carry an error
	for _, name := range []string{"(*Volume).readNeedle", "(*Volume).doWriteRequest", "(*Volume).doDeleteRequest", "(*Volume).syncWrite", "(*Volume).syncDelete", "(*Volume).isFileUnchanged",
		"(*Store).WriteVolumeNeedle", "(*Store).DeleteVolumeNeedle", "(*Store).ReadVolumeNeedle"} {
		fn := c.NeedFunc("weed/storage", name)
		if fn == nil {
			continue
		}
		// only functions that can report an error themselves
		res := fn.Signature.Results()
		if res.Len() == 0 || !eng.IsErrorType(res.At(res.Len()-1).Type()) {
			continue
		}
		var calls []ssa.Instruction
		for _, in := range eng.Find(fn, func(in ssa.Instruction) bool {
			call, ok := in.(*ssa.Call)
			if !ok {
				return false
			}
			r := call.Call.Signature().Results()
			if r.Len() == 0 || !eng.IsErrorType(r.At(r.Len()-1).Type()) {
				return false
			}
			return !eng.CalleeIs(call, "fmt.Errorf", "errors.New")
		}) {
			calls = append(calls, in)
		}
		c.ErrChecked("ERR-storage", "callee-error", fn, calls, "an error of a callee on the volume's read/write/delete path reaches the caller")
	}
	c.Expect("ERR-storage", 10)

	// (6) SIB-replay: every replay of the index file into a lookup structure applies the
	// tombstones too: a callback handed to idx.WalkIndexFile that stores the entry's key on the
	// live branch removes the key on the other branch.
	nReplay := 0
	for _, pkg := range []string{"weed/storage", "weed/storage/needle_map", "weed/storage/erasure_coding"} {
		for _, fn := range c.P.SrcFuncs(pkg) {
			for _, in := range eng.Find(fn, eng.PlainCallTo("idx.WalkIndexFile")) {
				mc, ok := eng.Unwrap(eng.Arg(in.(*ssa.Call), 1)).(*ssa.MakeClosure)
				if !ok {
					c.Undecided("SIB-replay", eng.FuncName(fn), in.Pos(), "index replay callback is not a function literal")
					continue
				}
				cb := mc.Fn.(*ssa.Function)
				if len(cb.Params) != 3 {
					continue
				}
				keyed := func(names ...string) []ssa.Instruction {
					return eng.Find(cb, func(in ssa.Instruction) bool {
						x, ok := in.(*ssa.Call)
						if !ok {
							return false
						}
						n := shortName(eng.Callee(x))
						match := false
						for _, want := range names {
							if n == want {
								match = true
							}
						}
						if !match {
							return false
						}
						for _, a := range x.Call.Args {
							if eng.Mentions(a, 3, func(v ssa.Value) bool { return eng.IsParamLike(v, cb.Params[0].Name()) }) {
								return true
							}
						}
						return false
					})
				}
				stores := keyed("Set", "levelDbWrite", "Put")
				if len(stores) == 0 {
					continue // a scan that builds no lookup structure (metrics, listings)
				}
				c.Touch(cb)
				nReplay++
				dels := keyed("Delete", "levelDbDelete")
				ok2 := len(dels) > 0
				why := "the callback never removes a key"
				if ok2 {
					// the removal is on the branch the store is not
					hit, _ := eng.Search(eng.Entry(cb), eng.AnyOf(dels), eng.SearchOpt{Barrier: eng.AnyOf(stores)})
					ok2 = hit != nil
					why = "the removal is only reachable after the store"
					// and every path through the callback does one or the other
					if skip, _ := eng.Search(eng.Entry(cb), eng.IsReturn, eng.SearchOpt{Barrier: eng.Or(eng.AnyOf(dels), eng.AnyOf(stores))}); skip != nil && ok2 {
						ok2 = false
						why = "an index entry can pass through the callback without being stored or removed"
					}
				}
				c.Ob("SIB-replay", eng.FuncName(fn)+" applies-tombstones", ok2, in.Pos(), "replaying the index file applies deletions as well as writes (a deleted id stays deleted after a reload / rebuild)"+ifs(!ok2, ": "+why))
			}
		}
	}
	_ = nReplay
	c.Expect("SIB-replay", 4)
}

// errAll records an ERR obligation for every call in the named functions that returns an error: on its non-nil
// edge only error-carrying returns are reachable (functions that cannot report an error themselves are skipped).
func errAll(c *eng.Ctx, rule, pkg string, what string, names ...string) {
	for _, name := range names {
		fn := c.NeedFunc(pkg, name)
		if fn == nil {
			continue
		}
		res := fn.Signature.Results()
		if res.Len() == 0 || !eng.IsErrorType(res.At(res.Len()-1).Type()) {
			continue
		}
		for _, f := range eng.WithAnon(fn) {
			if f != fn {
				r := f.Signature.Results()
				if r.Len() == 0 || !eng.IsErrorType(r.At(r.Len()-1).Type()) {
					continue
				}
			}
			var calls []ssa.Instruction
			for _, in := range eng.Find(f, func(in ssa.Instruction) bool {
				call, ok := in.(*ssa.Call)
				if !ok {
					return false
				}
				r := call.Call.Signature().Results()
				if r.Len() == 0 || !eng.IsErrorType(r.At(r.Len()-1).Type()) {
					return false
				}
				return !eng.CalleeIs(call, "fmt.Errorf", "errors.New", "io.Closer).Close", "os.File).Close")
			}) {
				calls = append(calls, in)
			}
			c.ErrChecked(rule, "callee-error", f, calls, what)
		}
	}
}
