package props

import (
	"fmt"
	"go/token"
	"strings"

	"golang.org/x/tools/go/ssa"

	"verif/sa/eng"
)

func init() {
	register(&Prop{
		ID:  "C10",
		Run: runC10,
		Explanation: "Static decision of the structure of volume placement: (1) PROV-counts: the three node picks of findEmptySlotsForOneVolume ask the topology / main data center / main rack for DiffDataCenterCount+1 / DiffRackCount+1 / SameRackCount+1 nodes; each first-node filter refuses a non-matching preferred data center / rack / server and a node with fewer free slots than the replicas it must hold; " +
			"(2) COUNT-rest: PickNodesByWeight fails when it has fewer candidates than requested, skips children without a free slot, and returns exactly numberOfNodes-1 rest nodes in both branches; (3) ERR-reserve: a failed reservation in another rack / data center, a failed pick and a failed volume-id allocation make the growth return an error (no partial placement is grown); every picked/reserved server is appended exactly once. " +
			"Whether the random selection yields distinct servers over arbitrary topologies is not decided. Also decided (SIB-free-formula): the free-slot computation used for placement and the one of the usage counters are the same expression over the counters (EC shards charged identically).",
		Assumptions: []string{"ReserveOneVolume returns a server with a free slot of the requested disk type or an error"},
		Trusted:     baseTrusted,
	})
}

func runC10(c *eng.Ctx) {
	P := c.P
	_ = P
	fn := c.NeedFunc("weed/topology", "(*VolumeGrowth).findEmptySlotsForOneVolume")
	if fn != nil {
		picks := eng.Find(fn, eng.PlainCallTo("topology.NodeImpl).PickNodesByWeight"))
		if len(picks) != 3 {
			c.Undecided("PROV-counts", eng.FuncName(fn), fn.Pos(), fmt.Sprintf("expected 3 PickNodesByWeight calls, found %d", len(picks)))
		} else {
			type lvl struct {
				recv   func(ssa.Value) bool
				field  string
				what   string
				prefer string
				need   []string // fields the free-slot requirement of the first node mentions
			}
			lv := []lvl{
				{func(v ssa.Value) bool {
					return eng.Mentions(v, 6, func(x ssa.Value) bool { return eng.IsParamLike(x, "topo") })
				}, "ReplicaPlacement.DiffDataCenterCount", "topology", "VolumeGrowOption.DataCenter", []string{"ReplicaPlacement.DiffRackCount", "ReplicaPlacement.SameRackCount"}},
				{func(v ssa.Value) bool {
					return eng.Mentions(v, 6, func(x ssa.Value) bool {
						ta, ok := x.(*ssa.TypeAssert)
						return ok && eng.TypeName(ta.AssertedType) == "DataCenter"
					})
				}, "ReplicaPlacement.DiffRackCount", "main data center", "VolumeGrowOption.Rack", []string{"ReplicaPlacement.SameRackCount"}},
				{func(v ssa.Value) bool {
					return eng.Mentions(v, 6, func(x ssa.Value) bool {
						ta, ok := x.(*ssa.TypeAssert)
						return ok && eng.TypeName(ta.AssertedType) == "Rack"
					})
				}, "ReplicaPlacement.SameRackCount", "main rack", "VolumeGrowOption.DataNode", nil},
			}
			for i, p := range picks {
				call := p.(*ssa.Call)
				l := lv[i]
				c.Sites++
				c.Ob("PROV-counts", fmt.Sprintf("%s pick#%d receiver", eng.FuncName(fn), i), l.recv(call.Call.Args[0]), call.Pos(), "pick #"+fmt.Sprint(i)+" selects among the children of the "+l.what)
				n := eng.Arg(call, 0)
				okN := false
				if bo, ok := n.(*ssa.BinOp); ok && bo.Op == token.ADD {
					if k, isK := eng.ConstInt(bo.Y); isK && k == 1 && eng.FieldSpec(bo.X) == l.field {
						okN = true
					}
				}
				c.Ob("PROV-counts", fmt.Sprintf("%s pick#%d count", eng.FuncName(fn), i), okN, call.Pos(), "asks for "+l.field+" + 1 nodes")
				// the filter closure
				mc, ok := eng.Arg(call, 2).(*ssa.MakeClosure)
				if !ok {
					c.Undecided("PROV-counts", fmt.Sprintf("%s pick#%d filter", eng.FuncName(fn), i), call.Pos(), "first-node filter is not a function literal")
					continue
				}
				cf := mc.Fn.(*ssa.Function)
				c.Touch(cf)
				// preferred location refused
				pref := func(cond ssa.Value) (bool, bool) {
					b, ok := cond.(*ssa.BinOp)
					if !ok || (b.Op != token.NEQ && b.Op != token.EQL) {
						return false, false
					}
					hasId := func(v ssa.Value) bool { return eng.MentionsCall(v, "topology.Node).Id") }
					hasOpt := func(v ssa.Value) bool { return eng.MentionsField(v, l.prefer) }
					if (hasId(b.X) && hasOpt(b.Y)) || (hasId(b.Y) && hasOpt(b.X)) {
						return true, b.Op == token.NEQ
					}
					return false, false
				}
				starts := startsOf(eng.PassEdges(cf, pref))
				if len(starts) == 0 {
					c.Ob("PROV-counts", fmt.Sprintf("%s pick#%d preferred", eng.FuncName(fn), i), false, cf.Pos(), "the filter compares the node id with "+l.prefer)
				} else {
					returnsNonNilErr(c, "PROV-counts", fmt.Sprintf("pick#%d preferred-mismatch-refused", i), cf, starts, "a node other than the requested "+l.prefer+" is refused as first node")
				}
				// free-slot requirement
				free := func(cond ssa.Value) (bool, bool) {
					b, ok := cond.(*ssa.BinOp)
					if !ok {
						return false, false
					}
					if !eng.MentionsCall(b.X, "topology.Node).AvailableSpaceFor") || eng.MentionsCall(b.X, "topology.Node).Children") {
						return false, false
					}
					if _, direct := eng.Unwrap(b.X).(*ssa.Call); !direct {
						return false, false
					}
					for _, f := range l.need {
						if !eng.MentionsField(b.Y, f) {
							return false, false
						}
					}
					if len(l.need) == 0 {
						if k, isK := eng.ConstInt(b.Y); !isK || k != 1 {
							return false, false
						}
					}
					switch b.Op {
					case token.LSS:
						return true, true
					case token.GEQ:
						return true, false
					}
					return false, false
				}
				fs := startsOf(eng.PassEdges(cf, free))
				if len(fs) == 0 {
					c.Ob("PROV-counts", fmt.Sprintf("%s pick#%d free-slots", eng.FuncName(fn), i), false, cf.Pos(), "the filter compares the node's free slots for the requested disk type with the replicas it must hold")
				} else {
					returnsNonNilErr(c, "PROV-counts", fmt.Sprintf("pick#%d too-few-free-slots-refused", i), cf, fs, "a first node with fewer free slots than the replicas it must hold is refused")
				}
			}
			c.ErrChecked("ERR-reserve", "pick", fn, picks, "a failed pick fails the placement")
		}
		res := eng.Find(fn, eng.PlainCallTo("topology.NodeImpl).ReserveOneVolume", "topology.Node).ReserveOneVolume"))
		if len(res) != 2 {
			c.Undecided("ERR-reserve", eng.FuncName(fn), fn.Pos(), fmt.Sprintf("expected 2 ReserveOneVolume calls (other racks, other data centers), found %d", len(res)))
		}
		c.ErrChecked("ERR-reserve", "reserve", fn, res, "a rack / data center in which no server could be reserved makes the placement fail instead of yielding fewer replicas")
		for i, r := range res {
			// the reserved server is appended on the nil-error edge
			app := eng.Find(fn, func(in ssa.Instruction) bool {
				call, ok := in.(*ssa.Call)
				if !ok || !eng.CalleeIs(call, "builtin.append") {
					return false
				}
				for _, v := range eng.VarargValues(call.Call.Args[1]) {
					if eng.SameVar(v, eng.ResultOf(r, 0)) {
						return true
					}
				}
				return false
			})
			c.Ob("ERR-reserve", fmt.Sprintf("%s reserve#%d appended", eng.FuncName(fn), i), len(app) == 1, r.Pos(), "the reserved server joins the placement")
			if len(app) == 1 {
				c.Guard("ERR-reserve", fmt.Sprintf("reserve#%d appended-on-success", i), fn, eng.Entry(fn), app, eng.PassEdges(fn, eng.ErrNil(eng.ErrOf(r))), "only a successfully reserved server joins the placement")
			}
			// the loop ranges over the rest nodes of the matching pick
			recv := eng.RecvOf(r.(*ssa.Call))
			wantIdx := 1 - i // reserve#0: other racks (pick#1), reserve#1: other data centers (pick#0)
			picks := eng.Find(fn, eng.PlainCallTo("topology.NodeImpl).PickNodesByWeight"))
			okFrom := false
			if len(picks) == 3 {
				rest := eng.ResultOf(picks[wantIdx], 1)
				okFrom = rest != nil && eng.Mentions(recv, 8, func(x ssa.Value) bool { return x == rest })
			}
			c.Ob("PROV-counts", fmt.Sprintf("%s reserve#%d over-rest-nodes", eng.FuncName(fn), i), okFrom, r.Pos(), "one server is reserved in each of the other racks / other data centers returned by the matching pick")
		}
	}
	if fa := c.NeedFunc("weed/topology", "(*VolumeGrowth).findAndGrow"); fa != nil {
		find := eng.Find(fa, eng.PlainCallTo("topology.VolumeGrowth).findEmptySlotsForOneVolume"))
		nv := eng.Find(fa, eng.PlainCallTo("topology.Topology).NextVolumeId"))
		grow := eng.Find(fa, eng.PlainCallTo("topology.VolumeGrowth).grow"))
		if len(find) != 1 || len(nv) != 1 || len(grow) != 1 {
			c.Undecided("ERR-reserve", eng.FuncName(fa), fa.Pos(), "find / next id / grow calls not found")
		} else {
			c.Guard("ERR-reserve", "grow-after-find", fa, eng.Entry(fa), grow, eng.PassEdges(fa, eng.ErrNil(eng.ErrOf(find[0]))), "volumes are allocated only when a complete placement was found")
			c.Guard("ERR-reserve", "grow-after-id", fa, eng.Entry(fa), grow, eng.PassEdges(fa, eng.ErrNil(eng.ErrOf(nv[0]))), "and a volume id was obtained")
			c.ErrChecked("ERR-reserve", "grow", fa, grow, "an allocation failure is reported")
			okSrv := false
			for _, v := range eng.VarargValues(grow[0].(*ssa.Call).Call.Args[len(grow[0].(*ssa.Call).Call.Args)-1]) {
				if eng.SameVar(v, eng.ResultOf(find[0], 0)) {
					okSrv = true
				}
			}
			if eng.SameVar(grow[0].(*ssa.Call).Call.Args[len(grow[0].(*ssa.Call).Call.Args)-1], eng.ResultOf(find[0], 0)) {
				okSrv = true
			}
			c.Ob("PROV-counts", eng.FuncName(fa)+" grow-on-found-servers", okSrv, grow[0].Pos(), "the volume is allocated on exactly the servers that were found")
		}
	}

	// ---------------------------------------------------------------- (2) COUNT-rest
	if pk := c.NeedFunc("weed/topology", "(*NodeImpl).PickNodesByWeight"); pk != nil {
		isN := func(v ssa.Value) bool { return eng.IsParamLike(v, "numberOfNodes") }
		nMinus1 := func(v ssa.Value) bool {
			bo, ok := v.(*ssa.BinOp)
			if !ok || bo.Op != token.SUB || !isN(bo.X) {
				return false
			}
			k, isK := eng.ConstInt(bo.Y)
			return isK && k == 1
		}
		// fewer candidates than requested -> error
		few := eng.Cmp(func(v ssa.Value) bool {
			call, ok := v.(*ssa.Call)
			return ok && eng.CalleeIs(call, "builtin.len")
		}, isN, token.LSS)
		fs := startsOf(eng.PassEdges(pk, few))
		if len(fs) == 0 {
			c.Ob("COUNT-rest", eng.FuncName(pk)+" too-few-candidates", false, pk.Pos(), "len(candidates) < numberOfNodes is tested")
		} else {
			returnsNonNilErr(c, "COUNT-rest", "too-few-candidates", pk, fs, "fewer candidates than requested nodes is an error")
		}
		// candidates have a free slot
		noSlot := func(cond ssa.Value) (bool, bool) {
			b, ok := cond.(*ssa.BinOp)
			if !ok || !eng.MentionsCall(b.X, "topology.Node).AvailableSpaceFor") {
				return false, false
			}
			k, isK := eng.ConstInt(b.Y)
			if !isK {
				return false, false
			}
			switch {
			case b.Op == token.LEQ && k == 0, b.Op == token.LSS && k == 1:
				return true, true
			case b.Op == token.GTR && k == 0, b.Op == token.GEQ && k == 1:
				return true, false
			}
			return false, false
		}
		candAppend := eng.Find(pk, func(in ssa.Instruction) bool {
			call, ok := in.(*ssa.Call)
			if !ok || !eng.CalleeIs(call, "builtin.append") || call.Type().String() != "[]"+eng.ModulePath+"weed/topology.Node" {
				return false
			}
			// appends of a ranged child
			for _, v := range eng.VarargValues(call.Call.Args[1]) {
				if eng.Mentions(v, 5, func(x ssa.Value) bool { return eng.IsField(x, "NodeImpl.children") }) {
					return true
				}
			}
			return false
		})
		if len(candAppend) == 0 {
			c.Undecided("COUNT-rest", eng.FuncName(pk)+" candidates", pk.Pos(), "candidate collection not found")
		} else {
			c.Guard("COUNT-rest", "candidate-has-free-slot", pk, eng.Entry(pk), candAppend, eng.FailEdges(pk, noSlot), "a child without a free slot for the requested disk type is not a candidate")
		}
		// rest nodes: exactly numberOfNodes-1 in every assignment
		var slices []*ssa.Slice
		for _, b := range pk.Blocks {
			for _, in := range b.Instrs {
				if sl, ok := in.(*ssa.Slice); ok && sl.Type().String() == "[]"+eng.ModulePath+"weed/topology.Node" {
					if _, isAlloc := sl.X.(*ssa.Alloc); isAlloc {
						continue // vararg packing
					}
					slices = append(slices, sl)
				}
			}
		}
		var whole, head, tail []*ssa.Slice
		var unknown []*ssa.Slice
		for _, sl := range slices {
			switch {
			case sl.Low == nil && sl.High != nil && nMinus1(sl.High):
				whole = append(whole, sl)
			case sl.Low == nil && sl.High != nil:
				head = append(head, sl)
			case sl.Low != nil && sl.High != nil && isN(sl.High):
				tail = append(tail, sl)
			default:
				unknown = append(unknown, sl)
			}
		}
		okShape := len(whole) == 1 && len(head) == 1 && len(tail) == 1 && len(unknown) == 0
		detail := fmt.Sprintf("rest nodes are sorted[:n-1] (%d site) or sorted[:k] ++ sorted[k+1:n] (%d+%d sites); unrecognised slices: %d", len(whole), len(head), len(tail), len(unknown))
		if okShape {
			// head.High == k and tail.Low == k+1
			k := head[0].High
			lo, ok := tail[0].Low.(*ssa.BinOp)
			okShape = ok && lo.Op == token.ADD && lo.X == k
			if okShape {
				one, isK := eng.ConstInt(lo.Y)
				okShape = isK && one == 1
			}
			// the whole-prefix form is used only when k >= n-1 (so the first node itself is not among them)
			ge := eng.Cmp(func(v ssa.Value) bool { return v == k }, nMinus1, token.GEQ)
			hit, _ := eng.Search(eng.Entry(pk), eng.Is(whole[0]), eng.SearchOpt{Cut: eng.PassEdges(pk, ge)})
			okShape = okShape && hit == nil && len(eng.PassEdges(pk, ge)) > 0
			hit2, _ := eng.Search(eng.Entry(pk), eng.Is(head[0]), eng.SearchOpt{Cut: eng.FailEdges(pk, ge)})
			okShape = okShape && hit2 == nil
		}
		c.Ob("COUNT-rest", eng.FuncName(pk)+" rest-node-count", okShape, pk.Pos(), detail+"; exactly numberOfNodes-1 rest nodes are returned, never the first node itself")
		// no match -> error
		var succ []ssa.Instruction
		for _, r := range eng.Find(pk, eng.IsReturn) {
			if eng.ReturnMaySucceed(pk, r.(*ssa.Return)) {
				succ = append(succ, r)
			}
		}
		filterOK := func(cond ssa.Value) (bool, bool) {
			b, ok := cond.(*ssa.BinOp)
			if !ok || (b.Op != token.EQL && b.Op != token.NEQ) || !eng.IsNilConst(b.Y) {
				return false, false
			}
			call, ok := b.X.(*ssa.Call)
			if !ok || !eng.IsParamLike(call.Call.Value, "filterFirstNodeFn") {
				return false, false
			}
			return true, b.Op == token.EQL
		}
		// the loop records acceptance in a boolean flag; the flag may be set only past the filter
		accepted := eng.PassEdges(pk, filterOK)
		flagOK := true
		flag := func(cond ssa.Value) (bool, bool) {
			phi, ok := cond.(*ssa.Phi)
			if !ok || phi.Type().String() != "bool" {
				return false, false
			}
			for i, e := range phi.Edges {
				if b, isC := eng.ConstBool(e); isC && !b {
					continue
				}
				if e == phi {
					continue
				}
				pred := phi.Block().Preds[i]
				if hit, _ := eng.Search(eng.Entry(pk), eng.Is(pred.Instrs[len(pred.Instrs)-1]), eng.SearchOpt{Cut: accepted}); hit != nil {
					flagOK = false
				}
			}
			return true, true
		}
		cut := eng.MergeEdges(accepted, eng.PassEdges(pk, flag))
		c.Guard("COUNT-rest", "success-only-with-accepted-first-node", pk, eng.Entry(pk), succ, cut, "the pick succeeds only when some candidate passed the first-node filter")
		c.Ob("COUNT-rest", eng.FuncName(pk)+" accepted-flag", flagOK && len(accepted) > 0, pk.Pos(), "the found-flag becomes true only past the first-node filter")
	}
	// the free-slot formula used to pick servers and the one reported by the counters are the same computation
	if a, b := c.NeedFunc("weed/topology", "(*NodeImpl).AvailableSpaceFor"), c.NeedFunc("weed/topology", "(*DiskUsageCounts).FreeSpace"); a != nil && b != nil {
		shape := func(fn *ssa.Function) string {
			out := ""
			for _, r := range eng.Find(fn, eng.IsReturn) {
				if r.Block() == fn.Recover {
					continue
				}
				out += eng.ExprShape(r.(*ssa.Return).Results[0]) + ";"
			}
			return out
		}
		sa, sb := shape(a), shape(b)
		c.Ob("SIB-free-formula", "AvailableSpaceFor vs FreeSpace", sa == sb && strings.Contains(sa, "ecShardCount"), a.Pos(), fmt.Sprintf("the placement's free-slot formula {%s} equals the counters' {%s} (EC shards charged the same way)", sa, sb))
	}
	c.Expect("SIB-free-formula", 1)
	c.Expect("PROV-counts", 12)
	c.Expect("COUNT-rest", 4)
	c.Expect("ERR-reserve", 8)
}
