package props

import (
	"fmt"
	"go/token"
	"sort"
	"strings"

	"golang.org/x/tools/go/ssa"

	"verif/sa/eng"
)

func init() {
	register(&Prop{
		ID:  "C22",
		Run: runC22,
		Explanation: "Static decision of the structural conditions of ordered, exactly-once delivery from the metadata log buffer: (1) LOCK: the buffer state (buf, idx, pos, start/stop/last-flush time, lastTsNs, sealed buffers, stopping flag) is read under RLock/Lock and written under Lock of the embedded RWMutex, with caller-holds summaries checked at every caller; " +
			"(2) MONO-ts: an appended event keeps its own timestamp only on the edge where it is strictly greater than the previous one, otherwise it gets previous+1; the value recorded as last timestamp is the value stored in the log entry, and it is recorded before the entry is encoded; (3) SIB-exclusive-resume: the three resume points (sealed buffer scan, current buffer search, on-disk reader) all skip entries with timestamp <= the resume timestamp and deliver the first strictly greater one; " +
			"(4) ORDER-read: the reader advances its resume timestamp to each entry it delivers before delivering it and returns to the caller on a delivery error or a resume-from-disk signal. Delivery across buffer rotation and disk fallback as a whole (the history property) is not decided; race freedom is decided only for the listed fields under the lock discipline. Also decided: the buffer's stop time has a time.Time counterpart for every value the entry timestamp can take; whenever the current buffer is sealed its range is handed to the flusher or recorded as flushed; the memory recycled by SealBuffer is read from the evicted buffer before the retained buffers are shifted.",
		Assumptions: []string{"lock identity is per type", "closures that are not started with go/defer run with the lock state of their creation point"},
		Trusted:     baseTrusted,
	})
}

func runC22(c *eng.Ctx) {
	// ---------------------------------------------------------------- (1) LOCK
	c.CheckLocks("LOCK-logbuffer", &eng.LockSpec{
		Mutex: "LogBuffer.RWMutex",
		Fields: []string{"LogBuffer.buf", "LogBuffer.idx", "LogBuffer.pos", "LogBuffer.startTime", "LogBuffer.stopTime", "LogBuffer.lastFlushTime",
			"LogBuffer.lastTsNs", "LogBuffer.prevBuffers", "LogBuffer.isStopping"},
		Pkg: "weed/util/log_buffer",
		Exempt: map[string]string{
			"weed/util/log_buffer.NewLogBuffer": "constructor: the value is not shared yet",
		},
	})
	c.CheckLockPairs("PAIR-logbuffer", "weed/util/log_buffer", "LogBuffer.RWMutex", nil)
	c.Expect("PAIR-logbuffer", 4)
	c.Expect("LOCK-logbuffer", 4)

	// ---------------------------------------------------------------- (2) MONO-ts
	if fn := c.NeedFunc("weed/util/log_buffer", "(*LogBuffer).AddToBuffer"); fn != nil {
		sts := eng.Find(fn, eng.StoreToField("LogBuffer.lastTsNs"))
		if len(sts) != 1 {
			c.Undecided("MONO-ts", eng.FuncName(fn), fn.Pos(), "expected one store of the last timestamp")
		} else {
			st := sts[0].(*ssa.Store)
			isLast := func(v ssa.Value) bool { return eng.IsField(v, "LogBuffer.lastTsNs") }
			// the bump: lastTsNs + 1
			bump := eng.Find(fn, func(in ssa.Instruction) bool {
				b, ok := in.(*ssa.BinOp)
				if !ok || b.Op != token.ADD || !isLast(b.X) {
					return false
				}
				k, isK := eng.ConstInt(b.Y)
				return isK && k == 1
			})
			strictlyLater := eng.Cmp(isLast, func(v ssa.Value) bool {
				return eng.Mentions(v, 4, func(x ssa.Value) bool { return eng.IsParamLike(x, "eventTsNs") }) || isEventTs(v)
			}, token.LSS)
			cut := eng.PassEdges(fn, strictlyLater)
			ok := len(cut) > 0 && len(bump) == 1
			var hit ssa.Instruction
			var path []int
			if ok {
				hit, path = eng.Search(eng.Entry(fn), eng.Is(st), eng.SearchOpt{Cut: cut, Barrier: eng.Is(bump[0])})
				ok = hit == nil
			}
			c.Ob("MONO-ts", eng.FuncName(fn)+" strictly-increasing", ok, st.Pos(), "an event keeps its own timestamp only when it is strictly greater than the previous one; otherwise (equal or earlier) it is replaced by previous+1"+pathNote(c.P, fn, hit, path))
			// the stored value is one of {event timestamp, previous+1}
			okVal := true
			for _, v := range eng.Resolve(st.Val) {
				if v == nil || v == eng.Zero {
					continue
				}
				if len(bump) == 1 && v == ssa.Value(bump[0].(*ssa.BinOp)) {
					continue
				}
				if eng.IsParamLike(v, "eventTsNs") || eng.MentionsCall(v, "time.Time).UnixNano") {
					continue
				}
				okVal = false
			}
			c.Ob("MONO-ts", eng.FuncName(fn)+" recorded-value", okVal, st.Pos(), "the value recorded as the last timestamp is the event's timestamp or previous+1")
			// the log entry carries the same value, and is built after the store
			ents := eng.Find(fn, eng.StoreToField("LogEntry.TsNs"))
			okEnt := len(ents) == 1
			if okEnt {
				okEnt = eng.SameExpr(ents[0].(*ssa.Store).Val, st.Val) || ents[0].(*ssa.Store).Val == st.Val
				if !okEnt {
					okEnt = sameDefs(ents[0].(*ssa.Store).Val, st.Val)
				}
			}
			c.Ob("MONO-ts", eng.FuncName(fn)+" entry-carries-recorded-ts", okEnt, st.Pos(), "the timestamp written into the log entry is the value recorded as last timestamp")
			enc := eng.Find(fn, eng.PlainCallTo("proto.Marshal"))
			c.Before("MONO-ts", "recorded-before-encode", fn, eng.Is(st), enc, "the last timestamp is recorded before the entry is encoded and appended")
			// all under the lock: the first instruction after Lock ... covered by LOCK; additionally the timestamp default is taken inside the lock
			now := eng.Find(fn, eng.PlainCallTo("time.Now"))
			c.Before("MONO-ts", "clock-read-under-lock", fn, eng.CallTo("sync.RWMutex).Lock"), now, "the default timestamp is taken after the buffer lock is held (two appenders cannot take timestamps in one order and append in the other)")
		}
	}
	// the time recorded as the buffer's stop time is the time of the entry just appended: every value the entry's
	// timestamp can take (own, clock, previous+1) has its time.Time counterpart in the values of the stop time
	if fn := c.NeedFunc("weed/util/log_buffer", "(*LogBuffer).AddToBuffer"); fn != nil {
		ents := eng.Find(fn, eng.StoreToField("LogEntry.TsNs"))
		stops := eng.Find(fn, eng.StoreToField("LogBuffer.stopTime"))
		if len(ents) != 1 || len(stops) != 1 {
			c.Undecided("MONO-ts", eng.FuncName(fn)+" stop-time", fn.Pos(), "entry timestamp / stop time stores not found")
		} else {
			tsVals := eng.Resolve(ents[0].(*ssa.Store).Val)
			tVals := eng.Resolve(stops[0].(*ssa.Store).Val)
			okPair := len(tsVals) > 0
			missing := ""
			for _, tv := range tsVals {
				found := false
				for _, t := range tVals {
					call, isCall := t.(*ssa.Call)
					if !isCall {
						continue
					}
					// ts = time.Unix(0, tv)
					if eng.CalleeIs(call, "time.Unix") && (call.Call.Args[1] == tv || eng.SameExpr(call.Call.Args[1], tv)) {
						found = true
					}
					// tv = ts.UnixNano() with ts = time.Now()
					if eng.CalleeIs(call, "time.Now") {
						if u, isU := tv.(*ssa.Call); isU && eng.CalleeIs(u, "time.Time).UnixNano") && eng.Mentions(u.Call.Args[0], 4, func(x ssa.Value) bool { return x == ssa.Value(call) }) {
							found = true
						}
					}
				}
				if !found {
					okPair = false
					missing = tv.String()
				}
			}
			c.Ob("MONO-ts", eng.FuncName(fn)+" stop-time-is-entry-time", okPair, stops[0].Pos(), "the buffer's stop time is the time of the appended entry for every value its timestamp can take (own, clock, previous+1)"+ifs(missing != "", "; no counterpart for "+missing))
		}
	}
	c.Expect("MONO-ts", 6)

	// ALIAS-sealed: the memory handed back for the new current buffer is the evicted buffer's, read before the
	// retained buffers are shifted over it (read afterwards it is the array of the oldest retained buffer, which a
	// lagging reader may still be served from)
	if fn := c.NeedFunc("weed/util/log_buffer", "(*SealedBuffers).SealBuffer"); fn != nil {
		okAlias := true
		why := ""
		sts := eng.Find(fn, eng.StoreToField("MemBuffer.buf"))
		for _, r := range eng.Find(fn, eng.IsReturn) {
			ld, isLoad := r.(*ssa.Return).Results[0].(*ssa.UnOp)
			if !isLoad || !eng.IsField(ld, "MemBuffer.buf") {
				okAlias, why = false, "the returned buffer is not a retained buffer's memory"
				continue
			}
			for _, st := range sts {
				if !eng.Dominates(ld, st) {
					okAlias, why = false, "the returned buffer is read after a retained buffer's memory was reassigned"
				}
			}
		}
		c.Ob("ALIAS-sealed", eng.FuncName(fn)+" evicted-memory-read-before-shift", okAlias && len(sts) >= 2, fn.Pos(), "the recycled memory is read from the evicted buffer before the retained buffers are shifted"+ifs(why != "", ": "+why))
		// the sealed buffer stores what it was given
		okSeal := false
		for _, st := range sts {
			if eng.IsParamLike(st.(*ssa.Store).Val, "buf") {
				okSeal = true
			}
		}
		c.Ob("ALIAS-sealed", eng.FuncName(fn)+" seals-given-buffer", okSeal, fn.Pos(), "the newest retained buffer is the buffer being sealed")
	}
	// the memory of the current and of the sealed buffers is recycled (SealBuffer hands the oldest sealed memory back as the
	// next write buffer) while subscribers parse a batch outside the lock: whatever ReadFromBuffer returns is a private copy
	if fn := c.NeedFunc("weed/util/log_buffer", "(*LogBuffer).ReadFromBuffer"); fn != nil {
		for i, r := range eng.Find(fn, eng.IsReturn) {
			ret := r.(*ssa.Return)
			if len(ret.Results) == 0 {
				continue
			}
			ok, bad := true, ""
			for _, v := range eng.ResolveFrom(ret.Results[0], ret) {
				if v == eng.Zero || eng.IsNilConst(v) {
					continue
				}
				if call, isCall := eng.Unwrap(v).(*ssa.Call); isCall && eng.CalleeIs(call, "log_buffer.copiedBytes") {
					continue
				}
				ok, bad = false, v.String()
			}
			c.Ob("ALIAS-sealed", fmt.Sprintf("%s returns-private-copy#%d", eng.FuncName(fn), i), ok, r.Pos(), "a batch handed to a subscriber is nil or a copy made by copiedBytes, never a view of buffer memory that will be recycled"+ifs(bad != "", ": "+bad))
		}
	}
	if fn := c.NeedFunc("weed/util/log_buffer", "copiedBytes"); fn != nil {
		wr := eng.Find(fn, eng.PlainCallTo("bytes.Buffer).Write"))
		okCopy := len(wr) == 1 && eng.IsParam(eng.Unwrap(eng.Arg(wr[0].(ssa.CallInstruction), 0)), "buf") && len(eng.Find(fn, eng.PlainCallTo("bytes.NewBuffer"))) == 0
		c.Ob("ALIAS-sealed", eng.FuncName(fn)+" copies", okCopy, fn.Pos(), "copiedBytes writes the bytes into a buffer of its own (bytes.Buffer.Write copies) instead of wrapping the given memory")
	}
	c.Expect("ALIAS-sealed", 6)
	// a subscriber resumes from the timestamp of the last event it received; the log entry is positioned by the
	// timestamp handed to AddToBuffer: both are the event's TsNs
	if fn := c.NeedFunc("weed/filer", "(*Filer).logMetaEvent"); fn != nil {
		adds := eng.Find(fn, eng.PlainCallTo("log_buffer.LogBuffer).AddToBuffer"))
		if len(adds) == 0 {
			c.Undecided("SIB-exclusive-resume", eng.FuncName(fn), fn.Pos(), "AddToBuffer call not found")
		}
		for i, in := range adds {
			c.Ob("SIB-exclusive-resume", fmt.Sprintf("%s log-time-is-event-time#%d", eng.FuncName(fn), i), eng.IsField(eng.Unwrap(eng.Arg(in.(ssa.CallInstruction), 2)), "SubscribeMetadataResponse.TsNs"), in.Pos(),
				"the log entry is stored under the timestamp that the event itself carries to subscribers")
		}
	}

	// a buffer that is only kept in memory (no flush function) records what it dropped from the current buffer as
	// flushed: that is what lets a reader behind the retained buffers learn that it must resume elsewhere
	if fn := c.NeedFunc("weed/util/log_buffer", "(*LogBuffer).copyToFlush"); fn != nil {
		seal := eng.Find(fn, eng.PlainCallTo("log_buffer.SealedBuffers).SealBuffer"))
		handed := func(in ssa.Instruction) bool {
			al, ok := in.(*ssa.Alloc)
			return ok && strings.HasSuffix(eng.TypeName(eng.Deref(al.Type())), "dataToFlush")
		}
		if len(seal) != 1 {
			c.Undecided("ORDER-read", eng.FuncName(fn), fn.Pos(), "SealBuffer call not found")
		} else {
			hit, path := eng.Search(eng.Entry(fn), eng.Is(seal[0]), eng.SearchOpt{Barrier: eng.Or(handed, eng.StoreToField("LogBuffer.lastFlushTime"))})
			c.Ob("ORDER-read", eng.FuncName(fn)+" sealed-range-recorded", hit == nil, seal[0].Pos(), "whenever the current buffer is sealed its range is either handed to the flusher or recorded as the last flushed time"+pathNote(c.P, fn, hit, path))
		}
	}

	// ---------------------------------------------------------------- (3) SIB-exclusive-resume
	if fn := c.NeedFunc("weed/util/log_buffer", "(*MemBuffer).locateByTs"); fn != nil {
		// the position is returned from inside the loop only on the edge t > lastReadTs
		var found []ssa.Instruction
		for _, r := range eng.Find(fn, eng.IsReturn) {
			// every return except the not-found exit (which hands back len(buf))
			if call, isCall := eng.Unwrap(r.(*ssa.Return).Results[0]).(*ssa.Call); isCall && eng.CalleeIs(call, "builtin.len") {
				continue
			}
			found = append(found, r)
		}
		later := eng.Cmp(func(v ssa.Value) bool { return eng.MentionsCall(v, "log_buffer.readTs") }, func(v ssa.Value) bool { return eng.MentionsCall(v, "time.Time).UnixNano") }, token.GTR)
		if len(found) == 0 {
			c.Undecided("SIB-exclusive-resume", eng.FuncName(fn), fn.Pos(), "found-position return not recognised")
		} else {
			c.Guard("SIB-exclusive-resume", "sealed-buffer", fn, eng.Entry(fn), found, eng.PassEdges(fn, later), "the scan of a sealed buffer stops at the first entry whose timestamp is strictly greater than the resume timestamp")
		}
	}
	if fn := c.NeedFunc("weed/util/log_buffer", "(*LogBuffer).ReadFromBuffer"); fn != nil {
		// in the binary search, data is returned only when t > lastTs and prevT <= lastTs
		isLastTs := func(v ssa.Value) bool { return eng.MentionsCall(v, "time.Time).UnixNano") }
		isT := func(v ssa.Value) bool { return eng.MentionsCall(v, "log_buffer.readTs") }
		// the copies of the current buffer that start at a position located through the index
		var located []ssa.Instruction
		for _, in := range eng.Find(fn, eng.PlainCallTo("log_buffer.copiedBytes")) {
			sl, ok := in.(*ssa.Call).Call.Args[0].(*ssa.Slice)
			if ok && sl.Low != nil && eng.MentionsField(sl.Low, "LogBuffer.idx") && eng.MentionsField(sl.X, "LogBuffer.buf") {
				located = append(located, in)
			}
		}
		if len(located) == 0 {
			c.Undecided("SIB-exclusive-resume", eng.FuncName(fn), fn.Pos(), "located-position return of the current buffer not recognised")
		} else {
			notAfter := eng.Cmp(isT, isLastTs, token.LEQ) // t <= lastTs: skip
			c.Guard("SIB-exclusive-resume", "current-buffer", fn, eng.Entry(fn), located, eng.FailEdges(fn, notAfter), "the current buffer is served from the first entry whose timestamp is strictly greater than the resume timestamp")
		}
		// resume from disk when flushed data is newer than the resume point
		disk := eng.PassEdges(fn, eng.BoolCall(true, "time.Time).After"))
		_ = disk
	}
	if fn := c.NeedFunc("weed/filer", "ReadEachLogEntry"); fn != nil {
		var cb []ssa.Instruction
		for _, in := range eng.Find(fn, func(in ssa.Instruction) bool { _, ok := in.(*ssa.Call); return ok }) {
			if eng.IsParamLike(in.(*ssa.Call).Call.Value, "eachLogEntryFn") {
				cb = append(cb, in)
			}
		}
		old := eng.Cmp(func(v ssa.Value) bool { return eng.IsField(v, "LogEntry.TsNs") }, func(v ssa.Value) bool { return eng.IsParamLike(v, "ns") }, token.LEQ)
		if len(cb) != 1 {
			c.Undecided("SIB-exclusive-resume", eng.FuncName(fn), fn.Pos(), "delivery callback not found")
		} else {
			c.Guard("SIB-exclusive-resume", "on-disk", fn, eng.Entry(fn), cb, eng.FailEdges(fn, old), "the on-disk reader delivers only entries whose timestamp is strictly greater than the resume timestamp")
		}
	}
	c.Expect("SIB-exclusive-resume", 3)

	// ---------------------------------------------------------------- (4) ORDER-read
	if fn := c.NeedFunc("weed/util/log_buffer", "(*LogBuffer).LoopProcessLogData"); fn != nil {
		var cb []ssa.Instruction
		for _, in := range eng.Find(fn, func(in ssa.Instruction) bool { _, ok := in.(*ssa.Call); return ok }) {
			if eng.IsParamLike(in.(*ssa.Call).Call.Value, "eachLogDataFn") {
				cb = append(cb, in)
			}
		}
		rd := eng.Find(fn, eng.PlainCallTo("log_buffer.LogBuffer).ReadFromBuffer"))
		if len(cb) != 1 || len(rd) != 1 {
			c.Undecided("ORDER-read", eng.FuncName(fn), fn.Pos(), "delivery callback / ReadFromBuffer not found")
		} else {
			c.ErrChecked("ORDER-read", "delivery-error", fn, cb, "a delivery error ends the loop and is returned (the resume timestamp tells the caller where to continue)")
			// the resume argument of the next read is the loop-carried last-read time, which is set from each delivered entry's TsNs
			arg := eng.Arg(rd[0].(*ssa.Call), 0)
			okCursor := eng.LoopVariant(arg, rd[0].Block())
			c.Ob("ORDER-read", eng.FuncName(fn)+" cursor-advances", okCursor, rd[0].Pos(), "the resume timestamp handed to the next buffer read changes with the entries delivered")
			fromEntry := false
			for _, b := range fn.Blocks {
				for _, in := range b.Instrs {
					if call, ok := in.(*ssa.Call); ok && eng.CalleeIs(call, "time.Unix") && len(call.Call.Args) == 2 && eng.MentionsField(call.Call.Args[1], "LogEntry.TsNs") && eng.Dominates(call, cb[0]) {
						fromEntry = true
					}
				}
			}
			c.Ob("ORDER-read", eng.FuncName(fn)+" cursor-from-entry", fromEntry, cb[0].Pos(), "before an entry is delivered the resume timestamp is set to that entry's timestamp")
			// resume-from-disk is propagated
			resume := eng.Cmp(func(v ssa.Value) bool { return eng.SameVar(v, eng.ErrOf(rd[0])) }, func(v ssa.Value) bool {
				u, ok := v.(*ssa.UnOp)
				if !ok {
					return false
				}
				g, ok := u.X.(*ssa.Global)
				return ok && g.Name() == "ResumeFromDiskError"
			}, token.EQL)
			starts := startsOf(eng.PassEdges(fn, resume))
			if len(starts) == 0 {
				c.Ob("ORDER-read", eng.FuncName(fn)+" resume-from-disk", false, rd[0].Pos(), "the resume-from-disk signal of the buffer is tested")
			} else {
				returnsNonNilErr(c, "ORDER-read", "resume-from-disk", fn, starts, "when the requested data was already flushed the reader reports resume-from-disk instead of skipping it")
			}
		}
	}
	if fn := c.NeedFunc("weed/util/log_buffer", "(*LogBuffer).ReadFromBuffer"); fn != nil {
		flushedLater := eng.PassEdges(fn, func(cond ssa.Value) (bool, bool) {
			call, ok := cond.(*ssa.Call)
			if !ok || !eng.CalleeIs(call, "time.Time).After") {
				return false, false
			}
			return eng.MentionsField(call.Call.Args[0], "LogBuffer.lastFlushTime") && eng.IsParamLike(call.Call.Args[1], "lastReadTime"), true
		})
		starts := startsOf(flushedLater)
		if len(starts) == 0 {
			c.Ob("ORDER-read", eng.FuncName(fn)+" flushed-newer-than-resume", false, fn.Pos(), "lastFlushTime.After(lastReadTime) is tested")
		} else {
			returnsNonNilErr(c, "ORDER-read", "flushed-newer-than-resume", fn, starts, "data newer than the resume point that was already flushed makes the read report resume-from-disk")
		}
	}
	c.Expect("ORDER-read", 6)
	_ = fmt.Sprint

	// ---------------------------------------------------------------- APPEND-entry
	// an accepted event is stored: its encoded bytes go behind a 4-byte size prefix at the current position, the
	// position is remembered in the index and advanced by size + 4
	if fn := c.NeedFunc("weed/util/log_buffer", "(*LogBuffer).AddToBuffer"); fn != nil {
		enc := eng.Find(fn, eng.PlainCallTo("proto.Marshal"))
		if len(enc) != 1 {
			c.Undecided("APPEND-entry", eng.FuncName(fn), fn.Pos(), "entry encoding not found")
		} else {
			data := eng.ResultOf(enc[0], 0)
			intoBuf := func(call *ssa.Call) bool {
				return eng.Mentions(call.Call.Args[0], 4, func(v ssa.Value) bool { return eng.IsField(v, "LogBuffer.buf") })
			}
			var prefixCopy, dataCopy bool
			for _, in := range eng.Find(fn, eng.PlainCallTo("builtin.copy")) {
				call := in.(*ssa.Call)
				if !intoBuf(call) || !eng.Dominates(enc[0], in) {
					continue
				}
				if eng.Mentions(call.Call.Args[1], 4, func(v ssa.Value) bool { return v == data }) {
					dataCopy = true
				}
				if eng.MentionsField(call.Call.Args[1], "LogBuffer.sizeBuf") {
					prefixCopy = true
				}
			}
			c.Ob("APPEND-entry", eng.FuncName(fn)+" bytes-stored", dataCopy && prefixCopy, enc[0].Pos(), "the encoded entry and its size prefix are copied into the buffer")
			okIdx := false
			for _, st := range eng.Find(fn, eng.StoreToField("LogBuffer.idx")) {
				if call, ok := eng.Unwrap(st.(*ssa.Store).Val).(*ssa.Call); ok && eng.CalleeIs(call, "builtin.append") {
					for _, el := range eng.VarargValues(call.Call.Args[1]) {
						if eng.IsField(el, "LogBuffer.pos") {
							okIdx = true
						}
					}
				}
			}
			c.Ob("APPEND-entry", eng.FuncName(fn)+" position-indexed", okIdx, enc[0].Pos(), "the entry's position is appended to the index the reader searches")
			okPos := false
			for _, st := range eng.Find(fn, eng.StoreToField("LogBuffer.pos")) {
				terms := eng.LinearTerms(st.(*ssa.Store).Val)
				if len(terms) == 3 && strings.Join(terms, " ") == strings.Join(sortedCopy([]string{"+.pos", "+4", "+len(" + eng.ExprShape(data) + ")"}), " ") {
					okPos = true
				}
			}
			c.Ob("APPEND-entry", eng.FuncName(fn)+" position-advanced", okPos, enc[0].Pos(), "the position advances by the entry's size plus the 4-byte prefix")
		}
	}
	c.Expect("APPEND-entry", 3)
}

// isEventTs: the loop/phi value of the event timestamp variable (parameter possibly replaced by the clock value).
func isEventTs(v ssa.Value) bool {
	phi, ok := v.(*ssa.Phi)
	return ok && phi.Comment == "eventTsNs"
}

func sortedCopy(a []string) []string {
	b := append([]string{}, a...)
	sort.Strings(b)
	return b
}
