package props

import (
	"fmt"
	"go/ast"
	"go/constant"
	"go/token"
	"go/types"
	"sort"
	"strings"

	"golang.org/x/tools/go/ssa"

	"verif/sa/eng"
)

func init() {
	register(&Prop{
		ID:      "C05",
		Configs: []string{"", tag5},
		Run:     runC05,
		Explanation: "Static decision, in both offset-width builds, of the structural conditions under which the needle-map implementations and the reload agree: (1) LOCKSTEP: every read/write of the offset part (or of a whole element) of CompactSection.values/overflow has a twin access of valuesExtra/overflowExtra at the structurally same index in the same function, and appends are paired; " +
			"(2) ORDER-delete-return: no function of the compact map returns a size that was read after the negation that marks the entry deleted; (3) ABS-counters: the set of counters updated by NeedleMap.Put/Delete (through logPut/logDelete) equals the set updated by the .idx replay in doLoading on every abstract point {new: live, empty, tombstone} x {old: absent, live, deleted}; " +
			"(4) SIB-needlemapper: the Put/Delete implementations log the metric, append to the index file first (tombstone size constant for deletes) and propagate its error; the LevelDB value slices use the offset/size constants. The search/overflow algorithm of CompactSection itself is not decided. Also decided (GUARD-far-key): CompactMap hands a key to a section only on the edge where the untruncated 64-bit distance from the section start fits 32 bits (Set opens a new section otherwise, Get and Delete answer not found).",
		Assumptions: []string{"CompactMap.Set returns the previous (possibly negated) size, CompactMap.Delete returns the removed size or 0 — the abstract semantics the counter tables are evaluated under", "an index expression read twice inside one statement denotes the same element"},
		Trusted:     baseTrusted,
	})
}

type elemAccess struct {
	arr   string // values | valuesExtra | overflow | overflowExtra
	idx   ssa.Value
	write bool
	part  string // whole | field name
	in    ssa.Instruction
}

var c05Arrays = map[string]string{
	"CompactSection.values": "values", "CompactSection.valuesExtra": "valuesExtra",
	"CompactSection.overflow": "overflow", "CompactSection.overflowExtra": "overflowExtra",
}

// elemAccesses lists the accesses to elements of the four parallel arrays in fn.
func elemAccesses(fn *ssa.Function) []elemAccess {
	var out []elemAccess
	for _, b := range fn.Blocks {
		for _, in := range b.Instrs {
			ia, ok := in.(*ssa.IndexAddr)
			if !ok {
				continue
			}
			arr := c05Arrays[eng.FieldSpec(ia.X)]
			if arr == "" {
				continue
			}
			var classify func(addr ssa.Value, part string)
			classify = func(addr ssa.Value, part string) {
				for _, r := range *addr.Referrers() {
					switch x := r.(type) {
					case *ssa.Store:
						if x.Addr == addr {
							out = append(out, elemAccess{arr, ia.Index, true, part, x})
						}
					case *ssa.UnOp:
						if x.Op == token.MUL {
							out = append(out, elemAccess{arr, ia.Index, false, part, x})
						}
					case *ssa.FieldAddr:
						if part == "whole" {
							_, f, _, _ := fieldOfAddr(x)
							classify(x, f)
						}
					}
				}
			}
			classify(ia, "whole")
		}
	}
	return out
}

func fieldOfAddr(fa *ssa.FieldAddr) (string, string, ssa.Value, bool) {
	spec := eng.FieldSpec(fa)
	i := strings.LastIndex(spec, ".")
	if i < 0 {
		return "", "", nil, false
	}
	return spec[:i], spec[i+1:], fa.X, true
}

// ---- counters

type cntPoint struct {
	newC int    // +1 live, 0 empty, -1 tombstone
	old  string // absent | live | deleted
}

func (p cntPoint) String() string {
	return fmt.Sprintf("new=%s,old=%s", map[int]string{1: "live", 0: "empty", -1: "tombstone"}[p.newC], p.old)
}

func signOf(class string, p cntPoint) (int, bool) {
	switch class {
	case "new":
		return p.newC, true
	case "oldSet":
		return map[string]int{"absent": 0, "live": 1, "deleted": -1}[p.old], true
	case "oldDel":
		return map[string]int{"absent": 0, "live": 1, "deleted": 0}[p.old], true
	}
	return 0, false
}

// counterEffects computes which mapMetric counters may be updated by fn under the abstract point.
func counterEffects(fn *ssa.Function, cls func(ssa.Value) string, p cntPoint, depth int) (map[string]bool, error) {
	out := map[string]bool{}
	var firstErr error
	classOf := func(v ssa.Value) string {
		for _, x := range append([]ssa.Value{v, eng.Unwrap(v)}, eng.Resolve(eng.Unwrap(v))...) {
			if x == nil {
				continue
			}
			if c := cls(x); c != "" {
				return c
			}
		}
		return ""
	}
	oracle := func(v ssa.Value) (bool, bool) {
		switch x := v.(type) {
		case *ssa.Call:
			switch {
			case eng.CalleeIs(x, "types.Offset).IsZero"):
				switch classOf(x.Call.Args[0]) {
				case "newoff":
					return false, true
				case "oldoff":
					return p.old == "absent", true
				}
			case eng.CalleeIs(x, "types.Size).IsValid"), eng.CalleeIs(x, "types.Size).IsDeleted"):
				if s, ok := signOf(classOf(x.Call.Args[0]), p); ok {
					if eng.CalleeIs(x, "types.Size).IsValid") {
						return s > 0, true
					}
					return s < 0, true
				}
			}
		case *ssa.BinOp:
			if eng.IsNilConst(x.Y) && (x.Op == token.EQL || x.Op == token.NEQ) {
				if _, isParam := x.X.(*ssa.Parameter); isParam && eng.TypeName(x.X.Type()) == "mapMetric" {
					return x.Op == token.NEQ, true
				}
			}
			if k, ok := eng.ConstInt(x.Y); ok && sizeTypeVal(x.X) {
				if s, ok := signOf(classOf(x.X), p); ok {
					val := int64(s) * 7
					if s < 0 {
						val = -1
					}
					switch x.Op {
					case token.EQL:
						return val == k, true
					case token.NEQ:
						return val != k, true
					case token.LSS:
						return val < k, true
					case token.LEQ:
						return val <= k, true
					case token.GTR:
						return val > k, true
					case token.GEQ:
						return val >= k, true
					}
				}
			}
		}
		return false, false
	}
	cut := eng.CutUnder(fn, oracle)
	for _, in := range eng.ReachableInstrs(eng.Entry(fn), cut) {
		switch x := in.(type) {
		case *ssa.Store:
			if f := eng.FieldSpec(x.Addr); strings.HasPrefix(f, "mapMetric.") {
				out[strings.TrimPrefix(f, "mapMetric.")] = true
			}
		case *ssa.Call:
			if eng.CalleeIs(x, "sync/atomic.AddUint32", "sync/atomic.AddUint64", "sync/atomic.StoreUint64") {
				if f := eng.FieldSpec(x.Call.Args[0]); strings.HasPrefix(f, "mapMetric.") {
					out[strings.TrimPrefix(f, "mapMetric.")] = true
				}
				continue
			}
			callee := eng.StaticFn(x)
			if callee == nil || callee.Signature.Recv() == nil || eng.TypeName(callee.Signature.Recv().Type()) != "mapMetric" || callee.Blocks == nil {
				continue
			}
			if depth == 0 {
				firstErr = fmt.Errorf("inlining bound reached at %s", eng.FuncName(callee))
				continue
			}
			// map callee parameters to the classes of the actual arguments
			pc := map[string]string{}
			for i, par := range callee.Params {
				if i < len(x.Call.Args) {
					if c := classOf(x.Call.Args[i]); c != "" {
						pc[par.Name()] = c
					}
				}
			}
			sub, err := counterEffects(callee, func(v ssa.Value) string { return pc[eng.ParamName(v)] }, p, depth-1)
			if err != nil {
				firstErr = err
			}
			for k := range sub {
				out[k] = true
			}
		}
	}
	return out, firstErr
}

func setString(m map[string]bool, drop ...string) string {
	var ks []string
	for k := range m {
		skip := false
		for _, d := range drop {
			if d == k {
				skip = true
			}
		}
		if !skip {
			ks = append(ks, k)
		}
	}
	sort.Strings(ks)
	return "{" + strings.Join(ks, ",") + "}"
}

func runC05(c *eng.Ctx) {

	// ---------------------------------------------------------------- (0) GUARD-far-key
	// a section stores keys as 32-bit distances from its start: the map hands a key to a section only on the
	// edge where the untruncated 64-bit distance is within the limit (Set opens a new section otherwise, Get and
	// Delete report not found); a comparison made after truncating to 32 bits can never fail
	for _, name := range []string{"(*CompactMap).Set", "(*CompactMap).Get", "(*CompactMap).Delete"} {
		fn := c.NeedFunc("weed/storage/needle_map", name)
		if fn == nil {
			continue
		}
		short := name[strings.LastIndex(name, ".")+1:]
		calls := eng.Find(fn, eng.PlainCallTo("needle_map.CompactSection)."+short))
		within := func(cond ssa.Value) (bool, bool) {
			b, ok := cond.(*ssa.BinOp)
			if !ok || (b.Op != token.GTR && b.Op != token.LEQ) {
				return false, false
			}
			k, isK := b.Y.(*ssa.Const)
			if !isK || k.Value == nil || k.Value.ExactString() != "4294967295" {
				return false, false
			}
			d, isSub := b.X.(*ssa.BinOp)
			if !isSub || d.Op != token.SUB || !eng.IsParamLike(d.X, "key") || !eng.IsField(d.Y, "CompactSection.start") {
				return false, false
			}
			if bt, isBasic := d.Type().Underlying().(*types.Basic); !isBasic || bt.Kind() != types.Uint64 {
				return false, false
			}
			return true, b.Op == token.LEQ
		}
		if len(calls) != 1 {
			c.Undecided("GUARD-far-key", eng.FuncName(fn), fn.Pos(), "section call not found")
			continue
		}
		if short == "Set" {
			// the existing section chosen by the search is used only within the limit; the freshly created section
			// starts at the key itself: cut the within-limit edges and require that every remaining path to the
			// section call passes the creation of a new section
			hit, _ := eng.Search(eng.Entry(fn), eng.Is(calls[0]), eng.SearchOpt{Cut: eng.PassEdges(fn, within), Barrier: eng.PlainCallTo("needle_map.NewCompactSection")})
			c.Ob("GUARD-far-key", eng.FuncName(fn)+" within-32-bit-distance", hit == nil && len(eng.PassEdges(fn, within)) > 0, calls[0].Pos(), "a key is stored in an existing section only when its 64-bit distance from the section start fits 32 bits; otherwise a new section is opened")
		} else {
			c.Guard("GUARD-far-key", "within-32-bit-distance", fn, eng.Entry(fn), calls, eng.PassEdges(fn, within), "a key is looked up / deleted in a section only when its 64-bit distance from the section start fits 32 bits")
		}
	}
	c.Expect("GUARD-far-key", 3)
	P := c.P
	// ---------------------------------------------------------------- (1) LOCKSTEP
	lockstepExtra(c, "LOCKSTEP-extra")
	c.Expect("LOCKSTEP-extra", 30)

	// ---------------------------------------------------------------- (2) ORDER-delete-return
	negStore := func(in ssa.Instruction) bool {
		s, ok := in.(*ssa.Store)
		if !ok || !strings.HasSuffix(eng.FieldSpec(s.Addr), "NeedleValue.Size") {
			return false
		}
		u, ok := s.Val.(*ssa.UnOp)
		return ok && u.Op == token.SUB
	}
	negators := map[*ssa.Function]bool{}
	for _, fn := range P.SrcFuncs("weed/storage/needle_map") {
		if len(eng.Find(fn, negStore)) > 0 {
			negators[fn] = true
		}
	}
	nNeg := 0
	for _, fn := range P.SrcFuncs("weed/storage/needle_map") {
		if recvTypeName(fn) != "CompactSection" {
			continue
		}
		// negation points in fn: negating stores and calls of negators
		negPts := eng.Find(fn, func(in ssa.Instruction) bool {
			if negStore(in) {
				return true
			}
			if call, ok := in.(*ssa.Call); ok {
				if f := eng.StaticFn(call); f != nil && negators[f] {
					return true
				}
			}
			return false
		})
		if len(negPts) == 0 {
			continue
		}
		for ri, r := range eng.Find(fn, eng.IsReturn) {
			ret := r.(*ssa.Return)
			for _, op := range ret.Results {
				if !sizeTypeVal(op) {
					continue
				}
				nNeg++
				bad := ""
				for _, v := range eng.ResolveFrom(op, nil) {
					if v == nil || v == eng.Zero {
						continue
					}
					eng.Walk(v, 6, func(x ssa.Value) bool {
						in, isIn := x.(ssa.Instruction)
						if !isIn {
							return true
						}
						src := false
						if u, ok := x.(*ssa.UnOp); ok && u.Op == token.MUL && strings.HasSuffix(eng.FieldSpec(u.X), "NeedleValue.Size") {
							src = true
						}
						if call, ok := x.(*ssa.Call); ok && eng.StaticFn(call) != nil && eng.StaticFn(call).Pkg == fn.Pkg {
							src = true
						}
						if src {
							for _, n := range negPts {
								if !sharesArray(arraysOf(n), arraysOf(in)) {
									continue
								}
								if n == in {
									bad = fmt.Sprintf("the returned size is the result of the negating call at %s", P.Pos(eng.InstrPos(n)))
								} else if eng.CanReach(n, in) {
									bad = fmt.Sprintf("the returned size is read at %s after the negation at %s", P.Pos(eng.InstrPos(in)), P.Pos(eng.InstrPos(n)))
								}
							}
						}
						return true
					})
				}
				c.Ob("ORDER-delete-return", fmt.Sprintf("%s return#%d", eng.FuncName(fn), ri), bad == "", ret.Pos(),
					"the removed size handed back is read before the entry is marked deleted (otherwise the caller sees -size)"+ifs(bad != "", ": "+bad))
			}
		}
	}
	if nNeg == 0 {
		c.Undecided("ORDER-delete-return", "discovery", token.NoPos, "no size-returning function that marks entries deleted found in needle_map")
	}

	// ---------------------------------------------------------------- (2b') one tombstone per deletion
	// the replay counts every tombstone of the index file as a deletion; the running volume therefore appends one only
	// for a key that is live (valid size), never for a key that is already deleted
	if fn := c.NeedFunc("weed/storage", "(*Volume).doDeleteRequest"); fn != nil {
		del := eng.Find(fn, eng.PlainCallTo("storage.NeedleMapper).Delete"))
		live := eng.BoolCall(true, "types.Size).IsValid")
		if len(del) == 0 {
			c.Undecided("ABS-counters", eng.FuncName(fn)+" tombstone-only-for-live-keys", fn.Pos(), "needle map delete not found")
		}
		c.Guard("ABS-counters", "tombstone-only-for-live-keys", fn, eng.Entry(fn), del, eng.PassEdges(fn, live), "a tombstone is appended only for a key whose recorded size is valid (live); deleting a deleted key appends nothing")
	}

	// ---------------------------------------------------------------- (2b'') "no position" looks at every offset byte
	// the replay treats an entry whose offset IsZero as a deletion; in the 5-byte build a record stored at an exact
	// multiple of 32GB has four zero low bytes and a non-zero fifth byte
	if fn := c.NeedFunc("weed/storage/types", "(Offset).IsZero"); fn != nil {
		want := map[string]bool{}
		if pk := P.Pkg("weed/storage/types"); pk != nil {
			for _, tn := range []string{"OffsetLower", "OffsetHigher"} {
				if o := pk.Types.Scope().Lookup(tn); o != nil {
					if st, ok := o.Type().Underlying().(*types.Struct); ok {
						for i := 0; i < st.NumFields(); i++ {
							want[st.Field(i).Name()] = true
						}
					}
				}
			}
		}
		read := map[string]bool{}
		for _, in := range eng.Find(fn, func(in ssa.Instruction) bool {
			switch in.(type) {
			case *ssa.Field, *ssa.FieldAddr:
				return true
			}
			return false
		}) {
			switch x := in.(type) {
			case *ssa.Field:
				read[structFieldName(x.X.Type(), x.Field)] = true
			case *ssa.FieldAddr:
				read[structFieldName(x.X.Type(), x.Field)] = true
			}
		}
		var missing []string
		for f := range want {
			if !read[f] {
				missing = append(missing, f)
			}
		}
		sort.Strings(missing)
		c.Ob("ABS-counters", eng.FuncName(fn)+" looks-at-every-offset-byte", len(want) >= 4 && len(missing) == 0, fn.Pos(),
			fmt.Sprintf("Offset.IsZero tests all %d bytes of the offset in this build; not tested: %v", len(want), missing))
	}

	// ---------------------------------------------------------------- (2c) the replay reads whole entries
	// Every replay of an index file goes through idx.WalkIndexFile, which reads the file in batches and moves its file
	// position by the bytes read: the batch must hold a whole number of entries (in both offset-width builds), and the
	// loop must step and slice by the entry size.
	strideWalk(c, "STRIDE-walk")

	// ---------------------------------------------------------------- (2d) byte total rebuilt from the index file
	// While a volume runs every put adds its size to FileByteCounter (logPut -> LogFileCounter, whatever was there before);
	// the rebuild used by the LevelDB and sorted-file maps must therefore add the size of every entry with a valid size,
	// first occurrence of the key or not.
	if outer := c.NeedFunc("weed/storage", "newNeedleMapMetricFromIndexFile"); outer != nil {
		fbc := func(in ssa.Instruction) bool {
			if st, ok := in.(*ssa.Store); ok && eng.IsField(st.Addr, "mapMetric.FileByteCounter") {
				return true
			}
			if call, ok := in.(*ssa.Call); ok && eng.CalleeIs(call, "atomic.AddUint64") && eng.IsField(eng.Arg(call, 0), "mapMetric.FileByteCounter") {
				return true
			}
			return false
		}
		visit := closureWith(outer, fbc)
		if visit == nil {
			c.Undecided("ABS-counters", "index-file rebuild: byte total", outer.Pos(), "no update of FileByteCounter found in the rebuild from the index file")
		} else {
			c.Touch(visit)
			valid := eng.BoolCall(true, "types.Size).IsValid")
			hit, path := eng.Search(eng.Entry(visit), eng.IsReturn, eng.SearchOpt{Barrier: fbc, Cut: eng.FailEdges(visit, valid)})
			c.Ob("ABS-counters", "index-file rebuild: every valid entry adds its size to the byte total", hit == nil && len(eng.PassEdges(visit, valid)) > 0, visit.Pos(),
				"rebuilding the counters from the index file adds the size of every entry with a valid size to FileByteCounter, as every put did while the volume ran"+func() string {
					if hit != nil {
						return "; path without the update: " + eng.DescribePath(P, visit, path)
					}
					return ""
				}())
		}
	}

	// ---------------------------------------------------------------- (3) ABS-counters
	put := c.NeedFunc("weed/storage", "(*NeedleMap).Put")
	del := c.NeedFunc("weed/storage", "(*NeedleMap).Delete")
	var replay *ssa.Function
	if dl := c.NeedFunc("weed/storage", "doLoading"); dl != nil {
		replay = closureWith(dl, eng.PlainCallTo("needle_map.NeedleValueMap).Set"))
		if replay == nil {
			c.Undecided("ABS-counters", "doLoading replay closure", dl.Pos(), "the WalkIndexFile visitor calling m.Set was not found")
		}
	}
	if put != nil && del != nil && replay != nil {
		c.Touch(replay)
		clsRun := func(v ssa.Value) string {
			switch {
			case eng.IsParamLike(v, "size"):
				return "new"
			case eng.MentionsCall(v, "needle_map.NeedleValueMap).Set"):
				if eng.TypeName(v.Type()) == "Offset" {
					return "oldoff"
				}
				return "oldSet"
			case eng.MentionsCall(v, "needle_map.NeedleValueMap).Delete"):
				return "oldDel"
			case eng.IsParamLike(v, "offset"):
				return "newoff"
			}
			return ""
		}
		for _, nc := range []int{1, 0, -1} {
			for _, old := range []string{"absent", "live", "deleted"} {
				p := cntPoint{nc, old}
				runFn := put
				if nc < 0 {
					runFn = del
				}
				re, err1 := counterEffects(runFn, clsRun, p, 3)
				ld, err2 := counterEffects(replay, clsRun, p, 3)
				key := "NeedleMap vs doLoading " + p.String()
				if err1 != nil || err2 != nil {
					c.Undecided("ABS-counters", key, replay.Pos(), fmt.Sprintf("%v %v", err1, err2))
					continue
				}
				a, b := setString(re, "MaximumFileKey"), setString(ld, "MaximumFileKey")
				okMax := nc < 0 || (re["MaximumFileKey"] && ld["MaximumFileKey"])
				c.Ob("ABS-counters", key, a == b && okMax, replay.Pos(),
					fmt.Sprintf("counters updated while running: %s, on reload: %s (max key tracked: running=%v reload=%v)", a, b, re["MaximumFileKey"], ld["MaximumFileKey"]))
			}
		}
	}
	c.Expect("ABS-counters", 9)

	// ---------------------------------------------------------------- (4) SIB-needlemapper
	for _, im := range []string{"NeedleMap", "LevelDbNeedleMap"} {
		if fn := c.NeedFunc("weed/storage", "(*"+im+").Put"); fn != nil {
			app := eng.Find(fn, eng.PlainCallTo("storage.baseNeedleMapper).appendToIndexFile"))
			logp := eng.Find(fn, eng.PlainCallTo("storage.mapMetric).logPut"))
			c.Ob("SIB-needlemapper", eng.FuncName(fn)+" logPut", len(logp) == 1, fn.Pos(), "Put updates the counters through logPut")
			c.Ob("SIB-needlemapper", eng.FuncName(fn)+" index-append", len(app) == 1, fn.Pos(), "Put appends the entry to the index file")
			if len(app) == 1 {
				c.ErrChecked("SIB-needlemapper", "index-append-error", fn, app, "a failed index append fails the Put")
				call := app[0].(*ssa.Call)
				okArgs := eng.IsParamLike(eng.Arg(call, 0), "key") && eng.IsParamLike(eng.Arg(call, 1), "offset") && eng.IsParamLike(eng.Arg(call, 2), "size")
				c.Ob("SIB-needlemapper", eng.FuncName(fn)+" index-append-args", okArgs, call.Pos(), "the index entry carries the key, offset and size of the Put")
				c.Before("SIB-needlemapper", "metric-and-index-before-success", fn, eng.Is(app[0]), successReturns(fn), "no success return of Put skips the index append")
			}
			if len(logp) == 1 {
				call := logp[0].(*ssa.Call)
				c.Ob("SIB-needlemapper", eng.FuncName(fn)+" logPut-args", eng.IsParamLike(eng.Arg(call, 0), "key") && eng.IsParamLike(eng.Arg(call, 2), "size") && !eng.IsParamLike(eng.Arg(call, 1), "size"), call.Pos(), "logPut receives (key, previous size, new size)")
			}
			if w := eng.Find(fn, eng.PlainCallTo("storage.levelDbWrite")); len(w) > 0 && len(app) == 1 {
				c.Guard("SIB-needlemapper", "index-file-first", fn, eng.Entry(fn), w, eng.PassEdges(fn, eng.ErrNil(eng.ErrOf(app[0]))), "the secondary store is written only after the index append succeeded")
				c.ErrChecked("SIB-needlemapper", "db-write-error", fn, w, "a failed LevelDB write fails the Put")
			}
		}
	}
	for _, im := range []string{"NeedleMap", "LevelDbNeedleMap", "SortedFileNeedleMap"} {
		fn := c.NeedFunc("weed/storage", "(*"+im+").Delete")
		if fn == nil {
			continue
		}
		app := eng.Find(fn, eng.PlainCallTo("storage.baseNeedleMapper).appendToIndexFile"))
		c.Ob("SIB-needlemapper", eng.FuncName(fn)+" index-append", len(app) == 1, fn.Pos(), "Delete appends a tombstone to the index file")
		if len(app) == 1 {
			call := app[0].(*ssa.Call)
			k, isK := eng.ConstInt(eng.Arg(call, 2))
			ts, okTs := namedConst(P, "weed/storage/types", "TombstoneFileSize")
			c.Ob("SIB-needlemapper", eng.FuncName(fn)+" tombstone-const", isK && okTs && k == ts && eng.IsParamLike(eng.Arg(call, 0), "key"), call.Pos(), "the appended entry is (key, offset, TombstoneFileSize)")
			c.ErrChecked("SIB-needlemapper", "index-append-error", fn, app, "a failed index append fails the Delete")
		}
		logd := eng.Find(fn, eng.PlainCallTo("storage.mapMetric).logDelete"))
		c.Ob("SIB-needlemapper", eng.FuncName(fn)+" logDelete", len(logd) == 1, fn.Pos(), "Delete of a live entry updates the deletion counters through logDelete")
		if w := eng.Find(fn, eng.PlainCallTo("storage.levelDbWrite")); len(w) > 0 && len(app) == 1 {
			c.Guard("SIB-needlemapper", "index-file-first", fn, eng.Entry(fn), w, eng.PassEdges(fn, eng.ErrNil(eng.ErrOf(app[0]))), "the secondary store is written only after the index append succeeded")
			call := w[0].(*ssa.Call)
			neg, isNeg := eng.Arg(call, 3).(*ssa.UnOp)
			c.Ob("SIB-needlemapper", eng.FuncName(fn)+" db-tombstone", isNeg && neg.Op == token.SUB && strings.HasSuffix(eng.FieldSpec(neg.X), "NeedleValue.Size") && strings.HasSuffix(eng.FieldSpec(eng.Arg(call, 2)), "NeedleValue.Offset"), call.Pos(),
				"the LevelDB record of a deleted key keeps the old offset and stores the negated old size")
		}
		if w := eng.Find(fn, eng.PlainCallTo("erasure_coding.SearchNeedleFromSortedIndex")); len(w) > 0 && len(app) == 1 {
			var marks []ssa.Instruction
			for _, x := range w {
				if !eng.IsNilConst(eng.Arg(x.(*ssa.Call), 3)) {
					marks = append(marks, x)
				}
			}
			c.Guard("SIB-needlemapper", "index-file-first", fn, eng.Entry(fn), marks, eng.PassEdges(fn, eng.ErrNil(eng.ErrOf(app[0]))), "the sorted file is marked only after the index append succeeded")
		}
	}
	c.Expect("SIB-needlemapper", 20)
	if dl := c.NeedFunc("weed/storage", "doLoading"); dl != nil && replay != nil {
		mx := eng.PlainCallTo("storage.mapMetric).MaybeSetMaxFileKey")
		c.Before("SIB-needlemapper", "replay-tracks-max-key", replay, mx, eng.Find(replay, eng.IsReturn), "every replayed entry (live or not) raises the maximum file key")
	}

	// the sorted file is marked in place by Delete: its handle must be opened writable
	if fn := c.NeedFunc("weed/storage", "NewSortedFileNeedleMap"); fn != nil {
		sts := eng.Find(fn, eng.StoreToField("SortedFileNeedleMap.dbFile"))
		if len(sts) == 0 {
			c.Undecided("PROV-sdx-writable", eng.FuncName(fn), fn.Pos(), "no store to SortedFileNeedleMap.dbFile found")
		}
		for i, st := range sts {
			okMode := false
			for _, v := range eng.Resolve(st.(*ssa.Store).Val) {
				eng.Walk(v, 3, func(x ssa.Value) bool {
					if call, ok := x.(*ssa.Call); ok && eng.CalleeIs(call, "os.OpenFile") {
						if k, isK := eng.ConstInt(call.Call.Args[1]); isK && k&3 == 2 {
							okMode = true
						}
					}
					return true
				})
			}
			c.Ob("PROV-sdx-writable", fmt.Sprintf("%s dbFile#%d", eng.FuncName(fn), i), okMode, st.Pos(), "the .sdx handle that Delete marks tombstones through (MarkNeedleDeleted -> WriteAt) is opened with O_RDWR")
		}
	}

	// ---------------------------------------------------------------- (5) CODEC-leveldb value slices
	checkSlices := func(rel, name string, want [][2]string) {
		fd, pk := P.FuncDecl(rel, name)
		if fd == nil {
			c.Undecided("CODEC-leveldb", rel+"."+name, token.NoPos, "function not found")
			return
		}
		ev := func(e ast.Expr) (int64, bool) {
			if e == nil {
				return 0, true
			}
			tv, ok := pk.TypesInfo.Types[e]
			if !ok || tv.Value == nil {
				return 0, false
			}
			return constant.Int64Val(constant.ToInt(tv.Value))
		}
		cv := func(expr string) (int64, bool) {
			total := int64(0)
			for _, t := range strings.Split(expr, "+") {
				if t == "0" {
					continue
				}
				v, ok := namedConst(P, "weed/storage/types", t)
				if !ok {
					return 0, false
				}
				total += v
			}
			return total, true
		}
		var got [][2]int64
		var poss []token.Pos
		ast.Inspect(fd, func(n ast.Node) bool {
			if se, ok := n.(*ast.SliceExpr); ok {
				lo, ok1 := ev(se.Low)
				hi, ok2 := ev(se.High)
				if ok1 && ok2 && se.High != nil {
					got = append(got, [2]int64{lo, hi})
					poss = append(poss, se.Pos())
				}
			}
			return true
		})
		for i, w := range want {
			lo, ok1 := cv(w[0])
			hi, ok2 := cv(w[1])
			found := false
			pos := fd.Pos()
			for j, g := range got {
				if ok1 && ok2 && g[0] == lo && g[1] == hi {
					found = true
					pos = poss[j]
				}
			}
			c.Ob("CODEC-leveldb", fmt.Sprintf("%s.%s slice#%d [%s:%s]", rel, name, i, w[0], w[1]), found, pos, fmt.Sprintf("the function slices [%d:%d] (constants of this build configuration); slices found: %v", lo, hi, got))
		}
	}
	checkSlices("weed/storage", "(*LevelDbNeedleMap).Get", [][2]string{{"0", "OffsetSize"}, {"OffsetSize", "OffsetSize+SizeSize"}})
	checkSlices("weed/storage", "levelDbWrite", [][2]string{{"0", "NeedleIdSize"}, {"NeedleIdSize", "NeedleIdSize+OffsetSize+SizeSize"}})
	if fn := c.NeedFunc("weed/storage", "(*LevelDbNeedleMap).Get"); fn != nil {
		// the length test accepts exactly OffsetSize+SizeSize
		want, _ := namedConst(P, "weed/storage/types", "OffsetSize")
		w2, _ := namedConst(P, "weed/storage/types", "SizeSize")
		found := false
		for _, b := range fn.Blocks {
			for _, in := range b.Instrs {
				if bo, ok := in.(*ssa.BinOp); ok && (bo.Op == token.NEQ || bo.Op == token.EQL) {
					if k, isK := eng.ConstInt(bo.Y); isK && k == want+w2 {
						if call, ok := bo.X.(*ssa.Call); ok && eng.CalleeIs(call, "builtin.len") {
							found = true
						}
					}
				}
			}
		}
		c.Ob("CODEC-leveldb", eng.FuncName(fn)+" value-length", found, fn.Pos(), fmt.Sprintf("a stored value is decoded only when its length is OffsetSize+SizeSize = %d", want+w2))
	}

	// ---------------------------------------------------------------- PAIR-section
	// every acquisition of a section's mutex is released on all paths. (Which accesses happen under it is not
	// decided here: on the serving paths the map is guarded by the volume's data-file lock — C38 — and the section
	// mutex is not what separates readers from writers.)
	c.CheckLockPairs("PAIR-section", "weed/storage/needle_map", "CompactSection.RWMutex", nil)
	c.Expect("PAIR-section", 4)

	// ---------------------------------------------------------------- INIT-append-position
	// every needle map that appends to the index file starts appending at the file's end: the constructor that
	// installs the index file also sets the append position from the file's size
	nInit := 0
	for _, fn := range c.P.SrcFuncs("weed/storage") {
		sets := eng.Find(fn, eng.StoreToField("baseNeedleMapper.indexFile"))
		if len(sets) == 0 {
			continue
		}
		nInit++
		c.Touch(fn)
		okInit := false
		for _, st := range eng.Find(fn, eng.StoreToField("baseNeedleMapper.indexFileOffset")) {
			if eng.MentionsCall(st.(*ssa.Store).Val, "os.FileInfo).Size", "fs.FileInfo).Size") {
				okInit = true
			}
		}
		c.Ob("INIT-append-position", eng.FuncName(fn), okInit, sets[0].Pos(), "the append position of the index file is initialised from the file's size where the index file is installed")
	}
	c.Expect("INIT-append-position", 3)
}

// arraysOf names the parallel arrays of CompactSection an instruction touches: the array whose
// element a load/store addresses, or every array the statically known callee accesses.
func arraysOf(in ssa.Instruction) map[string]bool {
	out := map[string]bool{}
	addrArrays := func(v ssa.Value) {
		eng.Walk(v, 6, func(x ssa.Value) bool {
			if a := c05Arrays[eng.FieldSpec(x)]; a != "" {
				out[a] = true
			}
			return true
		})
	}
	switch x := in.(type) {
	case *ssa.Store:
		addrArrays(x.Addr)
	case *ssa.UnOp:
		addrArrays(x.X)
	case *ssa.Call:
		if f := eng.StaticFn(x); f != nil {
			for _, g := range eng.WithAnon(f) {
				for _, b := range g.Blocks {
					for _, i := range b.Instrs {
						if fa, ok := i.(*ssa.FieldAddr); ok {
							if a := c05Arrays[eng.FieldSpec(fa)]; a != "" {
								out[a] = true
							}
						}
					}
				}
			}
		}
	}
	return out
}

func sharesArray(a, b map[string]bool) bool {
	for k := range a {
		if b[k] {
			return true
		}
	}
	return false
}

func ifs(b bool, s string) string {
	if b {
		return s
	}
	return ""
}

// recvTypeName returns the bare receiver type name of a method ("" for plain functions and closures).
func recvTypeName(fn *ssa.Function) string {
	if fn == nil || fn.Signature.Recv() == nil {
		return ""
	}
	return eng.TypeName(fn.Signature.Recv().Type())
}

// successReturns lists the returns of fn whose error operand may be nil.
func successReturns(fn *ssa.Function) []ssa.Instruction {
	var out []ssa.Instruction
	for _, r := range eng.Find(fn, eng.IsReturn) {
		if eng.ReturnMaySucceed(fn, r.(*ssa.Return)) {
			out = append(out, r)
		}
	}
	return out
}

// lockstepExtra: the compact map keeps the 5th offset byte of entry i in a parallel slice (valuesExtra / overflowExtra);
// every read, write, swap and append of the offset part of values[i] / overflow[i] has a twin access of the parallel
// slice at the same index. Returns the number of accesses decided.
func lockstepExtra(c *eng.Ctx, rule string) int {
	P := c.P
	twin := map[string]string{"values": "valuesExtra", "overflow": "overflowExtra", "valuesExtra": "values", "overflowExtra": "overflow"}
	offsetPart := func(a elemAccess) bool {
		return a.part == "whole" || a.part == "OffsetLower" || a.part == "OffsetHigher"
	}
	nLock := 0
	for _, fn := range P.SrcFuncs("weed/storage/needle_map") {
		accs := elemAccesses(fn)
		if len(accs) == 0 {
			continue
		}
		c.Touch(fn)
		ord := map[string]int{}
		for _, a := range accs {
			if !offsetPart(a) {
				continue
			}
			nLock++
			kind := map[bool]string{true: "write", false: "read"}[a.write]
			base := fmt.Sprintf("%s %s %s[%s]", eng.FuncName(fn), kind, a.arr, a.part)
			ord[base]++
			found := false
			for _, b := range accs {
				if b.arr == twin[a.arr] && b.write == a.write && offsetPart(b) && eng.SameExpr(a.idx, b.idx) && (b.in.Block() == a.in.Block() || b.in.Block().Dominates(a.in.Block()) || a.in.Block().Dominates(b.in.Block())) {
					found = true
					break
				}
			}
			c.Ob(rule, fmt.Sprintf("%s#%d", base, ord[base]), found, eng.InstrPos(a.in),
				fmt.Sprintf("the %s of the offset part of %s[i] has a twin %s of %s[i] at the same index (the 5th offset byte travels with its entry)", kind, a.arr, kind, twin[a.arr]))
		}
		// bulk moves: copy(dst, src) inside one of the arrays has a twin copy inside the parallel array in the same block
		for i, in := range eng.Find(fn, eng.PlainCallTo("builtin.copy")) {
			call := in.(*ssa.Call)
			arr := ""
			for _, f := range []string{"overflowExtra", "overflow", "valuesExtra", "values"} {
				if eng.MentionsField(call.Call.Args[0], "CompactSection."+f) {
					arr = f
					break
				}
			}
			if arr == "" {
				continue
			}
			nLock++
			found := false
			for _, in2 := range eng.Find(fn, eng.PlainCallTo("builtin.copy")) {
				if in2 != in && in2.Block() == in.Block() && eng.MentionsField(in2.(*ssa.Call).Call.Args[0], "CompactSection."+twin[arr]) && !(twin[arr] == "overflow" && eng.MentionsField(in2.(*ssa.Call).Call.Args[0], "CompactSection.overflowExtra")) && !(twin[arr] == "values" && eng.MentionsField(in2.(*ssa.Call).Call.Args[0], "CompactSection.valuesExtra")) {
					found = true
				}
			}
			c.Ob(rule, fmt.Sprintf("%s copy %s#%d", eng.FuncName(fn), arr, i), found, in.Pos(), "a bulk move inside "+arr+" is paired with the same move inside "+twin[arr])
		}
		// appends
		for _, f := range []string{"overflow", "overflowExtra", "values", "valuesExtra"} {
			for i, st := range eng.Find(fn, eng.StoreToField("CompactSection."+f)) {
				s := st.(*ssa.Store)
				call, ok := s.Val.(*ssa.Call)
				if !ok || !eng.CalleeIs(call, "builtin.append") {
					continue
				}
				nLock++
				found := false
				for _, st2 := range eng.Find(fn, eng.StoreToField("CompactSection."+twin[f])) {
					if c2, ok := st2.(*ssa.Store).Val.(*ssa.Call); ok && eng.CalleeIs(c2, "builtin.append") && st2.Block() == st.Block() {
						found = true
					}
				}
				c.Ob(rule, fmt.Sprintf("%s append %s#%d", eng.FuncName(fn), f, i), found, s.Pos(), "an append to "+f+" is paired with an append to "+twin[f]+" in the same block")
			}
		}
	}
	return nLock
}

// strideWalk: idx.WalkIndexFile reads the index in batches and advances its file position by the bytes read: the batch
// buffer holds a whole number of entries in the build at hand, and positions inside a batch step by the entry size.
func strideWalk(c *eng.Ctx, rule string) {
	P := c.P
	if fn := c.NeedFunc("weed/storage/idx", "WalkIndexFile"); fn != nil {
		entry, okE := namedConst(P, "weed/storage/types", "NeedleMapEntrySize")
		n := 0
		for _, in := range eng.Find(fn, eng.PlainCallTo("io.ReaderAt).ReadAt")) {
			k := eng.BufLenOf(eng.Arg(in.(ssa.CallInstruction), 0))
			n++
			c.Ob(rule, fmt.Sprintf("%s batch-buffer#%d", eng.FuncName(fn), n), okE && entry > 0 && k > 0 && k%entry == 0, in.Pos(),
				fmt.Sprintf("the batch buffer (%d bytes) holds a whole number of index entries (%d bytes each in this build): a partial entry at the end of a batch would be skipped and every later entry decoded out of phase", k, entry))
		}
		if n == 0 {
			c.Undecided(rule, eng.FuncName(fn)+" batch-buffer", fn.Pos(), "batch buffer allocation not found")
		}
		for _, in := range eng.Find(fn, func(in ssa.Instruction) bool { b, ok := in.(*ssa.BinOp); return ok && b.Op == token.ADD }) {
			b := in.(*ssa.BinOp)
			if _, isPhi := b.X.(*ssa.Phi); !isPhi {
				continue
			}
			k, isK := eng.ConstInt(b.Y)
			if !isK {
				continue
			}
			n++
			c.Ob(rule, fmt.Sprintf("%s step#%d", eng.FuncName(fn), n), okE && k == entry, in.Pos(), "positions inside a batch advance by the entry size")
		}
		c.Expect(rule, 5)
	}

}
