package props

import (
	"fmt"
	"go/token"
	"regexp"
	"strconv"
	"strings"

	"golang.org/x/tools/go/ssa"

	"verif/sa/eng"
)

func init() {
	register(&Prop{
		ID:  "C28",
		Run: runC28,
		Explanation: "Static decision of the structural conditions of multipart assembly and batch deletion: (1) CONST-partname: every site that builds a part file name (upload part, copy part, list-parts marker) uses the same zero-padded decimal directive, and its pad width is at least the number of digits of the largest S3 part number (10000), so names sort like part numbers; the writers refuse part numbers above the configured maximum before writing; " +
			"(2) PROV-assemble: completion assembles only non-directory entries with the part suffix, in listing order, giving each chunk the running offset and advancing it by the chunk's size; the final entry is created from that list and the staging directory is removed only afterwards; (3) CONST-batch-delete: a batch delete removes each named key non-recursively with data deletion, under the request's bucket, and reports a key as deleted only when the filer deleted it (or refused a non-empty folder). Byte equality and range reads are not decided.",
		Assumptions: []string{"the filer lists a directory in ascending name order"},
		Trusted:     baseTrusted,
	})
}

var padDirective = regexp.MustCompile(`%0(\d+)d\.part`)

func runC28(c *eng.Ctx) {
	pagingEnds(c, "PROV-assemble")
	P := c.P
	// ---------------------------------------------------------------- (1) CONST-partname
	type psite struct {
		fn  *ssa.Function
		pos token.Pos
		fmt string
		w   int
	}
	var sites []psite
	for _, fn := range P.SrcFuncs("weed/s3api") {
		for _, in := range eng.Find(fn, eng.PlainCallTo("fmt.Sprintf")) {
			s, ok := eng.ConstString(in.(*ssa.Call).Call.Args[0])
			if !ok || !strings.Contains(s, ".part") {
				continue
			}
			m := padDirective.FindStringSubmatch(s)
			w := -1
			d := ""
			if m != nil {
				w, _ = strconv.Atoi(m[1])
				d = m[0]
			}
			sites = append(sites, psite{fn, in.Pos(), d, w})
			c.Touch(fn)
		}
		// helper-style naming: a function whose only job is to format the part name is covered by the scan above
	}
	if len(sites) < 3 {
		c.Undecided("CONST-partname", "discovery", token.NoPos, fmt.Sprintf("only %d part-name formatting sites found, expected >= 3 (upload part, copy part, list-parts marker)", len(sites)))
	}
	ord := map[string]int{}
	for _, s := range sites {
		ord[eng.FuncName(s.fn)]++
		key := fmt.Sprintf("%s format#%d", eng.FuncName(s.fn), ord[eng.FuncName(s.fn)])
		c.Sites++
		c.Ob("CONST-partname", key+" same-directive", s.fmt != "" && len(sites) > 0 && s.fmt == sites[0].fmt, s.pos, fmt.Sprintf("part files are named with %q here and %q at the first site: completion orders parts by these names, so every writer and the marker must agree", s.fmt, sites[0].fmt))
		c.Ob("CONST-partname", key+" width-covers-10000", s.w >= 5, s.pos, fmt.Sprintf("pad width %d; part numbers run to 10000 (5 digits), a narrower pad makes \"10000\" sort between \"1000\" and \"1001\"", s.w))
	}
	c.Expect("CONST-partname", 6)
	for _, h := range []string{"(*S3ApiServer).PutObjectPartHandler", "(*S3ApiServer).CopyObjectPartHandler"} {
		fn := c.NeedFunc("weed/s3api", h)
		if fn == nil {
			continue
		}
		sinks := eng.Find(fn, eng.PlainCallTo("s3api.S3ApiServer).putToFiler", "util.ReadUrlAsReaderCloser", "s3api.S3ApiServer).proxyToFiler"))
		if len(sinks) == 0 {
			c.Undecided("GUARD-maxpart", eng.FuncName(fn), fn.Pos(), "write to the filer not found")
			continue
		}
		max, _ := namedConst(P, "weed/s3api", "globalMaxPartID")
		tooBig := eng.Cmp(func(v ssa.Value) bool { return eng.MentionsCall(v, "strconv.Atoi") }, func(v ssa.Value) bool { k, ok := eng.ConstInt(v); return ok && k == max }, token.GTR)
		c.Guard("GUARD-maxpart", "write-only-within-limit", fn, eng.Entry(fn), sinks, eng.FailEdges(fn, tooBig), "a part number above the configured maximum is refused before anything is written")
		atoi := eng.Find(fn, eng.PlainCallTo("strconv.Atoi"))
		if len(atoi) >= 1 {
			c.Guard("GUARD-maxpart", "write-only-with-numeric-part", fn, eng.Entry(fn), sinks, eng.PassEdges(fn, eng.ErrNil(eng.ErrOf(atoi[0]))), "a part number that is not a number is refused before anything is written")
		}
	}
	c.Expect("GUARD-maxpart", 4)

	// ---------------------------------------------------------------- (2) PROV-assemble
	if fn := c.NeedFunc("weed/s3api", "(*S3ApiServer).completeMultipartUpload"); fn != nil {
		// the chunk literal inside the loop
		offStores := eng.Find(fn, eng.StoreToField("FileChunk.Offset"))
		list := eng.Find(fn, eng.PlainCallTo("s3api.S3ApiServer).list"))
		mk := eng.Find(fn, eng.PlainCallTo("s3api.S3ApiServer).mkFile"))
		rm := eng.Find(fn, eng.PlainCallTo("s3api.S3ApiServer).rm"))
		if len(offStores) != 1 || len(list) != 1 || len(mk) != 1 || len(rm) != 1 {
			c.Undecided("PROV-assemble", eng.FuncName(fn), fn.Pos(), "listing / chunk construction / mkFile / cleanup not found")
		} else {
			st := offStores[0].(*ssa.Store)
			// offset value: loop-carried accumulator
			acc, isPhi := st.Val.(*ssa.Phi)
			okAcc := isPhi && len(eng.CycleOf(acc.Block())) > 0
			// advanced by int64(chunk.Size) after use
			okAdv := false
			if okAcc {
				for _, b := range fn.Blocks {
					for _, in := range b.Instrs {
						if bo, ok := in.(*ssa.BinOp); ok && bo.Op == token.ADD && bo.X == ssa.Value(acc) && eng.MentionsField(bo.Y, "FileChunk.Size") {
							for _, e := range acc.Edges {
								if e == ssa.Value(bo) || phiCarries(e, bo) {
									okAdv = true
								}
							}
						}
					}
				}
			}
			c.Ob("PROV-assemble", eng.FuncName(fn)+" running-offset", okAcc && okAdv, st.Pos(), "each chunk of each part is placed at the running offset, which then grows by that chunk's size")
			// only *.part, non-directory entries
			suffix := eng.PassEdges(fn, func(cond ssa.Value) (bool, bool) {
				call, ok := cond.(*ssa.Call)
				if !ok || !eng.CalleeIs(call, "strings.HasSuffix") {
					return false, false
				}
				s, isS := eng.ConstString(call.Call.Args[1])
				return isS && s == ".part" && eng.MentionsField(call.Call.Args[0], "Entry.Name"), true
			})
			notDir := eng.FailEdges(fn, eng.BoolVal(true, func(v ssa.Value) bool { return eng.IsField(v, "Entry.IsDirectory") }))
			c.Guard("PROV-assemble", "only-part-files", fn, eng.Entry(fn), []ssa.Instruction{st}, suffix, "only entries named *.part contribute to the object")
			c.Guard("PROV-assemble", "only-files", fn, eng.Entry(fn), []ssa.Instruction{st}, notDir, "directories do not contribute")
			// entries iterated are the listing's, in order (a single forward index loop over the result)
			okIter := false
			for _, b := range fn.Blocks {
				for _, in := range b.Instrs {
					if ia, ok := in.(*ssa.IndexAddr); ok && eng.SameVar(ia.X, eng.ResultOf(list[0], 0)) {
						if phi, isPhi := ia.Index.(*ssa.Phi); isPhi && phi.Comment == "rangeindex" {
							okIter = true
						}
						if bo, isBo := ia.Index.(*ssa.BinOp); isBo && bo.Op == token.ADD {
							if phi, isPhi := bo.X.(*ssa.Phi); isPhi && phi.Comment == "rangeindex" {
								okIter = true
							}
						}
					}
				}
			}
			c.Ob("PROV-assemble", eng.FuncName(fn)+" listing-order", okIter, fn.Pos(), "parts are taken in the order the staging directory was listed (ascending name)")
			// mkFile gets the assembled list; cleanup only after mkFile succeeded
			okList := false
			eng.Walk(eng.Arg(mk[0].(*ssa.Call), 2), 6, func(x ssa.Value) bool {
				if call, ok := x.(*ssa.Call); ok && eng.CalleeIs(call, "builtin.append") && len(eng.CycleOf(call.Block())) > 0 {
					okList = true
				}
				return true
			})
			c.Ob("PROV-assemble", eng.FuncName(fn)+" creates-assembled-list", okList, mk[0].Pos(), "the object is created from the assembled chunk list")
			c.Guard("PROV-assemble", "cleanup-after-create", fn, eng.Entry(fn), rm, eng.PassEdges(fn, eng.ErrNil(eng.ErrOf(mk[0]))), "the staged parts are removed only after the object was created")
			// staged parts are removed without deleting their data (the new object references the same chunks)
			del, okDel := eng.ConstBool(eng.Arg(rm[0].(*ssa.Call), 2))
			c.Ob("PROV-assemble", eng.FuncName(fn)+" cleanup-keeps-chunks", okDel && !del, rm[0].Pos(), "removing the staging directory keeps the chunks, which now belong to the completed object")
		}
	}
	c.Expect("PROV-assemble", 7)

	// ---------------------------------------------------------------- (3) CONST-batch-delete
	if h := c.NeedFunc("weed/s3api", "(*S3ApiServer).DeleteMultipleObjectsHandler"); h != nil {
		var cl *ssa.Function
		for _, a := range eng.WithAnon(h) {
			for _, in := range eng.Find(a, eng.PlainCallTo("s3api.doDeleteEntry")) {
				if len(eng.CycleOf(in.Block())) > 0 {
					cl = a
				}
			}
		}
		if cl == nil {
			c.Undecided("CONST-batch-delete", eng.FuncName(h), h.Pos(), "per-key delete call not found")
		} else {
			c.Touch(cl)
			for i, d := range eng.Find(cl, eng.PlainCallTo("s3api.doDeleteEntry")) {
				call := d.(*ssa.Call)
				okData, okRec := false, false
				for _, v := range eng.Resolve(eng.Arg(call, 3)) {
					t, isT := eng.ConstBool(v)
					okData = isT && t
				}
				allFalse := true
				n := 0
				for _, v := range eng.Resolve(eng.Arg(call, 4)) {
					n++
					if t, isT := eng.ConstBool(v); !isT || t {
						allFalse = false
					}
				}
				okRec = allFalse && n > 0
				c.Ob("CONST-batch-delete", fmt.Sprintf("%s delete#%d non-recursive", eng.FuncName(h), i), okRec, call.Pos(), "each named key is removed non-recursively: naming a key that is only a prefix of other keys must not remove the keys below it")
				c.Ob("CONST-batch-delete", fmt.Sprintf("%s delete#%d with-data", eng.FuncName(h), i), okData, call.Pos(), "the data of a deleted key is deleted with it")
				okDir := eng.Mentions(eng.Arg(call, 1), 10, func(x ssa.Value) bool {
					u, ok := x.(*ssa.UnOp)
					if !ok {
						return false
					}
					fv, isFV := u.X.(*ssa.FreeVar)
					return isFV && fv.Name() == "bucket"
				}) && eng.MentionsField(eng.Arg(call, 1), "S3ApiServerOption.BucketsPath")
				c.Ob("CONST-batch-delete", fmt.Sprintf("%s delete#%d under-request-bucket", eng.FuncName(h), i), okDir, call.Pos(), "the directory deleted from is <buckets path>/<request bucket>/...")
				// reported as deleted only on nil error or the non-empty-folder refusal
				e := eng.ErrOf(d)
				app := eng.Find(cl, func(in ssa.Instruction) bool {
					ac, ok := in.(*ssa.Call)
					return ok && eng.CalleeIs(ac, "builtin.append") && strings.HasSuffix(ac.Type().String(), "ObjectIdentifier")
				})
				cut := eng.MergeEdges(eng.PassEdges(cl, eng.ErrNil(e)), eng.PassEdges(cl, eng.BoolCall(true, "strings.Contains")))
				c.Guard("CONST-batch-delete", fmt.Sprintf("delete#%d reported-only-when-deleted", i), cl, eng.After(d), app, cut, "a key is reported as deleted only when the filer deleted it (or it is a non-empty folder, which S3 treats as absent)")
			}
		}
	}
	if dd := c.NeedFunc("weed/s3api", "doDeleteEntry"); dd != nil {
		okF := true
		for f, p := range map[string]string{"DeleteEntryRequest.IsRecursive": "isRecursive", "DeleteEntryRequest.IsDeleteData": "isDeleteData", "DeleteEntryRequest.Directory": "parentDirectoryPath", "DeleteEntryRequest.Name": "entryName"} {
			sts := eng.Find(dd, eng.StoreToField(f))
			if len(sts) != 1 || eng.ParamName(sts[0].(*ssa.Store).Val) != p {
				okF = false
			}
		}
		c.Ob("CONST-batch-delete", eng.FuncName(dd)+" forwards-flags", okF, dd.Pos(), "the delete request carries the directory, name, data and recursion flags it was given")
		rpc := eng.Find(dd, func(in ssa.Instruction) bool {
			call, ok := in.(*ssa.Call)
			return ok && call.Call.IsInvoke() && call.Call.Method.Name() == "DeleteEntry"
		})
		c.ErrChecked("CONST-batch-delete", "rpc-error", dd, rpc, "a failed delete is reported to the caller")
	}
	// the purge of folders left empty by a batch delete never removes a bucket directory (a direct child of the buckets
	// folder): the delete is reached only when the parent it is issued under differs from BucketsPath, and it is
	// non-recursive (a folder that still holds keys stays)
	if fn := c.NeedFunc("weed/s3api", "(*S3ApiServer).doDeleteEmptyDirectories"); fn != nil {
		dels := eng.Find(fn, eng.PlainCallTo("s3api.doDeleteEntry"))
		if len(dels) == 0 {
			c.Undecided("CONST-batch-delete", eng.FuncName(fn)+" purge", fn.Pos(), "doDeleteEntry call not found")
		}
		for i, d := range dels {
			call := d.(*ssa.Call)
			parent := eng.Arg(call, 1)
			notBucket := eng.Cmp(func(v ssa.Value) bool { return v == parent }, func(v ssa.Value) bool { return eng.MentionsField(v, "S3ApiServerOption.BucketsPath") }, token.NEQ)
			c.Guard("CONST-batch-delete", fmt.Sprintf("purge#%d never-a-bucket", i), fn, eng.Entry(fn), []ssa.Instruction{d}, eng.PassEdges(fn, notBucket),
				"an empty folder is purged only when its parent (the very value the delete is issued under) is not the buckets folder: a bucket is never removed by deleting keys")
			rec, okR := eng.ConstBool(eng.Arg(call, 4))
			c.Ob("CONST-batch-delete", fmt.Sprintf("%s purge#%d non-recursive", eng.FuncName(fn), i), okR && !rec, call.Pos(), "the purge deletes a folder only when it is empty (non-recursive delete)")
		}
	}
	c.Expect("CONST-batch-delete", 8)
}

// phiCarries: value e is a phi one of whose edges is v.
func phiCarries(e ssa.Value, v ssa.Value) bool {
	phi, ok := e.(*ssa.Phi)
	if !ok {
		return false
	}
	for _, x := range phi.Edges {
		if x == v {
			return true
		}
	}
	return false
}
