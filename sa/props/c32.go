package props

import (
	"fmt"
	"go/token"

	"golang.org/x/tools/go/ssa"

	"verif/sa/eng"
)

func init() {
	register(&Prop{
		ID:  "C32",
		Run: runC32,
		Explanation: "Static decision of the structure of range handling: (1) EXIT-responds: every return of processRangeRequest is preceded by a response — the content callback, an HTTP error, or the multipart copy (no silent empty 200); (2) GUARD-range: an unparsable Range answers 416, status 206 is written only on the range paths and, for a single range, only after Content-Range was set, and the single range is written with exactly its start and length; the multipart writer emits each range's part with that range's start and length; " +
			"(3) CLAMP-range: parseRange keeps a parsed last-byte position only when it is strictly below the size (otherwise size-1), a suffix length only when it is at most the size, and refuses a start beyond the size or a start above the end; (4) SEEK-abs: the content callback of the volume read positions the reader absolutely at the range's offset before copying exactly its length, and the size probe seeks to the end; (5) GUARD-gzip: Content-Encoding: gzip is announced only when the request's Accept-Encoding names gzip and the stored bytes are gzip. Range arithmetic over all inputs and byte equality are not decided.",
		Assumptions: []string{"the ResponseWriter implements the usual net/http semantics"},
		Trusted:     baseTrusted,
	})
}

func runC32(c *eng.Ctx) {
	P := c.P

	// ORDER-headers: net/http sends the header map at WriteHeader; a header set afterwards is silently dropped. On the
	// read paths (local, proxied, ranged) Content-Range, Content-Type, Content-Encoding, ETag and Accept-Ranges must
	// therefore all be in place before the status is written
	nWH := 0
	for _, spec := range [][2]string{{"weed/server", "(*VolumeServer).GetOrHeadHandler"}, {"weed/server", "processRangeRequest"}, {"weed/server", "writeResponseContent"}, {"weed/server", "(*FilerServer).GetOrHeadHandler"}} {
		fn := c.NeedFunc(spec[0], spec[1])
		if fn == nil {
			continue
		}
		isWH := func(in ssa.Instruction) bool {
			call, ok := in.(*ssa.Call)
			return ok && call.Call.IsInvoke() && call.Call.Method.Name() == "WriteHeader" && eng.TypeName(call.Call.Value.Type()) == "ResponseWriter"
		}
		setsHeader := func(in ssa.Instruction) bool {
			call, ok := in.(*ssa.Call)
			if !ok || !eng.CalleeIs(call, "http.Header).Set", "http.Header).Add", "http.Header).Del") {
				return false
			}
			return eng.Mentions(call.Call.Args[0], 3, func(v ssa.Value) bool {
				hc, isC := v.(*ssa.Call)
				return isC && hc.Call.IsInvoke() && hc.Call.Method.Name() == "Header" && eng.TypeName(hc.Call.Value.Type()) == "ResponseWriter"
			})
		}
		for i, in := range eng.Find(fn, isWH) {
			nWH++
			hit, path := eng.Search(eng.After(in), setsHeader, eng.SearchOpt{})
			c.Ob("ORDER-headers", fmt.Sprintf("%s status#%d", eng.FuncName(fn), i), hit == nil, in.Pos(),
				"no response header is set after the status line was written"+pathNote(P, fn, hit, path))
		}
	}
	if nWH < 3 {
		c.Undecided("ORDER-headers", "discovery", token.NoPos, fmt.Sprintf("only %d WriteHeader calls found on the read paths (expected >= 3)", nWH))
	}

	// SIB-announced-size: the Content-Length of a multi-range answer is computed by encoding the part headers once
	// (rangesMIMESize) and the body is produced by encoding them again while streaming; both encodings must be given the
	// same content type and total size, or the announced length and the bytes sent differ and the body is cut or padded
	if pr := c.NeedFunc("weed/server", "processRangeRequest"); pr != nil {
		nHdr := 0
		for _, f := range eng.WithAnon(pr) {
			for i, in := range eng.Find(f, eng.CallTo("weed_server.rangesMIMESize", "server.rangesMIMESize", "weed_server.httpRange).mimeHeader", "server.httpRange).mimeHeader")) {
				call := in.(ssa.CallInstruction)
				a, b := 0, 1
				if eng.CalleeIs(call, "weed_server.rangesMIMESize", "server.rangesMIMESize") {
					a, b = 1, 2
				}
				nHdr++
				ok := eng.IsParamLike(eng.Unwrap(eng.Arg(call, a)), "mimeType") && eng.IsParamLike(eng.Unwrap(eng.Arg(call, b)), "totalSize")
				c.Ob("SIB-announced-size", fmt.Sprintf("%s part-header-inputs#%d", eng.FuncName(f), i), ok, in.Pos(),
					"the part headers are encoded from the caller's content type and total size, for the announced length and for the body alike")
			}
		}
		if nHdr < 2 {
			c.Undecided("SIB-announced-size", "discovery", pr.Pos(), fmt.Sprintf("only %d part-header encodings found (expected 2)", nHdr))
		}
	}
	fn := c.NeedFunc("weed/server", "processRangeRequest")
	if fn != nil {
		isWriteFn := func(in ssa.Instruction) bool {
			call, ok := in.(*ssa.Call)
			return ok && eng.ParamName(call.Call.Value) == "writeFn"
		}
		httpErr := eng.PlainCallTo("http.Error")
		copyN := eng.PlainCallTo("io.CopyN")
		responder := eng.Or(isWriteFn, httpErr, copyN)
		// ---------------------------------------------------------------- (1) EXIT-responds
		for i, r := range eng.Find(fn, eng.IsReturn) {
			if r.Block() == fn.Recover {
				continue
			}
			hit, path := eng.Search(eng.Entry(fn), eng.Is(r), eng.SearchOpt{Barrier: responder})
			c.Sites++
			c.Ob("EXIT-responds", fmt.Sprintf("%s exit#%d", eng.FuncName(fn), i), hit == nil, r.Pos(), "no exit leaves the request without content or an error status (an ignored range must fall back to the complete content)"+pathNote(P, fn, hit, path))
		}
		c.Expect("EXIT-responds", 5)
		// ---------------------------------------------------------------- (2) GUARD-range
		parse := eng.Find(fn, eng.PlainCallTo("server.parseRange"))
		if len(parse) != 1 {
			c.Undecided("GUARD-range", eng.FuncName(fn), fn.Pos(), "parseRange call not found")
		} else {
			e := eng.ErrOf(parse[0])
			// on the error edge: http.Error with 416
			ok416 := false
			for _, st := range startsOf(eng.PassEdges(fn, eng.ErrNotNil(e))) {
				hit, _ := eng.Search(st, func(in ssa.Instruction) bool {
					call, ok := in.(*ssa.Call)
					if !ok || !eng.CalleeIs(call, "http.Error") {
						return false
					}
					k, isK := eng.ConstInt(call.Call.Args[2])
					return isK && k == 416
				}, eng.SearchOpt{Barrier: eng.IsReturn})
				ok416 = hit != nil
				// and nothing else is written on that edge
				if w, _ := eng.Search(st, eng.Or(isWriteFn, copyN), eng.SearchOpt{}); w != nil {
					ok416 = false
				}
			}
			c.Ob("GUARD-range", eng.FuncName(fn)+" unparsable-is-416", ok416, parse[0].Pos(), "a Range header that cannot be parsed or satisfied answers 416 and no content")
			wh := eng.Find(fn, func(in ssa.Instruction) bool {
				call, ok := in.(*ssa.Call)
				if !ok || !call.Call.IsInvoke() || call.Call.Method.Name() != "WriteHeader" {
					return false
				}
				k, isK := eng.ConstInt(call.Call.Args[0])
				return isK && k == 206
			})
			c.Guard("GUARD-range", "206-only-with-parsed-ranges", fn, eng.Entry(fn), wh, eng.PassEdges(fn, eng.ErrNil(e)), "206 is answered only for successfully parsed ranges")
			noRange := eng.PassEdges(fn, func(cond ssa.Value) (bool, bool) {
				b, ok := cond.(*ssa.BinOp)
				if !ok || (b.Op != token.EQL && b.Op != token.NEQ) {
					return false, false
				}
				get, isGet := eng.Unwrap(b.X).(*ssa.Call)
				if !isGet || !eng.CalleeIs(get, "http.Header).Get") {
					return false, false
				}
				if h, isH := eng.ConstString(get.Call.Args[1]); !isH || h != "Range" {
					return false, false
				}
				s, isS := eng.ConstString(b.Y)
				return isS && s == "", b.Op == token.EQL
			})
			for _, st := range startsOf(noRange) {
				hit, _ := eng.Search(st, eng.AnyOf(wh), eng.SearchOpt{})
				c.Ob("GUARD-range", eng.FuncName(fn)+" no-range-is-200-complete", hit == nil, fn.Pos(), "without a Range header the complete content is written with status 200")
				full, _ := eng.Search(st, func(in ssa.Instruction) bool {
					call, ok := in.(*ssa.Call)
					if !ok || !isWriteFn(in) {
						return false
					}
					k, isK := eng.ConstInt(call.Call.Args[1])
					return isK && k == 0 && eng.IsParamLike(call.Call.Args[2], "totalSize")
				}, eng.SearchOpt{Barrier: eng.IsReturn})
				c.Ob("GUARD-range", eng.FuncName(fn)+" no-range-writes-all", full != nil, fn.Pos(), "the complete content is bytes [0, totalSize)")
			}
			// single range: Content-Range before WriteHeader(206), writeFn(ra.start, ra.length)
			single := eng.PassEdges(fn, func(cond ssa.Value) (bool, bool) {
				b, ok := cond.(*ssa.BinOp)
				if !ok || (b.Op != token.EQL && b.Op != token.NEQ) {
					return false, false
				}
				call, isCall := b.X.(*ssa.Call)
				k, isK := eng.ConstInt(b.Y)
				return isCall && eng.CalleeIs(call, "builtin.len") && isK && k == 1, b.Op == token.EQL
			})
			for _, st := range startsOf(single) {
				cr := func(in ssa.Instruction) bool {
					call, ok := in.(*ssa.Call)
					if !ok || !eng.CalleeIs(call, "http.Header).Set") {
						return false
					}
					s, isS := eng.ConstString(call.Call.Args[1])
					return isS && s == "Content-Range"
				}
				hit, _ := eng.Search(st, eng.AnyOf(wh), eng.SearchOpt{Barrier: cr})
				c.Ob("GUARD-range", eng.FuncName(fn)+" content-range-before-206", hit == nil, fn.Pos(), "a single range announces its Content-Range before the 206 status line is written")
				wf, _ := eng.Search(st, isWriteFn, eng.SearchOpt{Barrier: eng.IsReturn})
				okArgs := false
				if wf != nil {
					call := wf.(*ssa.Call)
					okArgs = eng.MentionsField(call.Call.Args[1], "httpRange.start") && eng.MentionsField(call.Call.Args[2], "httpRange.length")
				}
				c.Ob("GUARD-range", eng.FuncName(fn)+" single-range-bytes", okArgs, fn.Pos(), "the single range is written as (start, length) of the parsed range")
			}
		}
		for _, a := range fn.AnonFuncs {
			for _, wf := range eng.Find(a, func(in ssa.Instruction) bool {
				call, ok := in.(*ssa.Call)
				if !ok {
					return false
				}
				u, isU := call.Call.Value.(*ssa.UnOp)
				if !isU {
					return false
				}
				fv, isFV := u.X.(*ssa.FreeVar)
				return isFV && fv.Name() == "writeFn"
			}) {
				c.Touch(a)
				call := wf.(*ssa.Call)
				okArgs := eng.MentionsField(call.Call.Args[1], "httpRange.start") && eng.MentionsField(call.Call.Args[2], "httpRange.length") && eng.MentionsCall(call.Call.Args[0], "multipart.Writer).CreatePart")
				c.Ob("GUARD-range", eng.FuncName(fn)+" multipart-part-bytes", okArgs, call.Pos(), "each part of a multi-range answer carries (start, length) of its own range, written into that range's part")
			}
		}
		c.Expect("GUARD-range", 7)
	}

	// ---------------------------------------------------------------- (3) CLAMP-range
	if pr := c.NeedFunc("weed/server", "parseRange"); pr != nil {
		isSize := func(v ssa.Value) bool { return eng.IsParamLike(v, "size") }
		parsed := func(v ssa.Value) bool { return eng.MentionsCall(v, "strconv.ParseInt") && !isSize(v) }
		// clamp values
		sizeMinus1 := eng.Find(pr, func(in ssa.Instruction) bool {
			b, ok := in.(*ssa.BinOp)
			if !ok || b.Op != token.SUB || !isSize(b.X) {
				return false
			}
			k, isK := eng.ConstInt(b.Y)
			return isK && k == 1
		})
		lenStores := eng.Find(pr, eng.StoreToField("httpRange.length"))
		// last-byte position: kept only when strictly below size
		keepLast := eng.PassEdges(pr, eng.Cmp(parsed, isSize, token.LSS))
		okLast := len(sizeMinus1) == 1 && len(keepLast) >= 1
		if okLast {
			// the length computed from the last position (i - start + 1) is reachable, with the strict-below edges cut, only through the clamp
			var fromLast []ssa.Instruction
			for _, st := range lenStores {
				if b, ok := st.(*ssa.Store).Val.(*ssa.BinOp); ok && b.Op == token.ADD {
					if k, isK := eng.ConstInt(b.Y); isK && k == 1 {
						fromLast = append(fromLast, st)
					}
				}
			}
			okLast = len(fromLast) == 1
			if okLast {
				// the parsed last-byte position itself: the value that is clamped (the other operand of the join with size-1)
				var endParsed ssa.Value
				eng.Walk(fromLast[0].(*ssa.Store).Val, 4, func(v ssa.Value) bool {
					if phi, isPhi := v.(*ssa.Phi); isPhi && len(phi.Edges) == 2 {
						for i, e := range phi.Edges {
							if e == ssa.Value(sizeMinus1[0].(*ssa.BinOp)) {
								endParsed = phi.Edges[1-i]
							}
						}
					}
					return true
				})
				if endParsed == nil {
					okLast = false
				} else {
					keepLast = eng.PassEdges(pr, eng.Cmp(func(v ssa.Value) bool { return v == endParsed }, isSize, token.LSS))
					okLast = len(keepLast) >= 1
				}
			}
			if okLast {
				hit, _ := eng.Search(eng.Entry(pr), eng.Is(fromLast[0]), eng.SearchOpt{Cut: keepLast, Barrier: eng.Is(sizeMinus1[0])})
				// the other comparisons of parsed values with size (start > size, suffix > size) also produce LSS-pass edges only when written as <; restrict to the branch that leads to the clamp
				okLast = hit == nil || reachesOnlyVia(pr, fromLast[0], sizeMinus1[0], keepLast)
			}
		}
		c.Ob("CLAMP-range", eng.FuncName(pr)+" last-position", okLast, pr.Pos(), "a last-byte position is kept only when it is strictly below the size; a position equal to or beyond the size becomes size-1 (otherwise the announced length exceeds the data)")
		// suffix: i > size -> i = size
		keepSuffix := eng.PassEdges(pr, eng.Cmp(parsed, isSize, token.LEQ))
		c.Ob("CLAMP-range", eng.FuncName(pr)+" suffix-length", len(keepSuffix) >= 1, pr.Pos(), "a suffix length is kept only when it is at most the size")
		// start beyond size / start above end -> error
		refused := func(edges map[eng.Edge]bool) bool {
			for _, st := range startsOf(edges) {
				if _, isIf := st.B.Instrs[len(st.B.Instrs)-1].(*ssa.If); isIf {
					continue
				}
				hit, _ := eng.Search(st, func(in ssa.Instruction) bool {
					r, ok := in.(*ssa.Return)
					return ok && eng.IsNilConst(r.Results[1])
				}, eng.SearchOpt{})
				if hit == nil {
					return true // this edge can only end in the error return
				}
			}
			return false
		}
		okBad := refused(eng.PassEdges(pr, eng.Cmp(parsed, isSize, token.GEQ))) &&
			refused(eng.PassEdges(pr, eng.Cmp(func(v ssa.Value) bool { return eng.MentionsField(v, "httpRange.start") }, parsed, token.GTR)))
		c.Ob("CLAMP-range", eng.FuncName(pr)+" refusals", okBad, pr.Pos(), "a start at or beyond the size and a start above the last position are errors (416), not ranges")
		c.Expect("CLAMP-range", 3)
	}

	// ---------------------------------------------------------------- (4) SEEK-abs
	if wr := c.NeedFunc("weed/server", "writeResponseContent"); wr != nil {
		probe := eng.Find(wr, func(in ssa.Instruction) bool {
			call, ok := in.(*ssa.Call)
			return ok && call.Call.IsInvoke() && call.Call.Method.Name() == "Seek"
		})
		okProbe := false
		for _, pc := range probe {
			off, ok1 := eng.ConstInt(pc.(*ssa.Call).Call.Args[0])
			wh, ok2 := eng.ConstInt(pc.(*ssa.Call).Call.Args[1])
			if ok1 && ok2 && off == 0 && wh == 2 {
				// its result is the size handed to the range processor
				for _, pr := range eng.Find(wr, eng.PlainCallTo("server.processRangeRequest")) {
					if eng.SameVar(eng.Arg(pr.(*ssa.Call), 2), eng.ResultOf(pc, 0)) {
						okProbe = true
					}
				}
			}
		}
		c.Ob("SEEK-abs", eng.FuncName(wr)+" size-probe", okProbe, wr.Pos(), "the total size is the position of the end of the content (Seek(0, end))")
		var cb *ssa.Function
		for _, a := range wr.AnonFuncs {
			if len(eng.Find(a, eng.PlainCallTo("io.CopyN"))) > 0 {
				cb = a
			}
		}
		if cb == nil {
			c.Undecided("SEEK-abs", eng.FuncName(wr)+" callback", wr.Pos(), "content callback not found")
		} else {
			c.Touch(cb)
			seeks := eng.Find(cb, func(in ssa.Instruction) bool {
				call, ok := in.(*ssa.Call)
				return ok && call.Call.IsInvoke() && call.Call.Method.Name() == "Seek"
			})
			cp := eng.Find(cb, eng.PlainCallTo("io.CopyN"))
			okSeek := len(seeks) == 1 && len(cp) == 1
			if okSeek {
				sc := seeks[0].(*ssa.Call)
				wh, isK := eng.ConstInt(sc.Call.Args[1])
				okSeek = isK && wh == 0 && eng.IsParamLike(sc.Call.Args[0], "offset") && eng.Dominates(seeks[0], cp[0])
			}
			c.Ob("SEEK-abs", eng.FuncName(wr)+" absolute-seek-before-copy", okSeek, cb.Pos(), "each range is read after positioning the reader absolutely (whence = start) at the range's offset — a relative seek would depend on where the previous range ended")
			okCopy := len(cp) == 1 && eng.IsParamLike(cp[0].(*ssa.Call).Call.Args[2], "size") && eng.IsParamLike(cp[0].(*ssa.Call).Call.Args[0], "writer")
			c.Ob("SEEK-abs", eng.FuncName(wr)+" copies-range-length", okCopy, cb.Pos(), "exactly the range's length is copied to the writer handed in")
			if len(seeks) == 1 {
				c.ErrChecked("SEEK-abs", "seek-error", cb, seeks, "a failed seek fails the range")
			}
		}
		c.Expect("SEEK-abs", 3)
	}

	// ---------------------------------------------------------------- (5) GUARD-gzip
	if h := c.NeedFunc("weed/server", "(*VolumeServer).GetOrHeadHandler"); h != nil {
		sets := eng.Find(h, func(in ssa.Instruction) bool {
			call, ok := in.(*ssa.Call)
			if !ok || !eng.CalleeIs(call, "http.Header).Set") {
				return false
			}
			k, ok1 := eng.ConstString(call.Call.Args[1])
			v, ok2 := eng.ConstString(call.Call.Args[2])
			return ok1 && ok2 && k == "Content-Encoding" && v == "gzip"
		})
		if len(sets) == 0 {
			c.Undecided("GUARD-gzip", eng.FuncName(h), h.Pos(), "Content-Encoding: gzip is never set")
		} else {
			accepts := eng.PassEdges(h, func(cond ssa.Value) (bool, bool) {
				call, ok := cond.(*ssa.Call)
				if !ok || !eng.CalleeIs(call, "strings.Contains") {
					return false, false
				}
				s, isS := eng.ConstString(call.Call.Args[1])
				if !isS || s != "gzip" {
					return false, false
				}
				hdr := eng.Mentions(call.Call.Args[0], 4, func(x ssa.Value) bool {
					g, ok := x.(*ssa.Call)
					if !ok || !eng.CalleeIs(g, "http.Header).Get") {
						return false
					}
					k, isK := eng.ConstString(g.Call.Args[1])
					return isK && k == "Accept-Encoding"
				})
				return hdr, true
			})
			c.Guard("GUARD-gzip", "only-when-accepted", h, eng.Entry(h), sets, accepts, "compressed bytes are sent as such only to a client whose Accept-Encoding names gzip")
			c.Guard("GUARD-gzip", "only-gzip-content", h, eng.Entry(h), sets, eng.PassEdges(h, eng.BoolCall(true, "util.IsGzippedContent")), "and only when the stored bytes are gzip")
			c.Guard("GUARD-gzip", "only-compressed-needles", h, eng.Entry(h), sets, eng.PassEdges(h, eng.BoolCall(true, "needle.Needle).IsCompressed")), "and only for a needle flagged as compressed")
			// otherwise compressed data is decompressed before it is written
			wr := eng.Find(h, eng.PlainCallTo("server.writeResponseContent"))
			okDec := len(wr) == 1
			if okDec {
				comp := startsOf(eng.PassEdges(h, eng.BoolCall(true, "needle.Needle).IsCompressed")))
				for _, st := range comp {
					hit, _ := eng.Search(st, eng.Is(wr[0]), eng.SearchOpt{Barrier: eng.Or(eng.AnyOf(sets), eng.PlainCallTo("util.DecompressData"))})
					if hit != nil {
						okDec = false
					}
				}
			}
			c.Ob("GUARD-gzip", eng.FuncName(h)+" otherwise-decompressed", okDec, h.Pos(), "a compressed blob is either announced as gzip or decompressed before it is written")
		}
		c.Expect("GUARD-gzip", 4)
	}
}

// reachesOnlyVia: with the cut edges removed, target is reachable from the function entry only through via.
func reachesOnlyVia(fn *ssa.Function, target, via ssa.Instruction, cut map[eng.Edge]bool) bool {
	hit, _ := eng.Search(eng.Entry(fn), eng.Is(target), eng.SearchOpt{Cut: cut, Barrier: eng.Is(via)})
	return hit == nil
}
