package props

import (
	"fmt"
	"go/token"

	"golang.org/x/tools/go/ssa"

	"verif/sa/eng"
)

func init() {
	register(&Prop{
		ID:  "C14",
		Run: runC14,
		Explanation: "Static decision of the vacuum round's structure: (1) commit is called only on the true edge of the compact phase, compact only when the check phase asks for it; the per-replica closures report success only on the nil-error edge and a failed commit RPC clears the round's success flag; " +
			"(2) PAIR: the removeFromWritable done by the compact phase is matched by a re-enable on every exit of the round; (3) the predicate under which SetVolumeAvailable re-enables a volume contains the same three tests as ensureCorrectWritables (copies, read-only replicas, oversized); " +
			"(4) ERR: the vacuum RPC handlers and the compaction/commit call tree (Compact2, copyDataBasedOnIndexFile, CommitCompact, makeupDiff) do not swallow the errors of their data-moving calls, so a failed compaction is never reported as success. Replica content equality and timeouts are not decided.",
		Assumptions: []string{"fault = an error returned by an RPC or an I/O call; the rules decide that such an error reaches the caller, not what the caller's peer does"},
		Trusted:     baseTrusted,
	})
}

// flagClearedOnError: p is a boolean loop-carried success flag; on the e != nil
// edge every way back to p's block must feed the constant false into p.
func flagClearedOnError(fn *ssa.Function, p *ssa.Phi, e ssa.Value) (bool, string) {
	fails := startsOf(eng.FailEdges(fn, eng.ErrNil(e)))
	if len(fails) == 0 {
		return false, "the error is never tested"
	}
	hdr := p.Block()
	for _, st := range fails {
		// blocks reachable from the failing edge without passing through the header
		seen := map[*ssa.BasicBlock]bool{}
		work := []*ssa.BasicBlock{st.B}
		for len(work) > 0 {
			b := work[0]
			work = work[1:]
			if seen[b] || b == hdr {
				continue
			}
			seen[b] = true
			work = append(work, b.Succs...)
		}
		for i, pred := range hdr.Preds {
			if !seen[pred] {
				continue
			}
			if v, ok := eng.ConstBool(p.Edges[i]); !ok || v {
				return false, fmt.Sprintf("the edge from block %d keeps the flag %s after the error", pred.Index, p.Edges[i].Name())
			}
		}
	}
	return true, ""
}

func runC14(c *eng.Ctx) {
	P := c.P
	// ---- (1) phase guards in the round
	if fn := c.NeedFunc("weed/topology", "(*Topology).vacuumOneVolumeLayout"); fn != nil {
		commit := eng.Find(fn, eng.PlainCallTo("topology.Topology).batchVacuumVolumeCommit"))
		compact := eng.Find(fn, eng.PlainCallTo("topology.Topology).batchVacuumVolumeCompact"))
		if len(commit) == 0 || len(compact) == 0 {
			c.Undecided("GUARD-vacuum-phase", eng.FuncName(fn), fn.Pos(), "compact/commit calls not found")
		}
		c.Guard("GUARD-vacuum-phase", "commit-after-compact-ok", fn, eng.Entry(fn), commit,
			eng.PassEdges(fn, eng.BoolCall(true, "topology.Topology).batchVacuumVolumeCompact")), "commit runs only when every replica's compaction succeeded")
		need := eng.BoolVal(true, okOfCall("topology.Topology).batchVacuumVolumeCheck"))
		c.Guard("GUARD-vacuum-phase", "compact-after-check", fn, eng.Entry(fn), compact, eng.PassEdges(fn, need), "compaction runs only when the check phase asked for it")
		ro := eng.BoolCall(false, "topology.volumesBinaryState).IsTrue")
		c.Guard("GUARD-vacuum-phase", "skip-readonly", fn, eng.Entry(fn), compact, eng.PassEdges(fn, ro), "read-only volumes are not vacuumed")

		// ---- (2) PAIR in the round: after the compact phase (which removes the volume from writables)
		// every path to the end of the iteration passes a call that can re-enable it
		grow := func(in ssa.Instruction) bool {
			f := in.Parent()
			for _, g := range writableGrowStores(f) {
				if g == in {
					return true
				}
			}
			return false
		}
		reenable := eng.CallReaching(grow, 3)
		endOfIter := func(in ssa.Instruction) bool {
			if _, ok := in.(*ssa.Return); ok {
				return true
			}
			_, isNext := in.(*ssa.Next)
			return isNext
		}
		for i, cp := range compact {
			f := eng.StaticFn(cp.(*ssa.Call))
			removes := f != nil && eng.Reaches(f, eng.PlainCallTo("topology.VolumeLayout).removeFromWritable"), 1)
			if !removes {
				c.Note("compact phase no longer removes the volume from writables; PAIR-vacuum-writable has nothing to match")
				continue
			}
			hit, path := eng.Search(eng.After(cp), endOfIter, eng.SearchOpt{Barrier: reenable})
			c.Ob("PAIR-vacuum-writable", fmt.Sprintf("%s round compact#%d", eng.FuncName(fn), i), hit == nil, eng.InstrPos(cp),
				"the volume removed from writables by the compact phase is re-enabled (SetVolumeAvailable / ensureCorrectWritables) on every exit of the round"+pathNote(P, fn, hit, path))
		}
	}
	if fn := c.NeedFunc("weed/topology", "(*Topology).batchVacuumVolumeCommit"); fn != nil {
		sva := eng.Find(fn, eng.PlainCallTo("topology.VolumeLayout).SetVolumeAvailable"))
		// the success flag guarding SetVolumeAvailable
		var flag *ssa.Phi
		for _, b := range fn.Blocks {
			if iff, ok := b.Instrs[len(b.Instrs)-1].(*ssa.If); ok {
				if p, ok := iff.Cond.(*ssa.Phi); ok {
					for _, s := range sva {
						if h, _ := eng.Search(eng.Entry(fn), eng.Is(s), eng.SearchOpt{Cut: map[eng.Edge]bool{{B: b, I: 0}: true}}); h == nil {
							flag = p
						}
					}
				}
			}
		}
		if flag == nil || len(sva) == 0 {
			c.Ob("GUARD-vacuum-phase", eng.FuncName(fn)+" available-after-all-commits", false, fn.Pos(), "SetVolumeAvailable is not guarded by a commit-success flag")
		} else {
			c.Ob("GUARD-vacuum-phase", eng.FuncName(fn)+" available-after-all-commits", true, flag.Pos(), "SetVolumeAvailable only when the commit-success flag holds")
			for i, rpc := range eng.Find(fn, eng.PlainCallTo("operation.WithVolumeServerClient")) {
				e := eng.ErrOf(rpc)
				ok, why := false, "no error result"
				if e != nil {
					ok, why = flagClearedOnError(fn, flag, e)
				}
				c.Ob("GUARD-vacuum-phase", fmt.Sprintf("%s flag-cleared rpc#%d", eng.FuncName(fn), i), ok, eng.InstrPos(rpc), "a failed commit RPC clears the success flag "+why)
			}
			// the function's result is the flag
			for i, r := range eng.Find(fn, eng.IsReturn) {
				c.Ob("GUARD-vacuum-phase", fmt.Sprintf("%s returns-flag#%d", eng.FuncName(fn), i), r.(*ssa.Return).Results[0] == flag, eng.InstrPos(r), "the commit phase reports the success flag")
			}
		}
		// the read-only answer of ANY replica keeps the volume out of the writable set: the flag handed to
		// SetVolumeAvailable is only ever raised inside the per-replica step (set to true, or or-ed with itself)
		for si, s := range sva {
			ld, ok := eng.Unwrap(eng.Arg(s.(ssa.CallInstruction), 2)).(*ssa.UnOp)
			var cell *ssa.Alloc
			if ok {
				cell, _ = ld.X.(*ssa.Alloc)
			}
			if cell == nil {
				c.Ob("GUARD-vacuum-phase", fmt.Sprintf("%s read-only-sticky#%d", eng.FuncName(fn), si), false, s.Pos(), "the read-only argument of SetVolumeAvailable is not a variable collected from the replicas' answers")
				continue
			}
			nSt, bad := 0, ""
			for _, f := range eng.WithAnon(fn) {
				for _, in := range eng.Find(f, func(in ssa.Instruction) bool { _, ok := in.(*ssa.Store); return ok }) {
					st := in.(*ssa.Store)
					same := st.Addr == ssa.Value(cell)
					if fv, isFV := st.Addr.(*ssa.FreeVar); isFV && f != fn {
						same = boundTo(fn, f, fv) == ssa.Value(cell)
					}
					if !same || len(eng.CycleOf(st.Block())) == 0 && f == fn {
						continue // the initialisation before the loop
					}
					nSt++
					if b, isK := eng.ConstBool(st.Val); isK && b {
						continue
					}
					// x = x || answer: a phi whose edge from the block testing x itself carries true
					if phi, isPhi := st.Val.(*ssa.Phi); isPhi {
						selfOr := false
						for j, p := range phi.Block().Preds {
							iff, isIf := p.Instrs[len(p.Instrs)-1].(*ssa.If)
							if !isIf {
								continue
							}
							u, isLoad := iff.Cond.(*ssa.UnOp)
							if k, isK := eng.ConstBool(phi.Edges[j]); isLoad && u.Op == token.MUL && u.X == st.Addr && isK && k && p.Succs[0] == phi.Block() {
								selfOr = true
							}
						}
						if selfOr {
							continue
						}
					}
					bad = c.P.Pos(st.Pos())
				}
			}
			c.Ob("GUARD-vacuum-phase", fmt.Sprintf("%s read-only-sticky#%d", eng.FuncName(fn), si), nSt > 0 && bad == "", s.Pos(),
				"a replica's answer can only raise the read-only flag, never lower what an earlier replica reported"+ifs(bad != "", ": overwritten at "+bad))
		}

		// PAIR inside commit: every exit passes SetVolumeAvailable
		hit, path := eng.Search(eng.Entry(fn), eng.IsReturn, eng.SearchOpt{Barrier: eng.AnyOf(sva)})
		c.Ob("PAIR-vacuum-writable", eng.FuncName(fn)+" commit-exits", hit == nil, fn.Pos(),
			"every exit of the commit phase re-enables the volume"+pathNote(P, fn, hit, path))
		// the RPC closure propagates the RPC error
		for _, cl := range fn.AnonFuncs {
			c.ErrChecked("ERR-vacuum-rpc", "commit-closure", cl, eng.Find(cl, eng.PlainCallTo("VolumeServerClient).VacuumVolumeCommit")), "the commit RPC error is returned")
		}
	}
	// the phases of one round work on the same replicas: commit and cleanup are sent to the list that was compacted
	if fn := c.NeedFunc("weed/topology", "(*Topology).vacuumOneVolumeLayout"); fn != nil {
		comp := eng.Find(fn, eng.PlainCallTo("topology.Topology).batchVacuumVolumeCompact"))
		if len(comp) == 1 {
			list := eng.Arg(comp[0].(ssa.CallInstruction), 3)
			for i, in := range eng.Find(fn, eng.PlainCallTo("topology.Topology).batchVacuumVolumeCommit", "topology.Topology).batchVacuumVolumeCleanup")) {
				c.Ob("GUARD-vacuum-phase", fmt.Sprintf("%s same-replicas#%d", eng.FuncName(fn), i), eng.Arg(in.(ssa.CallInstruction), 3) == list, in.Pos(),
					"commit / cleanup go to the replicas that were compacted in this round (a replica that was not compacted must not be asked to commit)")
			}
		}
	}
	// a replica that cannot compact says so: the volume server refuses (error) when the disk has no room for the copy
	if fn := c.NeedFunc("weed/storage", "(*Store).CompactVolume"); fn != nil {
		noRoom := eng.Cmp(func(v ssa.Value) bool { return eng.MentionsField(v, "DiskStatus.Free") }, func(v ssa.Value) bool {
			return eng.Mentions(v, 3, func(x ssa.Value) bool { return eng.IsParam(x, "preallocate") })
		}, token.LSS)
		starts := startsOf(eng.PassEdges(fn, noRoom))
		if len(starts) == 0 {
			c.Undecided("ERR-compaction", eng.FuncName(fn)+" no-room", fn.Pos(), "free-space test not found")
		} else {
			returnsNonNilErr(c, "ERR-compaction", "no-room-is-an-error", fn, starts, "a compaction skipped for lack of disk space is reported as an error (the master must not commit it)")
		}
	}
	// a request that reaches a replica while its compaction is copying is replayed by the commit (replicas end the round
	// with the same live content): the replay starts from a snapshot taken before the copy
	snapshotBeforeCopy(c, "ORDER-vacuum-snapshot")
	if fn := c.NeedFunc("weed/topology", "(*Topology).batchVacuumVolumeCompact"); fn != nil {
		for _, cl := range fn.AnonFuncs {
			// goroutine closure: ch <- true only on err == nil
			var sendsTrue []ssa.Instruction
			for _, in := range eng.Find(cl, func(in ssa.Instruction) bool { _, ok := in.(*ssa.Send); return ok }) {
				if v, ok := eng.ConstBool(in.(*ssa.Send).X); ok && v {
					sendsTrue = append(sendsTrue, in)
				}
			}
			rpcs := eng.Find(cl, eng.PlainCallTo("operation.WithVolumeServerClient"))
			if len(rpcs) == 1 && len(sendsTrue) > 0 {
				e := eng.ErrOf(rpcs[0])
				c.Guard("GUARD-vacuum-phase", "compact-success-signal", cl, eng.Entry(cl), sendsTrue, eng.PassEdges(cl, eng.ErrNil(e)), "a replica reports compaction success only on the nil-error edge")
			}
			for _, cl2 := range cl.AnonFuncs {
				c.ErrChecked("ERR-vacuum-rpc", "compact-closure", cl2, eng.Find(cl2, eng.PlainCallTo("VolumeServerClient).VacuumVolumeCompact")), "the compact RPC error is returned")
			}
		}
		// the aggregate can become false and depends on the received values
		okAgg := false
		for _, r := range eng.Find(fn, eng.IsReturn) {
			vals := eng.Resolve(r.(*ssa.Return).Results[0])
			hasFalse, hasRecv := false, false
			for _, v := range vals {
				if b, ok := eng.ConstBool(v); ok && !b {
					hasFalse = true
				}
				if eng.Mentions(v, 4, func(x ssa.Value) bool { _, ok := x.(*ssa.Select); return ok }) {
					hasRecv = true
				}
				if u, ok := v.(*ssa.UnOp); ok && u.Op == token.ARROW {
					hasRecv = true
				}
			}
			if hasFalse && hasRecv {
				okAgg = true
			}
		}
		c.Ob("GUARD-vacuum-phase", eng.FuncName(fn)+" aggregate-and", okAgg, fn.Pos(), "the compact phase's result is the conjunction of the replicas' results (it can become false and depends on each received value)")
	}
	c.Expect("GUARD-vacuum-phase", 7)
	c.Expect("ERR-vacuum-rpc", 2)

	// ---- (3) SetVolumeAvailable's predicate vs ensureCorrectWritables
	if fn := c.NeedFunc("weed/topology", "(*VolumeLayout).SetVolumeAvailable"); fn != nil {
		var sinks []ssa.Instruction
		for _, call := range eng.Find(fn, func(in ssa.Instruction) bool { _, ok := in.(*ssa.Call); return ok }) {
			if f := eng.StaticFn(call.(*ssa.Call)); f != nil && len(writableGrowStores(f)) > 0 {
				sinks = append(sinks, call)
			}
		}
		sinks = append(sinks, writableGrowStores(fn)...)
		if len(sinks) == 0 {
			c.Undecided("SIB-writable-predicate", eng.FuncName(fn), fn.Pos(), "no path to a writables-growing store found")
		}
		c.Guard("SIB-writable-predicate", "enough-copies", fn, eng.Entry(fn), sinks, eng.PassEdges(fn, eng.BoolCall(true, "topology.VolumeLayout).enoughCopies")),
			"re-enabled only with enough copies (as ensureCorrectWritables)")
		c.Guard("SIB-writable-predicate", "all-replicas-writable", fn, eng.Entry(fn), sinks, eng.PassEdges(fn, eng.BoolCall(true, "topology.VolumeLayout).isAllWritable")),
			"re-enabled only when no registered replica is read-only (as ensureCorrectWritables)")
		c.Guard("SIB-writable-predicate", "not-oversized", fn, eng.Entry(fn), sinks, eng.PassEdges(fn, func(cond ssa.Value) (bool, bool) {
			call, ok := cond.(*ssa.Call)
			if !ok || !eng.CalleeIs(call, "topology.volumesBinaryState).IsTrue") || !eng.MentionsField(eng.RecvOf(call), "VolumeLayout.oversizedVolumes") {
				return false, false
			}
			return true, false
		}), "re-enabled only when the volume is not oversized (as ensureCorrectWritables)")
	}

	// ---- (4) ERR discipline
	for _, h := range []struct{ name, callee string }{
		{"(*VolumeServer).VacuumVolumeCheck", "storage.Store).CheckCompactVolume"},
		{"(*VolumeServer).VacuumVolumeCompact", "storage.Store).CompactVolume"},
		{"(*VolumeServer).VacuumVolumeCommit", "storage.Store).CommitCompactVolume"},
		{"(*VolumeServer).VacuumVolumeCleanup", "storage.Store).CommitCleanupVolume"},
	} {
		if fn := c.NeedFunc("weed/server", h.name); fn != nil {
			calls := eng.Find(fn, eng.PlainCallTo(h.callee))
			if len(calls) == 0 {
				c.Undecided("ERR-vacuum-handler", eng.FuncName(fn), fn.Pos(), "store call not found")
			}
			c.ErrChecked("ERR-vacuum-handler", "store-call", fn, calls, "the vacuum RPC handler returns the store's error")
		}
	}
	movers := eng.PlainCallTo("io.WriterAt).WriteAt", "io.Writer).Write", "os.File).Write", "backend.DiskFile).Write",
		"needle_map.MemDb).AscendingVisit", "needle_map.MemDb).SaveToIdx", "needle_map.MemDb).LoadFromIdx", "needle_map.MemDb).Set",
		"needle.Needle).Append", "needle.ReadNeedleBlob", "weed/storage.ScanVolumeFile", "os.Rename",
		"storage.Volume).makeupDiff", "storage.Volume).load", "weed/storage.copyDataBasedOnIndexFile", "storage.Volume).copyDataAndGenerateIndexFile",
		"storage.Volume).Compact2", "storage.Volume).CommitCompact", "storage.Volume).cleanupCompact", "backend.CreateVolumeFile", "weed/storage.readIndexEntryAtOffset",
		"weed/storage.fetchCompactRevisionFromDatFile", "weed/storage.verifyIndexFileIntegrity", "os.OpenFile", "os.Open", "os.Create")
	roots := []string{"(*Store).CompactVolume", "(*Store).CommitCompactVolume", "(*Store).CommitCleanupVolume"}
	seen := map[*ssa.Function]bool{}
	var tree []*ssa.Function
	var visit func(f *ssa.Function, d int)
	visit = func(f *ssa.Function, d int) {
		if f == nil || seen[f] || f.Blocks == nil || f.Pkg == nil || (f.Pkg.Pkg.Path() != eng.ModulePath+"weed/storage" && f.Pkg.Pkg.Path() != eng.ModulePath+"weed/storage/needle_map") {
			return
		}
		if eng.NameIs(eng.FuncName(f), "storage.Volume).load") {
			return // loading is decided under C03
		}
		seen[f] = true
		tree = append(tree, f)
		if d == 0 {
			return
		}
		for _, g := range eng.WithAnon(f) {
			if g != f {
				seen[g] = true
				tree = append(tree, g)
			}
			for _, b := range g.Blocks {
				for _, in := range b.Instrs {
					if call, ok := in.(ssa.CallInstruction); ok {
						if cal := eng.StaticFn(call); cal != nil && cal.Parent() == nil {
							visit(cal, d-1)
						}
					}
				}
			}
		}
	}
	for _, r := range roots {
		if fn := c.NeedFunc("weed/storage", r); fn != nil {
			visit(fn, 3)
		}
	}
	n := 0
	for _, f := range tree {
		calls := eng.Find(f, movers)
		if len(calls) == 0 {
			continue
		}
		n += len(calls)
		// accepted idiom: CommitCompact answers a failed makeupDiff by discarding the compaction result
		// (.cpd/.cpx removed, old files reloaded) - the live content is unchanged, so success is truthful.
		var rest []ssa.Instruction
		for _, call := range calls {
			if eng.CalleeIs(call.(ssa.CallInstruction), "storage.Volume).makeupDiff") {
				if e := eng.ErrOf(call); e != nil {
					discarded := true
					fails := startsOf(eng.FailEdges(f, eng.ErrNil(e)))
					for _, st := range fails {
						if hit, _ := eng.Search(st, eng.IsReturn, eng.SearchOpt{Barrier: eng.PlainCallTo("os.Remove")}); hit != nil {
							discarded = false
						}
					}
					if discarded && len(fails) > 0 {
						c.Ob("ERR-compaction", eng.FuncName(f)+" makeupDiff-failure-discards-compaction", true, eng.InstrPos(call), "a failed makeupDiff removes the compacted files before continuing with the old ones")
						continue
					}
				}
			}
			rest = append(rest, call)
		}
		calls = rest
		c.ErrChecked("ERR-compaction", "data-mover", f, calls, "an I/O or copy error during compaction/commit reaches the caller (a failed compaction must not be reported as success)")
	}
	c.Expect("ERR-compaction", 15)
	c.Note("compaction call tree: %d functions, %d data-moving call sites", len(tree), n)
}

// boundTo returns the value of outer (or of a function literal between outer and inner) that inner's free variable fv is bound to.
func boundTo(outer, inner *ssa.Function, fv *ssa.FreeVar) ssa.Value {
	idx := -1
	for i, f := range inner.FreeVars {
		if f == fv {
			idx = i
		}
	}
	if idx < 0 {
		return nil
	}
	for _, f := range eng.WithAnon(outer) {
		for _, b := range f.Blocks {
			for _, in := range b.Instrs {
				if mc, ok := in.(*ssa.MakeClosure); ok && mc.Fn == inner && idx < len(mc.Bindings) {
					if up, isFV := mc.Bindings[idx].(*ssa.FreeVar); isFV && f != outer {
						return boundTo(outer, f, up)
					}
					return mc.Bindings[idx]
				}
			}
		}
	}
	return nil
}
