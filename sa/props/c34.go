package props

import (
	"fmt"
	"go/token"
	"go/types"
	"strings"

	"golang.org/x/tools/go/ssa"

	"verif/sa/eng"
)

func init() {
	register(&Prop{
		ID:  "C34",
		Run: runC34,
		Explanation: "Static decision of the token-check structure: (1) in every VolumeServer HTTP handler each store-touching sink (ReplicatedWrite/ReplicatedDelete/ReadVolumeNeedle/ReadEcShardNeedle/DeleteEcShardNeedle) is reachable only through the true edge of the JWT check, and mutating sinks only through a check called with isWrite=true; " +
			"(2) the check returns true only when no key is configured for that direction (write key on the isWrite edge, read key otherwise) or past token!=\"\" && DecodeJwt err==nil && token.Valid with the result being claim.Fid == vid+\",\"+fid; " +
			"(3) DecodeJwt parses with SeaweedFileIdClaims and its key function hands out the key only on the *jwt.SigningMethodHMAC type-assertion success edge. Signature and exp/nbf validation inside golang-jwt are trusted. Also decided: the claims type's Valid method is the one promoted from jwt.StandardClaims (or delegates to it); DecodeJwt returns a token without error only past a successful parse of this request's token with this request's key.",
		Assumptions: []string{"golang-jwt ParseWithClaims validates signature, exp and nbf", "handlers are the (w,r) methods of *VolumeServer"},
		Trusted:     append([]string{"github.com/golang-jwt/jwt"}, baseTrusted...),
	})
}

func runC34(c *eng.Ctx) {
	P := c.P
	jwtCheck := "VolumeServer).maybeCheckJwtAuthorization"
	readSinks := []string{"storage.Store).ReadVolumeNeedle", "storage.Store).ReadEcShardNeedle"}
	writeSinks := []string{"topology.ReplicatedWrite", "topology.ReplicatedDelete", "storage.Store).DeleteEcShardNeedle", "storage.Store).WriteVolumeNeedle", "storage.Store).DeleteVolumeNeedle"}

	checkAtom := func(needWrite bool) eng.Atom {
		return func(cond ssa.Value) (bool, bool) {
			call, ok := cond.(*ssa.Call)
			if !ok || !eng.CalleeIs(call, jwtCheck) {
				return false, false
			}
			if needWrite {
				b, isC := eng.ConstBool(eng.Arg(call, 3))
				if !isC || !b {
					return false, false
				}
			}
			return true, true
		}
	}
	// (1) handlers
	nH := 0
	for _, fn := range P.SrcFuncs("weed/server") {
		if fn.Parent() != nil || fn.Signature.Recv() == nil || eng.TypeName(fn.Signature.Recv().Type()) != "VolumeServer" {
			continue
		}
		if !isHTTPHandlerSig(fn.Signature) {
			continue
		}
		rs := eng.Find(fn, eng.PlainCallTo(readSinks...))
		ws := eng.Find(fn, eng.PlainCallTo(writeSinks...))
		if len(rs)+len(ws) == 0 {
			continue
		}
		nH++
		if len(ws) > 0 {
			c.Guard("GUARD-jwt-write", "mutating-sinks", fn, eng.Entry(fn), ws, eng.PassEdges(fn, checkAtom(true)),
				"mutating store sinks only past maybeCheckJwtAuthorization(..., isWrite=true) == true")
			// a handler that mutates must also protect its reads with the write check
			c.Guard("GUARD-jwt-write", "reads-in-mutating-handler", fn, eng.Entry(fn), rs, eng.PassEdges(fn, checkAtom(true)),
				"store reads of a mutating handler only past the write-token check")
		} else {
			c.Guard("GUARD-jwt-read", "read-sinks", fn, eng.Entry(fn), rs, eng.PassEdges(fn, checkAtom(false)),
				"store reads only past maybeCheckJwtAuthorization(...) == true")
		}
	}
	if nH < 3 {
		c.Undecided("GUARD-jwt", "discovery", token.NoPos, fmt.Sprintf("only %d VolumeServer HTTP handlers with store sinks found (expected GET/HEAD, POST, DELETE)", nH))
	}

	// (2) the check itself
	if fn := c.NeedFunc("weed/server", "(*VolumeServer).maybeCheckJwtAuthorization"); fn != nil {
		isWrite := func(v ssa.Value) bool { return eng.IsParam(v, "isWrite") }
		wEdge := eng.PassEdges(fn, eng.BoolVal(true, isWrite))
		rEdge := eng.PassEdges(fn, eng.BoolVal(false, isWrite))
		loadOf := func(spec string) eng.InstrPred {
			return func(in ssa.Instruction) bool {
				u, ok := in.(*ssa.UnOp)
				return ok && u.Op == token.MUL && eng.IsField(u, spec)
			}
		}
		wl := eng.Find(fn, loadOf("Guard.SigningKey"))
		rl := eng.Find(fn, loadOf("Guard.ReadSigningKey"))
		if len(wl) == 0 || len(rl) == 0 {
			c.Undecided("GUARD-jwt-keydir", eng.FuncName(fn), fn.Pos(), "loads of Guard.SigningKey / Guard.ReadSigningKey not found")
		} else {
			c.Guard("GUARD-jwt-keydir", "write-key", fn, eng.Entry(fn), wl, wEdge, "the write signing key is consulted only on the isWrite edge")
			c.Guard("GUARD-jwt-keydir", "read-key", fn, eng.Entry(fn), rl, rEdge, "the read signing key is consulted only on the !isWrite edge")
		}
		noKey := eng.Cmp(func(v ssa.Value) bool {
			call, ok := v.(*ssa.Call)
			if !ok || !eng.CalleeIs(call, "builtin.len") {
				return false
			}
			return eng.MentionsField(call.Call.Args[0], "Guard.SigningKey") || eng.MentionsField(call.Call.Args[0], "Guard.ReadSigningKey")
		}, func(v ssa.Value) bool { n, ok := eng.ConstInt(v); return ok && n == 0 }, token.EQL)
		tokNonEmpty := eng.Cmp(func(v ssa.Value) bool { return eng.MentionsCall(v, "security.GetJwt") },
			func(v ssa.Value) bool { s, ok := eng.ConstString(v); return ok && s == "" }, token.NEQ)
		var decodeErr ssa.Value
		for _, d := range eng.Find(fn, eng.PlainCallTo("security.DecodeJwt")) {
			decodeErr = eng.ErrOf(d)
		}
		valid := eng.BoolVal(true, func(v ssa.Value) bool { return eng.IsField(v, "Token.Valid") })
		for i, ri := range eng.Find(fn, eng.IsReturn) {
			r := ri.(*ssa.Return)
			if len(r.Results) != 1 {
				continue
			}
			for j, v := range eng.Resolve(r.Results[0]) {
				k := fmt.Sprintf("return#%d.%d", i, j)
				if b, ok := eng.ConstBool(v); ok {
					if !b {
						continue
					}
					c.Guard("GUARD-jwt-check", k+" const-true", fn, eng.Entry(fn), []ssa.Instruction{r}, eng.PassEdges(fn, noKey),
						"`return true` only when no signing key is configured for the direction")
					continue
				}
				bo, ok := v.(*ssa.BinOp)
				if !ok || bo.Op != token.EQL {
					c.Undecided("GUARD-jwt-check", eng.FuncName(fn)+" "+k, eng.InstrPos(r), "returned value is neither a constant nor an equality comparison")
					continue
				}
				claim, other := bo.X, bo.Y
				if !eng.MentionsField(claim, "SeaweedFileIdClaims.Fid") {
					claim, other = other, claim
				}
				okShape := eng.MentionsField(claim, "SeaweedFileIdClaims.Fid") && eng.MentionsParam(other, "vid") && eng.MentionsParam(other, "fid") &&
					!eng.MentionsField(other, "SeaweedFileIdClaims.Fid")
				c.Ob("GUARD-jwt-check", eng.FuncName(fn)+" "+k+" fid-compare", okShape, eng.InstrPos(r),
					"the non-constant result is claim.Fid == f(vid, fid)")
				c.Ob("GUARD-jwt-check", eng.FuncName(fn)+" "+k+" subfile-suffix", eng.MentionsCall(other, "strings.LastIndex"), eng.InstrPos(r),
					"the fid compared has its _n sub-file suffix stripped (strings.LastIndex cut)")
				if decodeErr == nil {
					c.Undecided("GUARD-jwt-check", eng.FuncName(fn)+" "+k+" decode", eng.InstrPos(r), "DecodeJwt call not found")
					continue
				}
				c.Guard("GUARD-jwt-check", k+" token-present", fn, eng.Entry(fn), []ssa.Instruction{r}, eng.PassEdges(fn, tokNonEmpty), "result computed only past token != \"\"")
				c.Guard("GUARD-jwt-check", k+" decode-ok", fn, eng.Entry(fn), []ssa.Instruction{r}, eng.PassEdges(fn, eng.ErrNil(decodeErr)), "result computed only past DecodeJwt err == nil")
				c.Guard("GUARD-jwt-check", k+" token-valid", fn, eng.Entry(fn), []ssa.Instruction{r}, eng.PassEdges(fn, valid), "result computed only past token.Valid")
				// the compared claim comes from the decoded token
				c.Ob("GUARD-jwt-check", eng.FuncName(fn)+" "+k+" claim-from-token", eng.MentionsCall(claim, "security.DecodeJwt"), eng.InstrPos(r),
					"the claim compared is taken from the token returned by DecodeJwt")
			}
		}
		c.Expect("GUARD-jwt-check", 8)
	}

	// (3) DecodeJwt
	if fn := c.NeedFunc("weed/security", "DecodeJwt"); fn != nil {
		parses := eng.Find(fn, eng.PlainCallTo("github.com/golang-jwt/jwt.ParseWithClaims"))
		if len(parses) != 1 {
			c.Ob("GUARD-jwt-alg", "DecodeJwt parse-call", false, fn.Pos(), "DecodeJwt does not call jwt.ParseWithClaims exactly once")
		} else {
			call := parses[0].(*ssa.Call)
			claimsOK := false
			eng.Walk(call.Call.Args[1], 4, func(v ssa.Value) bool {
				if p, ok := v.Type().(*types.Pointer); ok && eng.TypeName(p) == "SeaweedFileIdClaims" {
					claimsOK = true
				}
				return true
			})
			c.Ob("GUARD-jwt-alg", "DecodeJwt claims-type", claimsOK, call.Pos(), "ParseWithClaims is given *SeaweedFileIdClaims (StandardClaims => exp/nbf validated by the library)")
			// the time claims are validated by the library through the claims' Valid method: it must be the one
			// promoted from jwt.StandardClaims (a Valid declared on the claims type itself replaces it, and with it the
			// exp/nbf checks, unless it delegates)
			okValid := false
			whyValid := "claims type not found"
			if pkg := c.P.Pkg("weed/security"); pkg != nil {
				if obj := pkg.Types.Scope().Lookup("SeaweedFileIdClaims"); obj != nil {
					for _, t := range []types.Type{obj.Type(), types.NewPointer(obj.Type())} {
						if sel := types.NewMethodSet(t).Lookup(pkg.Types, "Valid"); sel != nil {
							if len(sel.Index()) > 1 && sel.Obj().Pkg() != nil && strings.Contains(sel.Obj().Pkg().Path(), "jwt") {
								okValid, whyValid = true, "promoted from "+sel.Obj().Pkg().Path()
							} else if own := c.P.Func("weed/security", "(SeaweedFileIdClaims).Valid"); own != nil {
								// an own method: it must return the embedded validation's error
								std := eng.Find(own, eng.CallTo("jwt.StandardClaims).Valid"))
								okValid = len(std) == 1
								whyValid = "declared on the claims type"
								if okValid {
									e := eng.ResultOf(std[0], 0)
									for _, st := range startsOf(eng.PassEdges(own, eng.ErrNotNil(e))) {
										if hit, _ := eng.Search(st, func(in ssa.Instruction) bool {
											r, isR := in.(*ssa.Return)
											return isR && eng.MayBeNil(r.Results[0])
										}, eng.SearchOpt{}); hit != nil {
											okValid = false
										}
									}
									if len(eng.PassEdges(own, eng.ErrNotNil(e))) == 0 {
										okValid = false
										for _, r := range eng.Find(own, eng.IsReturn) {
											if r.(*ssa.Return).Results[0] == e {
												okValid = true
											}
										}
									}
								}
							} else {
								okValid, whyValid = false, "declared on the claims type (not analysable)"
							}
							break
						}
					}
				}
			}
			c.Ob("GUARD-jwt-alg", "DecodeJwt claims-validate-time", okValid, call.Pos(), "the claims' Valid method is jwt.StandardClaims' (expiry / not-before are enforced by the library): "+whyValid)
			// the answer is the library's: a token is returned without error only past a successful parse (a
			// remembered earlier verification says nothing about the key it is asked for now, nor about the time)
			var succ []ssa.Instruction
			direct := false
			for _, ri := range eng.Find(fn, eng.IsReturn) {
				r := ri.(*ssa.Return)
				if r.Block() == fn.Recover || len(r.Results) != 2 {
					continue
				}
				if r.Results[1] == eng.ResultOf(call, 1) && r.Results[0] == eng.ResultOf(call, 0) {
					direct = true // return jwt.ParseWithClaims(...)
					continue
				}
				if eng.MayBeNil(r.Results[1]) {
					succ = append(succ, r)
				}
			}
			if len(succ) == 0 {
				c.Ob("GUARD-jwt-alg", "DecodeJwt answers-the-parse", direct, call.Pos(), "DecodeJwt returns exactly what the library's parse returned")
			} else {
				c.Guard("GUARD-jwt-alg", "answers-the-parse", fn, eng.Entry(fn), succ, eng.PassEdges(fn, eng.ErrNil(eng.ResultOf(call, 1))), "a token is returned without error only past a successful parse of this request's token with this request's key")
			}
			mc, _ := eng.Unwrap(call.Call.Args[2]).(*ssa.MakeClosure)
			if mc == nil {
				c.Undecided("GUARD-jwt-alg", "DecodeJwt keyfunc", call.Pos(), "key function is not a function literal")
			} else {
				kf := mc.Fn.(*ssa.Function)
				c.Touch(kf)
				hmacOK := eng.BoolVal(true, func(v ssa.Value) bool {
					ex, ok := v.(*ssa.Extract)
					if !ok || ex.Index != 1 {
						return false
					}
					ta, ok := ex.Tuple.(*ssa.TypeAssert)
					return ok && eng.TypeName(ta.AssertedType) == "SigningMethodHMAC" && eng.MentionsField(ta.X, "Token.Method")
				})
				var keyReturns []ssa.Instruction
				for _, ri := range eng.Find(kf, eng.IsReturn) {
					r := ri.(*ssa.Return)
					if len(r.Results) > 0 && !eng.MustBeNil(r.Results[0]) {
						keyReturns = append(keyReturns, r)
					}
				}
				if len(keyReturns) == 0 {
					c.Undecided("GUARD-jwt-alg", "DecodeJwt keyfunc returns", kf.Pos(), "no key-returning exit found")
				}
				c.Guard("GUARD-jwt-alg", "keyfunc", kf, eng.Entry(kf), keyReturns, eng.PassEdges(kf, hmacOK),
					"the key is handed to the library only when token.Method is *jwt.SigningMethodHMAC")
			}
		}
	}
}

func isHTTPHandlerSig(sig *types.Signature) bool {
	if sig.Params().Len() != 2 || sig.Results().Len() != 0 {
		return false
	}
	a := sig.Params().At(0).Type().String()
	b := sig.Params().At(1).Type().String()
	return a == "net/http.ResponseWriter" && b == "*net/http.Request"
}
