package props

import (
	"fmt"
	"go/token"
	"strings"

	"golang.org/x/tools/go/ssa"

	"verif/sa/eng"
)

func init() {
	register(&Prop{
		ID:  "C38",
		Run: runC38,
		Explanation: "Static decision of the lock discipline that per-file-id linearizability of a volume rests on: (1) LOCK: on the upload, delete, read and batched-worker paths (the functions of volume_write.go and volume_read.go and their callers) the volume's needle map and data file are read with dataFileAccessLock held and mutated (needle append, index put/delete, truncate, sync of a batch) with it write-held; helpers that rely on their caller's lock are checked at every caller; " +
			"(2) WORKER-hold: the batched worker takes the lock before it reads the end-of-file position and keeps it, on every path, until every request of the batch was answered — in particular across the fsync and the roll-back truncate that follows a failed fsync. Linearizability itself (a property of histories) and races on other fields are not decided.",
		Assumptions: []string{"lock identity is per type", "goroutines started with `go` begin without the lock"},
		Trusted:     baseTrusted,
	})
}

func runC38(c *eng.Ctx) {

	// what a read hands out is its own memory: the bytes a needle's data, name, mime and pairs point into come from a
	// buffer allocated for this read (ReadNeedleBlob), not from a pooled buffer that the next read overwrites
	if fn := c.NeedFunc("weed/storage/needle", "(*Needle).ReadData"); fn != nil {
		rb := eng.Find(fn, eng.PlainCallTo("needle.Needle).ReadBytes"))
		if len(rb) == 0 {
			c.Undecided("ALIAS-read-buffer", eng.FuncName(fn), fn.Pos(), "ReadBytes call not found")
		}
		for i, in := range rb {
			ok := false
			if ex, isEx := eng.Unwrap(eng.Arg(in.(ssa.CallInstruction), 0)).(*ssa.Extract); isEx && ex.Index == 0 {
				if call, isC := ex.Tuple.(*ssa.Call); isC && eng.CalleeIs(call, "needle.ReadNeedleBlob") {
					ok = true
				}
			}
			c.Ob("ALIAS-read-buffer", fmt.Sprintf("%s parses-its-own-buffer#%d", eng.FuncName(fn), i), ok && len(eng.Find(fn, eng.CallTo("sync.Pool).Put"))) == 0, in.Pos(),
				"the record is parsed from the buffer ReadNeedleBlob allocated for this read; nothing is returned to a pool while the needle still points into it")
		}
	}
	if fn := c.NeedFunc("weed/storage/needle", "ReadNeedleBlob"); fn != nil {
		fresh := len(eng.ByteBufLens(fn)) > 0 || len(eng.Find(fn, func(in ssa.Instruction) bool { _, ok := in.(*ssa.MakeSlice); return ok })) > 0
		c.Ob("ALIAS-read-buffer", eng.FuncName(fn)+" allocates", fresh && len(eng.Find(fn, eng.CallTo("sync.Pool).Get"))) == 0, fn.Pos(), "ReadNeedleBlob allocates the buffer it returns")
	}

	// the index the serialised writers update and the readers consult: requests that reach a volume out of key order
	// are placed by swapping entries; the 5th offset byte (kept in a parallel slice) must travel with its entry, or a
	// later read of a key that was passed over is served another record
	if n := lockstepExtra(c, "LOCKSTEP-index"); n < 30 {
		c.Undecided("LOCKSTEP-index", "discovery", token.NoPos, fmt.Sprintf("only %d entry accesses of the compact map found (expected >= 30)", n))
	}
	// ---------------------------------------------------------------- (0) PAIR-datafile
	c.CheckLockPairs("PAIR-datafile", "weed/storage", "Volume.dataFileAccessLock", nil)
	c.Expect("PAIR-datafile", 21)
	P := c.P
	inFiles := func(fn *ssa.Function) bool {
		root := fn
		for root.Parent() != nil {
			root = root.Parent()
		}
		pos := P.Pos(root.Pos())
		return strings.HasPrefix(pos, "weed/storage/volume_write.go") || strings.HasPrefix(pos, "weed/storage/volume_read.go") || strings.HasPrefix(pos, "weed/storage/volume_stream_write.go")
	}
	c.CheckLocks("LOCK-datafile", &eng.LockSpec{
		Mutex:  "Volume.dataFileAccessLock",
		Fields: []string{"Volume.nm", "Volume.DataBackend"},
		Pkg:    "weed/storage",
		WriteCalls: []string{"needle.Needle).Append", "storage.NeedleMapper).Put", "storage.NeedleMapper).Delete",
			"backend.BackendStorageFile).Truncate", "backend.BackendStorageFile).WriteAt", "backend.BackendStorageFile).Sync"},
		Scope: inFiles,
		Exempt: map[string]string{
			"weed/storage.ScanVolumeFile": "offline scan (weed fix / export / compaction) of a volume value it loads privately; not a serving path",
		},
	})
	c.Expect("LOCK-datafile", 6)

	// ---------------------------------------------------------------- (2) WORKER-hold
	if sw := c.NeedFunc("weed/storage", "(*Volume).startWorker"); sw != nil {
		var w *ssa.Function
		for _, a := range eng.WithAnon(sw) {
			if len(eng.Find(a, eng.PlainCallTo("needle.AsyncRequest).Submit"))) > 0 {
				w = a
			}
		}
		if w == nil {
			c.Undecided("WORKER-hold", eng.FuncName(sw), sw.Pos(), "worker loop not found")
			return
		}
		c.Touch(w)
		lock := eng.Find(w, eng.PlainCallTo("sync.RWMutex).Lock"))
		unlock := eng.PlainCallTo("sync.RWMutex).Unlock")
		stat := eng.Find(w, eng.PlainCallTo("backend.BackendStorageFile).GetStat"))
		if len(lock) != 1 || len(stat) != 1 {
			c.Undecided("WORKER-hold", eng.FuncName(w), w.Pos(), "lock / end-of-file read not found")
			return
		}
		c.Ob("WORKER-hold", eng.FuncName(sw)+" lock-before-eof", eng.Dominates(lock[0], stat[0]), stat[0].Pos(), "the batch's roll-back position is read with the lock held")
		for _, kind := range []struct {
			name string
			pred eng.InstrPred
			what string
		}{
			{"do-requests", eng.PlainCallTo("storage.Volume).doWriteRequest", "storage.Volume).doDeleteRequest"), "the batch's appends"},
			{"fsync", eng.PlainCallTo("backend.BackendStorageFile).Sync"), "the fsync of the batch"},
			{"rollback", eng.PlainCallTo("backend.BackendStorageFile).Truncate"), "the roll-back truncate after a failed fsync (a write acknowledged in between would be cut off)"},
			{"answer", eng.PlainCallTo("needle.AsyncRequest).Submit"), "answering the batch's requests"},
		} {
			sites := eng.Find(w, kind.pred)
			if len(sites) == 0 {
				c.Undecided("WORKER-hold", eng.FuncName(sw)+" "+kind.name, w.Pos(), "step not found")
				continue
			}
			for i, s := range sites {
				// no path from the Lock to this step passes an Unlock
				hit, path := eng.Search(eng.After(lock[0]), unlock, eng.SearchOpt{Barrier: eng.Is(s)})
				reachesAfter := false
				if hit != nil {
					// an unlock is reachable before the step: does the step remain reachable after it (without re-locking)?
					h2, _ := eng.Search(eng.After(hit), eng.Is(s), eng.SearchOpt{Barrier: eng.Is(lock[0])})
					reachesAfter = h2 != nil
				}
				c.Ob("WORKER-hold", fmt.Sprintf("%s %s#%d", eng.FuncName(sw), kind.name, i), !reachesAfter, s.Pos(), "the worker still holds the lock during "+kind.what+pathNote(P, w, nil, path))
			}
		}
	}
	// WORKER-dispatch: a queued request is executed as what it is, every request of the batch is answered, and a
	// failed fsync rolls the file back to the position read at the start and turns every success of the batch into
	// a failure before anything is answered
	if sw := c.P.Func("weed/storage", "(*Volume).startWorker"); sw != nil {
		var w *ssa.Function
		for _, a := range eng.WithAnon(sw) {
			if len(eng.Find(a, eng.PlainCallTo("needle.AsyncRequest).Submit"))) > 0 {
				w = a
			}
		}
		if w != nil {
			isWrite := func(want bool) map[eng.Edge]bool {
				return eng.PassEdges(w, eng.BoolVal(want, func(v ssa.Value) bool { return eng.IsField(v, "AsyncRequest.IsWriteRequest") }))
			}
			wr := eng.Find(w, eng.PlainCallTo("storage.Volume).doWriteRequest"))
			dl := eng.Find(w, eng.PlainCallTo("storage.Volume).doDeleteRequest"))
			c.Guard("WORKER-dispatch", "write-requests-write", w, eng.Entry(w), wr, isWrite(true), "only a write request is executed as a write")
			c.Guard("WORKER-dispatch", "delete-requests-delete", w, eng.Entry(w), dl, isWrite(false), "only a delete request is executed as a delete")
			syncs := eng.Find(w, eng.PlainCallTo("backend.BackendStorageFile).Sync"))
			stat := eng.Find(w, eng.PlainCallTo("backend.BackendStorageFile).GetStat"))
			tr := eng.Find(w, eng.PlainCallTo("backend.BackendStorageFile).Truncate"))
			submits := eng.Find(w, eng.PlainCallTo("needle.AsyncRequest).Submit"))
			if len(syncs) != 1 || len(stat) != 1 || len(tr) != 1 {
				c.Undecided("WORKER-dispatch", eng.FuncName(w)+" fsync", w.Pos(), "fsync / position read / roll-back not found")
			} else {
				e := eng.ErrOf(syncs[0])
				failed := eng.PassEdges(w, eng.ErrNotNil(e))
				c.Guard("WORKER-dispatch", "rollback-only-after-failed-fsync", w, eng.Entry(w), tr, failed, "the file is cut back only when the fsync failed")
				okRb := len(failed) > 0 && eng.Arg(tr[0].(*ssa.Call), 0) == eng.ResultOf(stat[0], 0)
				for _, st := range startsOf(failed) {
					if hit, _ := eng.Search(st, eng.AnyOf(submits), eng.SearchOpt{Barrier: eng.Is(tr[0])}); hit != nil {
						okRb = false
					}
					// every success is turned into a failure carrying the fsync error before the answers go out
					fix := eng.Find(w, func(in ssa.Instruction) bool {
						call, ok := in.(*ssa.Call)
						return ok && eng.CalleeIs(call, "needle.AsyncRequest).UpdateResult") && eng.SameVar(call.Call.Args[len(call.Call.Args)-1], e)
					})
					if len(fix) == 0 {
						okRb = false
					} else if hit, _ := eng.Search(st, eng.AnyOf(submits), eng.SearchOpt{Cut: eng.PassEdges(w, eng.BoolCall(true, "needle.AsyncRequest).IsSucceed")), Barrier: eng.AnyOf(fix)}); hit == nil {
						// fine: the answers are reachable without the fix only past "not succeeded"
					}
				}
				c.Ob("WORKER-dispatch", eng.FuncName(w)+" failed-fsync-rolls-back-to-batch-start", okRb, tr[0].Pos(), "after a failed fsync the file is cut back to the position read at the start of the batch, and the batch's successes are failed with the fsync error, before any request is answered")
			}
			// every request appended to the batch is answered: the answers loop runs after the execution loop on all paths
			okAns := len(submits) == 1
			// the loop that answers: its header (the branch that controls the Submit call) stands for "all answered"
			var answerLoop []ssa.Instruction
			if okAns {
				for _, p := range submits[0].Block().Preds {
					if iff, isIf := p.Instrs[len(p.Instrs)-1].(*ssa.If); isIf {
						answerLoop = append(answerLoop, iff)
					}
				}
				okAns = len(answerLoop) > 0
			}
			for _, x := range append(append([]ssa.Instruction{}, wr...), dl...) {
				if hit, _ := eng.Search(eng.After(x), func(in ssa.Instruction) bool {
					u, ok := in.(*ssa.UnOp)
					return ok && u.Op == token.ARROW // the next receive from the queue
				}, eng.SearchOpt{Barrier: eng.AnyOf(answerLoop)}); hit != nil {
					okAns = false
				}
			}
			c.Ob("WORKER-dispatch", eng.FuncName(w)+" batch-answered-before-next-batch", okAns, w.Pos(), "the requests of a batch are answered before the worker takes the next request from the queue")
		}
	}
	c.Expect("WORKER-dispatch", 5)
	c.Expect("WORKER-hold", 6)
}
