package props

import (
	"fmt"
	"go/token"

	"golang.org/x/tools/go/ssa"

	"verif/sa/eng"
)

func init() {
	register(&Prop{
		ID:  "C11",
		Run: runC11,
		Explanation: "Static decision of the writable-set discipline of topology.VolumeLayout: (1) every store that grows `writables` is reachable (in its own function or, propagated up to 3 call levels, in every caller on the heartbeat/registration/disconnect paths) only past enoughCopies() ∧ isAllWritable() ∧ !oversized; " +
			"(2) writables and vid2location are read/written only with accessLock held in the right mode (caller-holds summaries checked at every caller); (3) registration entry points re-evaluate writability after changing the location list; " +
			"(4) the truth table of enoughCopies over {locations <,=,> desired} x {replicationAsMin} equals the statement's. The vacuum-only entry SetVolumeAvailable is decided under C14. Heartbeat history semantics are not decided. Also decided (FOUND-index): a search that records the matching position in a variable initialised to -1 tests it so that every position >= 0, the first included, counts as found.",
		Assumptions: []string{"closures that are not started with go/defer run with the lock state of their creation point", "lock identity is per type (VolumeLayout.accessLock), not per object"},
		Trusted:     baseTrusted,
	})
}

// growStores: stores to VolumeLayout.writables whose value is append(<load of writables>, ...)
func writableGrowStores(fn *ssa.Function) []ssa.Instruction {
	return eng.Find(fn, func(in ssa.Instruction) bool {
		s, ok := in.(*ssa.Store)
		if !ok || !eng.IsField(s.Addr, "VolumeLayout.writables") {
			return false
		}
		if _, isFA := s.Addr.(*ssa.FieldAddr); !isFA {
			return false
		}
		call, ok := s.Val.(*ssa.Call)
		if !ok || !eng.CalleeIs(call, "builtin.append") {
			return true // any other assignment is treated as potentially growing
		}
		first := call.Call.Args[0]
		if _, isSlice := first.(*ssa.Slice); isSlice {
			return false // append(w[:i], w[i+1:]...) shrinks
		}
		return true
	})
}

func runC11(c *eng.Ctx) {
	P := c.P
	// (1) grow guard with caller propagation
	enough := func(fn *ssa.Function) map[eng.Edge]bool {
		return eng.PassEdges(fn, eng.BoolCall(true, "topology.VolumeLayout).enoughCopies"))
	}
	allWritable := func(fn *ssa.Function) map[eng.Edge]bool {
		return eng.PassEdges(fn, eng.BoolCall(true, "topology.VolumeLayout).isAllWritable"))
	}
	notOversized := func(fn *ssa.Function) map[eng.Edge]bool {
		return eng.PassEdges(fn, func(cond ssa.Value) (bool, bool) {
			call, ok := cond.(*ssa.Call)
			if !ok || !eng.CalleeIs(call, "topology.volumesBinaryState).IsTrue") {
				return false, false
			}
			if !eng.MentionsField(eng.RecvOf(call), "VolumeLayout.oversizedVolumes") {
				return false, false
			}
			return true, false
		})
	}
	vacuumEntry := func(caller *ssa.Function) bool {
		return eng.NameIs(eng.FuncName(caller), "topology.VolumeLayout).SetVolumeAvailable")
	}
	nGrow := 0
	for _, fn := range P.SrcFuncs("weed/topology") {
		if eng.NameIs(eng.FuncName(fn), "topology.NewVolumeLayout") {
			continue
		}
		gs := writableGrowStores(fn)
		if len(gs) == 0 {
			continue
		}
		nGrow += len(gs)
		c.GuardUp("GUARD-writable-grow", "enough-copies", fn, gs, enough, 3, vacuumEntry, "a volume becomes writable only when the replica count matches the replication setting")
		c.GuardUp("GUARD-writable-grow", "all-replicas-writable", fn, gs, allWritable, 3, vacuumEntry, "a volume becomes writable only when no registered replica is read-only")
		c.GuardUp("GUARD-writable-grow", "not-oversized", fn, gs, notOversized, 3, vacuumEntry, "a volume becomes writable only when it is below the size limit")
	}
	if nGrow == 0 {
		c.Undecided("GUARD-writable-grow", "discovery", token.NoPos, "no store growing VolumeLayout.writables found")
	}
	// the hand-over to C14 is sound only if SetVolumeAvailable is called from the vacuum round alone
	if sva := c.NeedFunc("weed/topology", "(*VolumeLayout).SetVolumeAvailable"); sva != nil {
		for i, call := range P.CallersOf(sva) {
			caller := call.Parent()
			okc := eng.NameIs(eng.FuncName(caller), "topology.Topology).batchVacuumVolumeCommit")
			c.Ob("WHO-vacuum-entry", fmt.Sprintf("SetVolumeAvailable caller#%d %s", i, eng.FuncName(caller)), okc, eng.InstrPos(call.(ssa.Instruction)),
				"SetVolumeAvailable (weaker writability test, decided under C14) is only called by the vacuum commit")
		}
	}

	// (2) lock discipline
	c.CheckLocks("LOCK-accessLock", &eng.LockSpec{
		Mutex:  "VolumeLayout.accessLock",
		Fields: []string{"VolumeLayout.writables", "VolumeLayout.vid2location"},
		Pkg:    "weed/topology",
		Exempt: map[string]string{
			"weed/topology.NewVolumeLayout":       "constructor: the value is not shared yet",
			"(*weed/topology.VolumeLayout).ToMap": "status-page snapshot (unlocked read of writables): not on the write-offer / lookup paths C11 speaks about",
		},
	})
	c.CheckLockPairs("PAIR-accessLock", "weed/topology", "VolumeLayout.accessLock", nil)
	c.Expect("PAIR-accessLock", 18)
	c.Expect("LOCK-accessLock", 10)

	// (3) re-evaluation after location-list changes
	if fn := c.NeedFunc("weed/topology", "(*Topology).RegisterVolumeLayout"); fn != nil {
		regs := eng.Find(fn, eng.PlainCallTo("topology.VolumeLayout).RegisterVolume"))
		if len(regs) == 0 {
			c.Undecided("ORDER-reevaluate", eng.FuncName(fn), fn.Pos(), "RegisterVolume call not found")
		}
		c.AfterAll("ORDER-reevaluate", "register", fn, regs, eng.PlainCallTo("topology.VolumeLayout).EnsureCorrectWritables"), nil, "writability is re-evaluated after a replica is registered")
	}
	if fn := c.NeedFunc("weed/topology", "(*VolumeLayout).UnRegisterVolume"); fn != nil {
		removed := eng.BoolCall(true, "topology.VolumeLocationList).Remove")
		starts := startsOf(eng.PassEdges(fn, removed))
		if len(starts) == 0 {
			c.Undecided("ORDER-reevaluate", eng.FuncName(fn), fn.Pos(), "location.Remove(dn) test not found")
		}
		for i, st := range starts {
			hit, path := eng.Search(st, eng.IsReturn, eng.SearchOpt{Barrier: eng.PlainCallTo("topology.VolumeLayout).ensureCorrectWritables")})
			c.Ob("ORDER-reevaluate", fmt.Sprintf("%s removed-edge#%d", eng.FuncName(fn), i), hit == nil, fn.Pos(),
				"after a replica is removed from the location list writability is re-evaluated on every path"+pathNote(P, fn, hit, path))
		}
	}
	if fn := c.NeedFunc("weed/topology", "(*Topology).SyncDataNodeRegistration"); fn != nil {
		ok := false
		for _, call := range eng.Find(fn, eng.PlainCallTo("topology.VolumeLayout).EnsureCorrectWritables")) {
			arg := eng.Arg(call.(*ssa.Call), 0)
			if eng.Mentions(arg, 10, func(v ssa.Value) bool {
				ex, isEx := v.(*ssa.Extract)
				if !isEx || ex.Index != 2 {
					return false
				}
				cl, isC := ex.Tuple.(*ssa.Call)
				return isC && eng.CalleeIs(cl, "topology.DataNode).UpdateVolumes")
			}) {
				ok = true
			}
		}
		c.Ob("ORDER-reevaluate", eng.FuncName(fn)+" changed-volumes", ok, fn.Pos(), "volumes whose read-only flag / size changed in a full heartbeat get their writability re-evaluated")
	}
	c.Expect("ORDER-reevaluate", 3)

	// (3a) FOUND-index: a search that records the position of the match in a variable initialised to -1 must treat
	// every position, 0 included, as found: the test on that variable separates -1 from all indexes >= 0
	nFound := 0
	for _, fn := range P.SrcFuncs("weed/topology") {
		for _, b := range fn.Blocks {
			iff, ok := b.Instrs[len(b.Instrs)-1].(*ssa.If)
			if !ok {
				continue
			}
			bo, ok := iff.Cond.(*ssa.BinOp)
			if !ok {
				continue
			}
			phi, ok := bo.X.(*ssa.Phi)
			k, isK := eng.ConstInt(bo.Y)
			if !ok || !isK || len(phi.Edges) != 2 {
				continue
			}
			hasMinus1, hasIndex := false, false
			for _, ev := range phi.Edges {
				if kk, isC := eng.ConstInt(ev); isC && kk == -1 {
					hasMinus1 = true
				} else if bi, isB := ev.(*ssa.BinOp); isB && bi.Op == token.ADD {
					if ph2, isP := bi.X.(*ssa.Phi); isP && ph2.Comment == "rangeindex" {
						hasIndex = true
					}
				} else if ph2, isP := ev.(*ssa.Phi); isP && ph2.Comment == "rangeindex" {
					hasIndex = true
				}
			}
			if !hasMinus1 || !hasIndex {
				continue
			}
			nFound++
			c.Touch(fn)
			// the test must be false for -1 and true for every k >= 0 (or the reverse)
			holds := func(x int64) bool {
				switch bo.Op {
				case token.GEQ:
					return x >= k
				case token.GTR:
					return x > k
				case token.LSS:
					return x < k
				case token.LEQ:
					return x <= k
				case token.EQL:
					return x == k
				case token.NEQ:
					return x != k
				}
				return false
			}
			sound := holds(-1) != holds(0) && holds(0) == holds(1) && holds(1) == holds(1<<40)
			c.Ob("FOUND-index", fmt.Sprintf("%s test#%d", eng.FuncName(fn), nFound), sound, eng.InstrPos(iff), fmt.Sprintf("the found-position test (%s %d) separates 'not found' (-1) from every position, the first one included", bo.Op, k))
		}
	}
	c.Expect("FOUND-index", 1)

	// (3b) change detection reads the previous state before overwriting it
	if fn := c.NeedFunc("weed/topology", "(*Disk).doAddOrUpdateVolume"); fn != nil {
		isVolLookup := func(v ssa.Value) *ssa.Lookup {
			var l *ssa.Lookup
			eng.Walk(v, 5, func(x ssa.Value) bool {
				if lk, ok := x.(*ssa.Lookup); ok && eng.MentionsField(lk.X, "Disk.volumes") {
					l = lk
					return false
				}
				_, isCall := x.(*ssa.Call)
				return !isCall
			})
			return l
		}
		var updates []ssa.Instruction
		for _, in := range eng.Find(fn, func(in ssa.Instruction) bool {
			mu, ok := in.(*ssa.MapUpdate)
			return ok && eng.MentionsField(mu.Map, "Disk.volumes")
		}) {
			updates = append(updates, in)
		}
		n := 0
		for _, in := range eng.Find(fn, func(in ssa.Instruction) bool {
			b, ok := in.(*ssa.BinOp)
			return ok && (b.Op == token.NEQ || b.Op == token.EQL)
		}) {
			b := in.(*ssa.BinOp)
			x, y := b.X, b.Y
			if !(eng.MentionsField(x, "VolumeInfo.ReadOnly") && eng.MentionsField(y, "VolumeInfo.ReadOnly")) {
				continue
			}
			lk := isVolLookup(x)
			other := y
			if lk == nil {
				lk, other = isVolLookup(y), x
			}
			if lk == nil || !eng.MentionsParam(other, "v") {
				continue
			}
			n++
			stale := false
			for _, u := range updates {
				if h, _ := eng.Search(eng.After(u), eng.Is(lk), eng.SearchOpt{}); h != nil {
					stale = true
				}
			}
			c.Ob("ORDER-detect-change", fmt.Sprintf("%s readonly-compare#%d", eng.FuncName(fn), n), !stale, b.Pos(),
				"the read-only flag of the previously registered volume is read before the registry entry is overwritten (otherwise a read-only change in a full heartbeat is never detected)")
		}
		if n == 0 {
			c.Ob("ORDER-detect-change", eng.FuncName(fn)+" readonly-compare", false, fn.Pos(), "no comparison of the previous and the reported ReadOnly flag found")
		}
	}

	// (3c) the layout registry is addressed with the same key by create and delete
	{
		ingredients := func(fn *ssa.Function, callee string) (map[string]bool, token.Pos) {
			out := map[string]bool{}
			var pos token.Pos
			for _, call := range eng.Find(fn, eng.PlainCallTo(callee)) {
				pos = call.Pos()
				eng.Walk(eng.Arg(call.(*ssa.Call), 0), 10, func(v ssa.Value) bool {
					switch x := v.(type) {
					case *ssa.Call:
						out["call:"+eng.Callee(x)] = true
						if r := eng.RecvOf(x); r != nil {
							if n := eng.ParamName(r); n != "" {
								out["param:"+n] = true
							}
						}
						return false
					}
					if n := eng.ParamName(v); n != "" {
						out["param:"+n] = true
						return false
					}
					return true
				})
			}
			return out, pos
		}
		g := c.NeedFunc("weed/topology", "(*Collection).GetOrCreateVolumeLayout")
		d := c.NeedFunc("weed/topology", "(*Collection).DeleteVolumeLayout")
		if g != nil && d != nil {
			gi, _ := ingredients(g, "util.ConcurrentReadMap).Get")
			di, dpos := ingredients(d, "util.ConcurrentReadMap).Delete")
			same := len(gi) == len(di) && len(gi) > 0
			var diff []string
			for k := range gi {
				if !di[k] {
					same = false
					diff = append(diff, "only in create: "+k)
				}
			}
			for k := range di {
				if !gi[k] {
					same = false
					diff = append(diff, "only in delete: "+k)
				}
			}
			c.Ob("SIB-layout-key", "Collection layout key create==delete", same, dpos, fmt.Sprintf("GetOrCreateVolumeLayout and DeleteVolumeLayout build the registry key from the same ingredients %v", diff))
			all := gi["param:rp"] && gi["param:ttl"] && gi["param:diskType"]
			c.Ob("SIB-layout-key", "Collection layout key covers rp+ttl+diskType", all, g.Pos(), "the registry key distinguishes replication, TTL and disk type")
		}
	}

	// (4) truth table of enoughCopies
	if fn := c.NeedFunc("weed/topology", "(*VolumeLayout).enoughCopies"); fn != nil {
		isL := func(v ssa.Value) bool {
			cl, ok := v.(*ssa.Call)
			return ok && eng.CalleeIs(cl, "topology.VolumeLocationList).Length")
		}
		isR := func(v ssa.Value) bool {
			cl, ok := v.(*ssa.Call)
			return ok && eng.CalleeIs(cl, "super_block.ReplicaPlacement).GetCopyCount")
		}
		for _, ord := range []int{-1, 0, 1} {
			for _, asMin := range []bool{false, true} {
				want := ord == 0 || (ord > 0 && asMin)
				extra := func(v ssa.Value) (bool, bool) {
					if eng.IsField(v, "VolumeLayout.replicationAsMin") {
						return asMin, true
					}
					return false, false
				}
				got, err := eng.AbsEvalBool(fn, eng.OrderOracle(isL, isR, ord, extra), 0)
				k := fmt.Sprintf("enoughCopies locations%sdesired asMin=%v", map[int]string{-1: "<", 0: "=", 1: ">"}[ord], asMin)
				if err != nil {
					c.Undecided("ABS-enoughCopies", k, fn.Pos(), err.Error())
					continue
				}
				c.Ob("ABS-enoughCopies", k, got == want, fn.Pos(), fmt.Sprintf("abstract point evaluates to %v, statement requires %v", got, want))
			}
		}
	}

	// ---------------------------------------------------------------- REG-announced
	// the layout marks (oversized, read-only) are computed from the info a heartbeat announces, the writability checks
	// read the info registered on the data node: an incremental announcement registers every announced volume with
	// the announced info, on every iteration, so the two views describe the same state
	if fn := c.NeedFunc("weed/topology", "(*DataNode).DeltaUpdateVolumes"); fn != nil {
		n := 0
		for i, in := range eng.Find(fn, eng.PlainCallTo("topology.DataNode).doAddOrUpdateVolume")) {
			if h, _ := eng.InnermostLoop(in.Block()); h == nil {
				continue
			}
			n++
			ok, path := eng.OnEveryIteration(in)
			c.Ob("REG-announced", fmt.Sprintf("%s registers-every-announced-volume#%d", eng.FuncName(fn), i), ok, in.Pos(),
				"every volume of an incremental announcement is registered with the announced info (no iteration skips the registration)"+ifs(!ok, "; skipping iteration: "+eng.DescribePath(c.P, fn, path)))
		}
		if n == 0 {
			c.Undecided("REG-announced", eng.FuncName(fn), fn.Pos(), "registration loop not found")
		}
	}

	// a heartbeat that changes a registered volume's read-only flag always reports it as changed (so that the writable
	// set is re-evaluated), whatever else changed in the same heartbeat
	if fn := c.NeedFunc("weed/topology", "(*Disk).doAddOrUpdateVolume"); fn != nil {
		isRO := func(in ssa.Instruction) bool {
			b, ok := in.(*ssa.BinOp)
			return ok && (b.Op == token.NEQ || b.Op == token.EQL) && eng.Mentions(b.X, 4, func(v ssa.Value) bool { return eng.IsField(v, "VolumeInfo.ReadOnly") }) && eng.Mentions(b.Y, 4, func(v ssa.Value) bool { return eng.IsField(v, "VolumeInfo.ReadOnly") })
		}
		found := eng.PassEdges(fn, eng.BoolVal(true, func(v ssa.Value) bool {
			ex, ok := v.(*ssa.Extract)
			if !ok || ex.Index != 1 {
				return false
			}
			lk, isL := ex.Tuple.(*ssa.Lookup)
			return isL && lk.CommaOk && eng.MentionsField(lk.X, "Disk.volumes")
		}))
		okRO := len(found) > 0 && len(eng.Find(fn, isRO)) > 0
		why := ""
		for _, st := range startsOf(found) {
			if hit, path := eng.Search(st, eng.IsReturn, eng.SearchOpt{Barrier: isRO}); hit != nil {
				okRO = false
				why = "; path without the comparison: " + eng.DescribePath(c.P, fn, path)
			}
		}
		c.Ob("REG-announced", eng.FuncName(fn)+" read-only-change-always-compared", okRO, fn.Pos(), "for a volume already registered the old and new read-only flags are compared on every path"+why)
	}

	// ---------------------------------------------------------------- REG-locations
	// registering a replica always records its server in the volume's location list; unregistering removes it, forgets
	// its read-only / oversized marks, re-evaluates writability and drops the volume when no replica is left
	if fn := c.NeedFunc("weed/topology", "(*VolumeLayout).RegisterVolume"); fn != nil {
		sets := eng.Find(fn, func(in ssa.Instruction) bool {
			call, ok := in.(*ssa.Call)
			return ok && eng.CalleeIs(call, "topology.VolumeLocationList).Set") && eng.IsParamLike(call.Call.Args[1], "dn")
		})
		okSet := len(sets) == 1
		if okSet {
			if hit, _ := eng.Search(eng.Entry(fn), eng.IsReturn, eng.SearchOpt{Barrier: eng.AnyOf(sets)}); hit != nil {
				okSet = false
			}
		}
		c.Ob("REG-locations", eng.FuncName(fn)+" records-the-server", okSet, fn.Pos(), "every registration adds the reporting server to the volume's location list")
		// a read-only or missing replica takes the volume out of the writable set
		ro := eng.PassEdges(fn, eng.BoolVal(true, func(v ssa.Value) bool { return eng.IsField(v, "VolumeInfo.ReadOnly") }))
		okRO := len(ro) > 0
		for _, st := range startsOf(ro) {
			if hit, _ := eng.Search(st, eng.IsReturn, eng.SearchOpt{Barrier: eng.PlainCallTo("topology.VolumeLayout).removeFromWritable")}); hit != nil {
				okRO = false
			}
		}
		// every registration, the ones cut short by a read-only or missing replica included, records whether the replica is
		// at or over the size limit: ensureCorrectWritables relies on that mark when the replica flips back to writable
		remember := eng.CallTo("topology.VolumeLayout).rememberOversizedVolume")
		hit, path := eng.Search(eng.Entry(fn), eng.IsReturn, eng.SearchOpt{Barrier: remember})
		c.Ob("REG-locations", eng.FuncName(fn)+" oversized-mark-on-every-exit", hit == nil && len(eng.Find(fn, remember)) > 0, fn.Pos(),
			"every path through a registration records the replica's oversized mark"+func() string {
				if hit != nil {
					return "; exit without it: " + eng.DescribePath(c.P, fn, path)
				}
				return ""
			}())
		c.Ob("REG-locations", eng.FuncName(fn)+" read-only-replica-unwritable", okRO, fn.Pos(), "a registration that sees a read-only replica takes the volume out of the writable set")
	}
	if fn := c.NeedFunc("weed/topology", "(*VolumeLayout).UnRegisterVolume"); fn != nil {
		removed := eng.PassEdges(fn, eng.BoolCall(true, "topology.VolumeLocationList).Remove"))
		for _, step := range []struct{ name, callee, what string }{
			{"forgets-read-only-mark", "topology.volumesBinaryState).Remove", "the read-only / oversized marks of the removed replica are dropped"},
			{"re-evaluates-writability", "topology.VolumeLayout).ensureCorrectWritables", "writability is re-evaluated"},
		} {
			ok := len(removed) > 0
			for _, st := range startsOf(removed) {
				if hit, _ := eng.Search(st, eng.IsReturn, eng.SearchOpt{Barrier: eng.PlainCallTo(step.callee)}); hit != nil {
					ok = false
				}
			}
			c.Ob("REG-locations", eng.FuncName(fn)+" "+step.name, ok, fn.Pos(), "after a replica was removed from the location list "+step.what)
		}
		// the volume is forgotten exactly when no replica is left
		empty := eng.PassEdges(fn, func(cond ssa.Value) (bool, bool) {
			b, ok := cond.(*ssa.BinOp)
			if !ok || !isZero(b.Y) || !eng.MentionsCall(b.X, "topology.VolumeLocationList).Length") {
				return false, false
			}
			switch b.Op {
			case token.EQL, token.LEQ:
				return true, true
			case token.NEQ, token.GTR:
				return true, false
			}
			return false, false
		})
		dels := eng.Find(fn, func(in ssa.Instruction) bool {
			call, ok := in.(*ssa.Call)
			return ok && eng.CalleeIs(call, "builtin.delete") && eng.IsField(call.Call.Args[0], "VolumeLayout.vid2location")
		})
		c.Guard("REG-locations", "forgotten-only-when-empty", fn, eng.Entry(fn), dels, empty, "the volume is dropped from the lookup table only when its last replica was removed")
		okDel := len(empty) > 0 && len(dels) == 1
		for _, st := range startsOf(empty) {
			if hit, _ := eng.Search(st, eng.IsReturn, eng.SearchOpt{Barrier: eng.AnyOf(dels)}); hit != nil {
				okDel = false
			}
		}
		c.Ob("REG-locations", eng.FuncName(fn)+" forgotten-when-empty", okDel, fn.Pos(), "a volume without replicas is dropped from the lookup table (lookups answer not found instead of an empty list)")
	}
	c.Expect("REG-locations", 6)
}

func pathNote(P *eng.Prog, fn *ssa.Function, hit ssa.Instruction, path []int) string {
	if hit == nil {
		return ""
	}
	return "; exit at " + P.Pos(eng.InstrPos(hit)) + " via " + eng.DescribePath(P, fn, path)
}
