package props

import (
	"fmt"
	"go/token"
	"go/types"
	"strings"

	"golang.org/x/tools/go/ssa"

	"verif/sa/eng"
)

func init() {
	register(&Prop{
		ID:  "C20",
		Run: runC20,
		Explanation: "Static decision of who may delete chunks and what they may delete: (1) WHO: the chunk-deletion sinks of the filer (DeleteChunks, DirectDeleteChunks, the deletion queue, doDeleteFileIds) are called only from packages filer and weed_server, and every call site found is classified; (2) PROV: at each site the chunk argument is garbage computed as old-minus-new (MinusChunks / CompactFileChunks / the not-in-new loop), the chunks of an entry whose metadata this request deletes, or chunks uploaded by this very request; " +
			"(3) ORDER-commit-then-delete: garbage is handed to a sink only on the nil-error edge of the metadata write, uploaded-but-uncommitted chunks only on its error edge; (4) GUARD-hardlink: inside package filer the chunks of a stored entry reach a sink only past a test of that entry's hard-link identity (another name may still reference them); the recursive delete collects a child's chunks only when it is not hard linked; " +
			"(5) GUARD/CONST: the delete path hands chunks to the direct sink only when the request asked for data deletion and the bucket is not dropped as a whole; rename removes the old entry with delete-chunks=false. Reference counting over histories and the liveness half (every unreferenced chunk is scheduled) are not decided. Also decided (ID-canonical): old and new chunks are matched by GetFileIdString, never by the raw FileId field that serialization clears.",
		Assumptions: []string{"MinusChunks(a,b) returns chunks of a that are not in b", "the volume servers delete exactly what the sinks send"},
		Trusted:     baseTrusted,
	})
}

func runC20(c *eng.Ctx) {
	hardLinkWriteThrough(c, "PROV-chunk-delete")
	P := c.P
	sinkNames := []string{"filer.Filer).DeleteChunks", "filer.Filer).DirectDeleteChunks", "filer.Filer).doDeleteFileIds"}
	isSink := eng.CallTo(sinkNames...)
	isEnqueue := func(in ssa.Instruction) bool {
		call, ok := in.(ssa.CallInstruction)
		if !ok || !eng.CalleeIs(call, "util.UnboundedQueue).EnQueue") {
			return false
		}
		return eng.MentionsField(eng.RecvOf(call), "Filer.fileIdDeletionQueue")
	}
	// ---------------------------------------------------------------- (1)+(2) WHO / PROV
	type site struct {
		fn   *ssa.Function
		call ssa.Instruction
	}
	var sites []site
	for _, fn := range P.AllSrcFuncs() {
		for _, in := range eng.Find(fn, eng.Or(isSink, isEnqueue)) {
			sites = append(sites, site{fn, in})
		}
	}
	if len(sites) < 9 {
		c.Undecided("WHO-chunk-delete", "discovery", token.NoPos, fmt.Sprintf("only %d chunk deletion call sites found, expected >= 9", len(sites)))
	}
	ord := map[string]int{}
	for _, s := range sites {
		root := s.fn
		for root.Parent() != nil {
			root = root.Parent()
		}
		pkg := ""
		if root.Pkg != nil {
			pkg = strings.TrimPrefix(root.Pkg.Pkg.Path(), eng.ModulePath)
		}
		name := eng.FuncName(root)
		ord[name]++
		key := fmt.Sprintf("%s site#%d", name, ord[name])
		c.Sites++
		c.Touch(root)
		okPkg := pkg == "weed/filer" || pkg == "weed/server"
		c.Ob("WHO-chunk-delete", key, okPkg, s.call.Pos(), "chunk deletion is requested only by the filer core and the filer server (package "+pkg+")")
		if !okPkg {
			continue
		}
		call := s.call.(ssa.CallInstruction)
		var arg ssa.Value
		if isEnqueue(s.call) {
			arg = eng.Arg(call, 0)
		} else {
			arg = eng.Arg(call, 0)
		}
		class := classifyChunkArg(root, s.fn, arg)
		c.Ob("PROV-chunk-delete", key, class != "", s.call.Pos(), "deleted chunks are "+ifs(class != "", class)+ifs(class == "", "of unrecognised provenance: neither old-minus-new garbage, nor chunks of the entry being deleted, nor chunks uploaded by this request"))
	}

	// a hard-linked name gives up its share once per delete (a counter that falls too fast deletes shared chunks early)
	releasedOnce(c, "PROV-chunk-delete")

	// ---------------------------------------------------------------- (3) ORDER-commit-then-delete
	type commit struct {
		rel, fn string
		write   []string
		kind    string // garbage | uploaded
	}
	for _, cm := range []commit{
		{"weed/server", "(*FilerServer).CreateEntry", []string{"filer.Filer).CreateEntry"}, "garbage"},
		{"weed/server", "(*FilerServer).UpdateEntry", []string{"filer.Filer).UpdateEntry"}, "garbage"},
		{"weed/server", "(*FilerServer).AppendToEntry", []string{"filer.Filer).CreateEntry"}, "garbage"},
		{"weed/server", "(*FilerServer).saveMetaData", []string{"filer.Filer).CreateEntry"}, "uploaded"},
		{"weed/server", "(*FilerServer).encrypt", []string{"filer.Filer).CreateEntry"}, "uploaded"},
	} {
		fn := c.NeedFunc(cm.rel, cm.fn)
		if fn == nil {
			continue
		}
		w := eng.Find(fn, eng.PlainCallTo(cm.write...))
		dels := eng.Find(fn, isSink)
		if len(w) != 1 {
			c.Undecided("ORDER-commit-then-delete", eng.FuncName(fn), fn.Pos(), "metadata write not found")
			continue
		}
		if len(dels) == 0 {
			if cm.fn == "(*FilerServer).AppendToEntry" {
				c.Ob("ORDER-commit-then-delete", eng.FuncName(fn)+" no-deletion", true, fn.Pos(), "append deletes nothing")
				continue
			}
			c.Undecided("ORDER-commit-then-delete", eng.FuncName(fn), fn.Pos(), "chunk deletion not found")
			continue
		}
		e := eng.ErrOf(w[0])
		if cm.kind == "garbage" {
			c.Guard("ORDER-commit-then-delete", "garbage-after-commit", fn, eng.Entry(fn), dels, eng.PassEdges(fn, eng.ErrNil(e)), "chunks dropped by the new version are deleted only after the metadata naming the new version was committed (a failed write leaves the old entry live and pointing at them)")
		} else {
			c.Guard("ORDER-commit-then-delete", "uploaded-only-on-failure", fn, eng.Entry(fn), dels, eng.PassEdges(fn, eng.ErrNotNil(e)), "chunks uploaded by this request are deleted only when the metadata write failed (otherwise the committed entry references them)")
		}
	}
	if fn := c.NeedFunc("weed/filer", "(*Filer).CreateEntry"); fn != nil {
		dc := eng.Find(fn, eng.PlainCallTo("filer.Filer).deleteChunksIfNotNew"))
		ins := eng.Find(fn, eng.PlainCallTo("filer.VirtualFilerStore).InsertEntry", "filer.FilerStore).InsertEntry"))
		upd := eng.Find(fn, eng.PlainCallTo("filer.Filer).UpdateEntry"))
		if len(dc) != 1 || len(ins) != 1 || len(upd) != 1 {
			c.Undecided("ORDER-commit-then-delete", eng.FuncName(fn), fn.Pos(), "store write / old chunk cleanup not found")
		} else {
			// on the path through each store write, the cleanup is reached only on its nil-error edge
			c.Guard("ORDER-commit-then-delete", "old-chunks-after-insert", fn, eng.After(ins[0]), dc, eng.PassEdges(fn, eng.ErrNil(eng.ErrOf(ins[0]))), "old chunks are cleaned up only after the new entry was stored")
			c.Guard("ORDER-commit-then-delete", "old-chunks-after-update", fn, eng.After(upd[0]), dc, eng.PassEdges(fn, eng.ErrNil(eng.ErrOf(upd[0]))), "old chunks are cleaned up only after the entry was updated")
		}
	}
	c.Expect("ORDER-commit-then-delete", 6)

	// ID-canonical: a chunk's identity is its canonical id string (GetFileIdString): the raw FileId string field is
	// cleared when an entry is serialized and refilled when it is read back, so comparing raw fields makes a chunk of
	// the stored old version never equal to the same chunk in the version just written
	if fn := c.NeedFunc("weed/filer", "(*Filer).deleteChunksIfNotNew"); fn != nil {
		canonical := func(v ssa.Value) bool {
			call, ok := eng.Unwrap(v).(*ssa.Call)
			return ok && eng.CalleeIs(call, "filer_pb.FileChunk).GetFileIdString")
		}
		n := 0
		for _, in := range eng.Find(fn, func(in ssa.Instruction) bool {
			switch in.(type) {
			case *ssa.MapUpdate, *ssa.Lookup:
				return true
			}
			return false
		}) {
			var key ssa.Value
			switch x := in.(type) {
			case *ssa.MapUpdate:
				key = x.Key
			case *ssa.Lookup:
				key = x.Index
			}
			if bt, ok := key.Type().Underlying().(*types.Basic); !ok || bt.Kind() != types.String {
				continue
			}
			n++
			c.Ob("ID-canonical", fmt.Sprintf("%s key#%d", eng.FuncName(fn), n), canonical(key), in.Pos(), "old and new chunks are matched by their canonical id string, not by the raw string field that serialization clears")
		}
	}
	for _, spec := range []struct{ pkg, fn string }{{"weed/filer", "DoMinusChunks"}} {
		fn := c.NeedFunc(spec.pkg, spec.fn)
		if fn == nil {
			continue
		}
		n := 0
		for _, in := range eng.Find(fn, func(in ssa.Instruction) bool {
			switch in.(type) {
			case *ssa.MapUpdate, *ssa.Lookup:
				return true
			}
			return false
		}) {
			var key ssa.Value
			switch x := in.(type) {
			case *ssa.MapUpdate:
				key = x.Key
			case *ssa.Lookup:
				key = x.Index
			}
			if bt, ok := key.Type().Underlying().(*types.Basic); !ok || bt.Kind() != types.String {
				continue
			}
			n++
			call, ok := eng.Unwrap(key).(*ssa.Call)
			c.Ob("ID-canonical", fmt.Sprintf("%s key#%d", eng.FuncName(fn), n), ok && eng.CalleeIs(call, "filer_pb.FileChunk).GetFileIdString"), in.Pos(), "chunk sets are subtracted by canonical id string")
		}
	}
	c.Expect("ID-canonical", 4)

	// ---------------------------------------------------------------- (4) GUARD-hardlink
	hardlinkTest := func(fn *ssa.Function, entryIs func(ssa.Value) bool) map[eng.Edge]bool {
		return eng.PassEdges(fn, func(cond ssa.Value) (bool, bool) {
			if call, isCall := cond.(*ssa.Call); isCall && eng.CalleeIs(call, "bytes.Equal") {
				for _, a := range call.Call.Args {
					if eng.MentionsField(a, "Entry.HardLinkId") && entryIs(eng.FieldBase(eng.Unwrap(a))) {
						return true, true // same identity as the new version
					}
				}
				return false, false
			}
			b, ok := cond.(*ssa.BinOp)
			if !ok {
				return false, false
			}
			// len(e.HardLinkId) == 0  (holds on equal)  |  != 0 (holds on false)
			if call, isCall := b.X.(*ssa.Call); isCall && eng.CalleeIs(call, "builtin.len") && eng.MentionsField(call.Call.Args[0], "Entry.HardLinkId") && entryIs(eng.FieldBase(call.Call.Args[0])) {
				if k, isK := eng.ConstInt(b.Y); isK && k == 0 {
					switch b.Op {
					case token.EQL:
						return true, true
					case token.NEQ, token.GTR:
						return true, false
					}
				}
			}
			// bytes.Equal(e.HardLinkId, <new version>.HardLinkId): the new version is the same identity, what it drops is
			// garbage for every name
			if call, isCall := b.X.(*ssa.Call); isCall && eng.CalleeIs(call, "bytes.Equal", "bytes.Compare") {
				mentionsOld := false
				for _, a := range call.Call.Args {
					if eng.MentionsField(a, "Entry.HardLinkId") && entryIs(eng.FieldBase(eng.Unwrap(a))) {
						mentionsOld = true
					}
				}
				if mentionsOld && eng.CalleeIs(call, "bytes.Compare") {
					if k, isK := eng.ConstInt(b.Y); isK && k == 0 {
						return true, b.Op == token.EQL
					}
				}
			}
			// e.HardLinkCounter <= 1
			if eng.IsField(b.X, "Entry.HardLinkCounter") && entryIs(eng.FieldBase(b.X)) {
				if k, isK := eng.ConstInt(b.Y); isK {
					switch {
					case b.Op == token.LEQ && k == 1, b.Op == token.LSS && k == 2:
						return true, true
					case b.Op == token.GTR && k == 1, b.Op == token.GEQ && k == 2:
						return true, false
					}
				}
			}
			return false, false
		})
	}
	// (a) every use of <stored entry>.Chunks that flows into a slice handed to a sink, inside package filer
	nHL := 0
	hlOrd := map[string]int{}
	for _, fn := range P.SrcFuncs("weed/filer") {
		if fn.Parent() != nil {
			continue
		}
		if len(eng.Find(fn, isSink)) == 0 && !eng.NameIs(eng.FuncName(fn), "filer.Filer).doBatchDeleteFolderMetaAndData") {
			continue
		}
		// loads of Entry.Chunks whose value reaches a sink argument or the returned chunk list
		for _, in := range eng.Find(fn, func(in ssa.Instruction) bool {
			u, ok := in.(*ssa.UnOp)
			return ok && u.Op == token.MUL && eng.FieldSpec(u.X) == "Entry.Chunks"
		}) {
			ld := in.(*ssa.UnOp)
			base := eng.FieldBase(ld)
			if !flowsToChunkDeletion(fn, ld, isSink) {
				continue
			}
			// entries that are the request's new version are not stored entries
			if eng.IsParamLike(base, "newEntry") || eng.IsParamLike(base, "entry") && eng.NameIs(eng.FuncName(fn), "filer.Filer).deleteChunksIfNotNew") {
				continue
			}
			nHL++
			hlOrd[eng.FuncName(fn)+describeBase(base)]++
			c.Touch(fn)
			entryIs := func(v ssa.Value) bool { return v == base || eng.SameExpr(v, base) || sameLoadedVar(v, base) }
			cut := hardlinkTest(fn, entryIs)
			ok := false
			if len(cut) > 0 {
				hit, _ := eng.Search(eng.Entry(fn), eng.Is(ld), eng.SearchOpt{Cut: cut})
				ok = hit == nil
			}
			c.Ob("GUARD-hardlink", fmt.Sprintf("%s chunks-of %s#%d", eng.FuncName(fn), describeBase(base), hlOrd[eng.FuncName(fn)+describeBase(base)]), ok, ld.Pos(),
				"the chunks of a stored entry are handed to chunk deletion only past a test of its hard-link identity (another name may still reference the same chunks)")
		}
	}
	if nHL < 3 {
		c.Undecided("GUARD-hardlink", "discovery", token.NoPos, fmt.Sprintf("only %d uses of a stored entry's chunks for deletion found in package filer, expected >= 3", nHL))
	}

	// ---------------------------------------------------------------- (5) GUARD / CONST
	if fn := c.NeedFunc("weed/filer", "(*Filer).DeleteEntryMetaAndData"); fn != nil {
		direct := eng.Find(fn, eng.PlainCallTo("filer.Filer).DirectDeleteChunks"))
		should := eng.PassEdges(fn, eng.BoolVal(true, func(v ssa.Value) bool { return eng.IsParamLike(v, "shouldDeleteChunks") }))
		c.Guard("GUARD-delete-data", "only-when-requested", fn, eng.Entry(fn), direct, should, "data is deleted only when the request asked for it")
		del := eng.Find(fn, eng.PlainCallTo("filer.Filer).doDeleteEntryMetaAndData"))
		if len(del) == 1 {
			c.Guard("GUARD-delete-data", "after-metadata-delete", fn, eng.Entry(fn), direct, eng.PassEdges(fn, eng.ErrNil(eng.ErrOf(del[0]))), "data is deleted only after the entry itself was removed from the store")
		} else {
			c.Undecided("GUARD-delete-data", eng.FuncName(fn), fn.Pos(), "entry deletion not found")
		}
	}
	if fn := c.NeedFunc("weed/server", "(*FilerServer).moveSelfEntry"); fn != nil {
		del := eng.Find(fn, eng.PlainCallTo("filer.Filer).DeleteEntryMetaAndData"))
		ok := len(del) == 1
		if ok {
			v, isB := eng.ConstBool(eng.Arg(del[0].(*ssa.Call), 4))
			ok = isB && !v
		}
		c.Ob("GUARD-delete-data", eng.FuncName(fn)+" rename-keeps-chunks", ok, fn.Pos(), "rename removes the old name with delete-chunks=false: the chunks now belong to the new name")
	}
	// the data-deletion flag of the gRPC / HTTP delete handlers comes from the request
	for _, h := range []struct{ rel, fn, src string }{
		{"weed/server", "(*FilerServer).DeleteEntry", "DeleteEntryRequest.IsDeleteData"},
	} {
		fn := c.NeedFunc(h.rel, h.fn)
		if fn == nil {
			continue
		}
		del := eng.Find(fn, eng.PlainCallTo("filer.Filer).DeleteEntryMetaAndData"))
		ok := len(del) == 1 && eng.MentionsField(eng.Arg(del[0].(*ssa.Call), 4), h.src)
		c.Ob("GUARD-delete-data", eng.FuncName(fn)+" flag-from-request", ok, fn.Pos(), "the data-deletion flag is the request's "+h.src)
	}

	// all chunks of the old version are handed to deletion only on the edge where there is no new version at all
	if fn := c.NeedFunc("weed/filer", "(*Filer).deleteChunksIfNotNew"); fn != nil {
		var whole []ssa.Instruction
		for _, in := range eng.Find(fn, eng.PlainCallTo("filer.Filer).DeleteChunks")) {
			arg := eng.Arg(in.(*ssa.Call), 0)
			if eng.IsField(arg, "Entry.Chunks") && eng.Mentions(arg, 4, func(v ssa.Value) bool { return eng.IsParamLike(v, "oldEntry") }) {
				whole = append(whole, in)
			}
		}
		noNew := eng.PassEdges(fn, func(cond ssa.Value) (bool, bool) {
			b, ok := cond.(*ssa.BinOp)
			if !ok || (b.Op != token.EQL && b.Op != token.NEQ) || !eng.IsNilConst(b.Y) || !eng.IsParamLike(b.X, "newEntry") {
				return false, false
			}
			return true, b.Op == token.EQL
		})
		if len(whole) == 0 {
			c.Note("deleteChunksIfNotNew never hands the whole old chunk list to deletion")
		} else {
			c.Guard("GUARD-hardlink", "whole-old-version-only-without-new-version", fn, eng.Entry(fn), whole, noNew, "every chunk of the old version is deleted only when no new version exists (otherwise only the chunks the new version dropped)")
		}
	}
}

// classifyChunkArg names the accepted provenance of a chunk list handed to a deletion sink ("" when none applies).
func classifyChunkArg(root, fn *ssa.Function, arg ssa.Value) string {
	name := eng.FuncName(root)
	mentionsCall := func(v ssa.Value, names ...string) bool {
		found := false
		for _, x := range append([]ssa.Value{v}, eng.Resolve(v)...) {
			if x != nil && x != eng.Zero && eng.Mentions(x, 10, func(y ssa.Value) bool {
				call, ok := y.(*ssa.Call)
				return ok && eng.CalleeIs(call, names...)
			}) {
				found = true
			}
		}
		return found
	}
	switch {
	// inside the sinks themselves: forwarding the parameter / its elements
	case eng.NameIs(name, "filer.Filer).DeleteChunks", "filer.Filer).DirectDeleteChunks"):
		// inside a sink: every chunk list indexed in the function is the parameter or the resolution of one of its manifest chunks
		okAll, n := true, 0
		for _, b := range fn.Blocks {
			for _, in := range b.Instrs {
				ia, ok := in.(*ssa.IndexAddr)
				if !ok || !strings.HasSuffix(ia.X.Type().String(), "filer_pb.FileChunk") {
					continue
				}
				n++
				if !(eng.IsParamLike(ia.X, "chunks") || mentionsCall(ia.X, "filer.ResolveOneChunkManifest")) {
					okAll = false
				}
			}
		}
		if okAll && n >= 2 {
			return "the sink's own argument (forwarded, with manifest chunks resolved)"
		}
	case mentionsCall(arg, "filer.MinusChunks", "filer.CompactFileChunks", "FilerServer).cleanupChunks"):
		return "garbage: chunks of the old version that the new version no longer references"
	}
	if eng.NameIs(name, "filer.Filer).deleteChunksIfNotNew") {
		// toDelete: appended only on the not-found edge of the lookup in the new entry's chunk ids; or oldEntry.Chunks when there is no new entry
		if eng.MentionsField(arg, "Entry.Chunks") && eng.Mentions(arg, 6, func(y ssa.Value) bool { return eng.IsParamLike(y, "oldEntry") }) {
			return "all chunks of the old entry (no new version)"
		}
		ok := false
		for _, b := range fn.Blocks {
			for _, in := range b.Instrs {
				call, isCall := in.(*ssa.Call)
				if !isCall || !eng.CalleeIs(call, "builtin.append") {
					continue
				}
				notFound := eng.FailEdges(fn, func(cond ssa.Value) (bool, bool) {
					ex, isEx := cond.(*ssa.Extract)
					if !isEx || ex.Index != 1 {
						return false, false
					}
					_, isLk := ex.Tuple.(*ssa.Lookup)
					return isLk, true
				})
				if len(notFound) > 0 {
					if hit, _ := eng.Search(eng.Entry(fn), eng.Is(call), eng.SearchOpt{Cut: notFound}); hit == nil {
						ok = true
					} else {
						return ""
					}
				}
			}
		}
		if ok {
			return "garbage: old chunks not found among the new entry's chunk ids"
		}
	}
	if eng.NameIs(name, "filer.Filer).DeleteEntryMetaAndData") {
		return "chunks collected from the entry (and sub-entries) this request deletes"
	}
	if eng.NameIs(name, "server.FilerServer).saveMetaData", "server.FilerServer).encrypt") {
		// the argument is the chunk list of the entry that was just refused by the store
		// ... which must not be the list of an entry that was read from the store (an append merges the stored entry's
		// chunks into it; they stay referenced by the unchanged stored entry when the write fails)
		stored := false
		eng.Walk(arg, 8, func(y ssa.Value) bool {
			if eng.FieldSpec(y) == "Entry.Chunks" {
				if base := eng.FieldBase(y); base != nil {
					for _, b := range eng.Resolve(base) {
						if eng.MentionsCall(b, "filer.Filer).FindEntry") {
							stored = true
						}
					}
				}
			}
			return true
		})
		if stored {
			return ""
		}
		if eng.Mentions(arg, 8, func(y ssa.Value) bool { return eng.IsParamLike(y, "fileChunks") }) || eng.MentionsField(arg, "Entry.Chunks") {
			return "chunks uploaded by this request (metadata write failed)"
		}
	}
	return ""
}

// flowsToChunkDeletion: the loaded chunk slice is appended into / passed as a value that reaches a sink argument or the function's returned chunk list.
func flowsToChunkDeletion(fn *ssa.Function, ld *ssa.UnOp, isSink eng.InstrPred) bool {
	// forward closure over append / phi / stores to locals
	seen := map[ssa.Value]bool{}
	work := []ssa.Value{ld}
	for len(work) > 0 {
		v := work[0]
		work = work[1:]
		if seen[v] {
			continue
		}
		seen[v] = true
		refs := v.Referrers()
		if refs == nil {
			continue
		}
		for _, r := range *refs {
			switch x := r.(type) {
			case *ssa.Call:
				if isSink(x) {
					return true
				}
				if eng.CalleeIs(x, "builtin.append") {
					work = append(work, x)
				}
			case *ssa.Phi:
				work = append(work, x)
			case *ssa.Slice:
				work = append(work, x)
			case *ssa.IndexAddr:
				if x.X == v {
					work = append(work, x)
				}
			case *ssa.UnOp:
				if x.Op == token.MUL && x.X == v {
					if _, isIA := v.(*ssa.IndexAddr); isIA {
						work = append(work, x) // element load
					}
				}
			case *ssa.Store:
				// element packed into a variadic argument: follow the slice of the packing array
				if ia, ok := x.Addr.(*ssa.IndexAddr); ok && x.Val == v {
					if al, ok := ia.X.(*ssa.Alloc); ok {
						for _, rr := range *al.Referrers() {
							if sl, ok := rr.(*ssa.Slice); ok {
								work = append(work, sl)
							}
						}
					}
				}
				if al, ok := x.Addr.(*ssa.Alloc); ok && x.Val == v {
					for _, rr := range *al.Referrers() {
						if u, ok := rr.(*ssa.UnOp); ok && u.Op == token.MUL {
							work = append(work, u)
						}
					}
				}
			case *ssa.Return:
				return true
			}
		}
	}
	return false
}

func sameLoadedVar(a, b ssa.Value) bool {
	ua, ok1 := a.(*ssa.UnOp)
	ub, ok2 := b.(*ssa.UnOp)
	return ok1 && ok2 && ua.Op == token.MUL && ub.Op == token.MUL && ua.X == ub.X
}

func describeBase(v ssa.Value) string {
	if n := eng.ParamName(v); n != "" {
		return n
	}
	if u, ok := v.(*ssa.UnOp); ok {
		if al, ok := u.X.(*ssa.Alloc); ok && al.Comment != "" {
			return al.Comment
		}
	}
	if ph, ok := v.(*ssa.Phi); ok && ph.Comment != "" {
		return ph.Comment
	}
	switch x := v.(type) {
	case *ssa.Extract:
		if call, ok := x.Tuple.(*ssa.Call); ok {
			return fmt.Sprintf("result-of-%s", shortName(eng.Callee(call)))
		}
	case *ssa.Call:
		return fmt.Sprintf("result-of-%s", shortName(eng.Callee(x)))
	case *ssa.UnOp:
		if ia, ok := x.X.(*ssa.IndexAddr); ok {
			return "element-of-" + describeBase(ia.X)
		}
	}
	return "value:" + eng.TypeName(v.Type())
}
