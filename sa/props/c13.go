package props

import (
	"fmt"
	"go/token"
	"go/types"
	"strings"

	"golang.org/x/tools/go/ssa"

	"verif/sa/eng"
)

func init() {
	register(&Prop{
		ID:  "C13",
		Run: runC13,
		Explanation: "Static decision of the structure that keeps file keys and volume ids unique: (1) LOCK: the counters of the memory and etcd sequencers are read and written under sequenceLock on the assignment and max-report paths; (2) PARAM/ORDER: every Sequencer.NextFileId implementation consumes `count` — it returns the counter value read before the counter is advanced by exactly count; SetMax only ever raises the counter; " +
			"(3) GUARD-refill: the etcd sequencer serves [current, current+count) from its local window only on the edge where current+count stays below the reserved maximum, otherwise it first reserves a new batch; (4) ORDER-heartbeat: in every heartbeat iteration the sequencer is raised to the reported maximum key before any volume / EC shard registration of that iteration; " +
			"(5) PROV: PickForWrite advances the sequencer by the count it returns, the assign handlers report that count, and NextVolumeId returns the new id only after the raft command was applied successfully. Leader change, etcd compare-and-swap semantics and schedules are not decided.",
		Assumptions: []string{"lock identity is per type, not per object", "raft Do applies the command on a quorum before returning nil"},
		Trusted:     baseTrusted,
	})
}

func runC13(c *eng.Ctx) {
	P := c.P
	// ---------------------------------------------------------------- (1) LOCK
	c.CheckLocks("LOCK-sequence", &eng.LockSpec{
		Mutex:  "MemorySequencer.sequenceLock",
		Fields: []string{"MemorySequencer.counter"},
		Pkg:    "weed/sequence",
		Exempt: map[string]string{
			"weed/sequence.NewMemorySequencer":      "constructor",
			"(*weed/sequence.MemorySequencer).Peek": "status-page getter, not on the assignment path",
		},
	})
	c.CheckLocks("LOCK-sequence", &eng.LockSpec{
		Mutex:  "EtcdSequencer.sequenceLock",
		Fields: []string{"EtcdSequencer.currentSeqId", "EtcdSequencer.maxSeqId"},
		Pkg:    "weed/sequence",
		Exempt: map[string]string{
			"weed/sequence.NewEtcdSequencer":        "constructor",
			"(*weed/sequence.EtcdSequencer).Peek":   "status-page getter, not on the assignment path",
			"(*weed/sequence.EtcdSequencer).GetMax": "status-page getter, not on the assignment path",
		},
	})
	c.Expect("LOCK-sequence", 4)

	// ---------------------------------------------------------------- (2) PARAM / ORDER over all implementations
	pk := P.Pkg("weed/sequence")
	var impls []*ssa.Function
	if pk != nil {
		ifaceObj := pk.Types.Scope().Lookup("Sequencer")
		if ifaceObj != nil {
			iface, _ := ifaceObj.Type().Underlying().(*types.Interface)
			for _, name := range pk.Types.Scope().Names() {
				tn, ok := pk.Types.Scope().Lookup(name).(*types.TypeName)
				if !ok || iface == nil {
					continue
				}
				pt := types.NewPointer(tn.Type())
				if _, isIface := tn.Type().Underlying().(*types.Interface); isIface || !types.Implements(pt, iface) {
					continue
				}
				if fn := P.Func("weed/sequence", "(*"+name+").NextFileId"); fn != nil {
					impls = append(impls, fn)
				}
			}
		}
	}
	if len(impls) < 3 {
		c.Undecided("PARAM-count", "implementations", token.NoPos, fmt.Sprintf("found %d Sequencer implementations, expected >= 3", len(impls)))
	}
	stateField := map[string]string{"MemorySequencer": "MemorySequencer.counter", "EtcdSequencer": "EtcdSequencer.currentSeqId"}
	for _, fn := range impls {
		c.Touch(fn)
		if len(fn.Params) < 2 {
			continue
		}
		count := fn.Params[1]
		used := count.Referrers() != nil && len(*count.Referrers()) > 0
		c.Ob("PARAM-count", eng.FuncName(fn), used, fn.Pos(), "the number of keys requested influences the sequencer (consecutive assignments of n keys each must not overlap)")
		sf := stateField[recvTypeName(fn)]
		if sf == "" {
			if used {
				c.Undecided("ORDER-next", eng.FuncName(fn), fn.Pos(), "unknown sequencer implementation: state field not in the table")
			}
			continue
		}
		// returned value: load of the state field; store: that load + count; load precedes the store
		var adv []*ssa.Store
		for _, st := range eng.Find(fn, eng.StoreToField(sf)) {
			s := st.(*ssa.Store)
			if b, ok := s.Val.(*ssa.BinOp); ok && b.Op == token.ADD && eng.IsField(b.X, sf) && b.Y == ssa.Value(count) {
				adv = append(adv, s)
			}
		}
		okRet := len(adv) == 1
		detail := "the counter is advanced by exactly count once"
		if okRet {
			for _, r := range eng.Find(fn, eng.IsReturn) {
				if r.Block() == fn.Recover {
					continue // synthetic exit after a recovered panic
				}
				for _, v := range eng.Resolve(r.(*ssa.Return).Results[0]) {
					if k, isK := eng.ConstInt(v); isK && k == 0 {
						continue // error exit of the etcd refill
					}
					ld, isLoad := v.(*ssa.UnOp)
					if !isLoad || !eng.IsField(ld, sf) || !eng.Dominates(ld, adv[0]) {
						okRet = false
						detail = "a returned value is not the counter read before the advance"
						continue
					}
					// no other store to the state field between the load and the advance
					for _, st := range eng.Find(fn, eng.StoreToField(sf)) {
						if st != ssa.Instruction(adv[0]) && eng.CanReach(ld, st) && eng.Dominates(ld, st) {
							okRet = false
							detail = "the counter is overwritten between the read that is returned and the advance"
						}
					}
				}
			}
		}
		c.Ob("ORDER-next", eng.FuncName(fn), okRet, fn.Pos(), "returns the counter value read before advancing it by count: "+detail)
	}
	c.Expect("PARAM-count", 3)
	c.Expect("ORDER-next", 2)

	// SetMax only raises
	type mono struct{ fn, field, cmpField string }
	for _, m := range []mono{{"(*MemorySequencer).SetMax", "MemorySequencer.counter", "MemorySequencer.counter"}, {"(*EtcdSequencer).SetMax", "EtcdSequencer.currentSeqId", "EtcdSequencer.maxSeqId"}} {
		fn := c.NeedFunc("weed/sequence", m.fn)
		if fn == nil {
			continue
		}
		sts := eng.Find(fn, eng.StoreToField(m.field))
		raise := eng.Cmp(func(v ssa.Value) bool { return eng.IsField(v, m.cmpField) }, func(v ssa.Value) bool { return eng.IsParamLike(v, "seenValue") }, token.LSS, token.LEQ)
		c.Guard("MONO-setmax", "raise-only", fn, eng.Entry(fn), sts, eng.PassEdges(fn, raise), "the counter is replaced only when the reported key is not below it")
	}

	// the local window [currentSeqId, maxSeqId) of the etcd sequencer only ever covers ids this master reserved in etcd:
	// whenever the upper bound is replaced, the lower bound is replaced in the same step by a value derived from the same
	// reservation (lifting the upper bound alone would add ids other masters reserved to the window)
	nWin := 0
	for _, fn := range P.SrcFuncs("weed/sequence") {
		if strings.HasPrefix(fn.Name(), "NewEtcdSequencer") {
			continue
		}
		for i, in := range eng.Find(fn, eng.StoreToField("EtcdSequencer.maxSeqId")) {
			st := in.(*ssa.Store)
			ok := false
			for _, o := range st.Block().Instrs {
				if os, isSt := o.(*ssa.Store); isSt && eng.IsField(os.Addr, "EtcdSequencer.currentSeqId") && (os.Val == st.Val || eng.MentionsValue(os.Val, st.Val)) {
					ok = true
				}
			}
			nWin++
			c.Touch(fn)
			c.Ob("GUARD-refill", fmt.Sprintf("%s window-replaced-as-a-whole#%d", eng.FuncName(fn), i), ok, st.Pos(),
				"the upper bound of the local id window is replaced together with the lower bound, both from the same reservation")
		}
	}
	if nWin < 2 {
		c.Undecided("GUARD-refill", "window-replaced-as-a-whole", token.NoPos, fmt.Sprintf("only %d updates of EtcdSequencer.maxSeqId found (expected 2)", nWin))
	}

	// volume ids: NextVolumeId (read the maximum, add one, commit through raft) is serialised only by the accessLock of
	// the VolumeGrowth value it is called through, so all growth of a master must go through one shared value
	{
		nG := 0
		for _, fn := range P.AllSrcFuncs() {
			for i, in := range eng.Find(fn, eng.CallTo("topology.VolumeGrowth).GrowByCountAndType", "topology.VolumeGrowth).AutomaticGrowByType")) {
				if fn.Pkg != nil && strings.HasSuffix(fn.Pkg.Pkg.Path(), "weed/topology") {
					continue // the methods calling each other on their own receiver
				}
				nG++
				c.Touch(fn)
				recv := eng.RecvOf(in.(ssa.CallInstruction))
				c.Ob("WHO-growth", fmt.Sprintf("%s shared-growth#%d", eng.FuncName(fn), i), recv != nil && eng.IsField(eng.Unwrap(recv), "MasterServer.vg"), in.Pos(),
					"volumes are grown through the master's one VolumeGrowth (MasterServer.vg), whose lock serialises the reservation of the next volume id")
			}
		}
		for _, cs := range P.CallersOf(P.Func("weed/topology", "NewDefaultVolumeGrowth")) {
			fn := cs.Parent()
			nG++
			c.Touch(fn)
			okStore := false
			if v := cs.Value(); v != nil {
				for _, r := range *v.Referrers() {
					if st, ok := r.(*ssa.Store); ok && eng.IsField(st.Addr, "MasterServer.vg") {
						okStore = true
					}
				}
			}
			c.Ob("WHO-growth", eng.FuncName(fn)+" creates-the-shared-growth", okStore && eng.NameIs(eng.FuncName(fn), "weed_server.NewMasterServer", "server.NewMasterServer"), cs.Pos(),
				"the only VolumeGrowth of a master is the one created for MasterServer.vg at start-up")
		}
		if nG < 3 {
			c.Undecided("WHO-growth", "discovery", token.NoPos, fmt.Sprintf("only %d growth sites found (expected 3)", nG))
		}
	}

	// the next volume id is one above the largest id the master has heard of: every volume that becomes known through a
	// heartbeat (read-only ones included) raises that maximum
	if fn := c.NeedFunc("weed/topology", "(*Disk).doAddOrUpdateVolume"); fn != nil {
		raise := eng.CallTo("topology.NodeImpl).UpAdjustMaxVolumeId", "topology.Node).UpAdjustMaxVolumeId", "topology.Disk).UpAdjustMaxVolumeId")
		var newStores []ssa.Instruction
		notFound := eng.FailEdges(fn, eng.BoolVal(true, func(v ssa.Value) bool {
			ex, ok := v.(*ssa.Extract)
			if !ok || ex.Index != 1 {
				return false
			}
			lk, isL := ex.Tuple.(*ssa.Lookup)
			return isL && lk.CommaOk && eng.MentionsField(lk.X, "Disk.volumes")
		}))
		for _, st := range startsOf(notFound) {
			if hit, _ := eng.Search(st, func(in ssa.Instruction) bool {
				mu, ok := in.(*ssa.MapUpdate)
				return ok && eng.MentionsField(mu.Map, "Disk.volumes")
			}, eng.SearchOpt{}); hit != nil {
				newStores = append(newStores, hit)
			}
		}
		if len(newStores) == 0 {
			c.Undecided("ORDER-max-volume-id", eng.FuncName(fn), fn.Pos(), "registration of a new volume not found")
		}
		c.AfterAll("ORDER-max-volume-id", "every-new-volume-raises-the-maximum", fn, newStores, raise, nil,
			"a volume registered for the first time raises the largest known volume id on every path (the next id handed out lies above every id in use)")
	}

	c.CheckLockPairs("PAIR-sequence", "weed/sequence", "MemorySequencer.sequenceLock", nil)
	c.CheckLockPairs("PAIR-sequence", "weed/sequence", "EtcdSequencer.sequenceLock", nil)
	c.Expect("PAIR-sequence", 4)

	// ---------------------------------------------------------------- (3) GUARD-refill
	if fn := c.NeedFunc("weed/sequence", "(*EtcdSequencer).NextFileId"); fn != nil && len(fn.Params) > 1 {
		count := fn.Params[1]
		var adv []ssa.Instruction
		for _, st := range eng.Find(fn, eng.StoreToField("EtcdSequencer.currentSeqId")) {
			if b, ok := st.(*ssa.Store).Val.(*ssa.BinOp); ok && b.Op == token.ADD && b.Y == ssa.Value(count) {
				adv = append(adv, st)
			}
		}
		need := func(cond ssa.Value) (bool, bool) {
			b, ok := cond.(*ssa.BinOp)
			if !ok {
				return false, false
			}
			sum := func(v ssa.Value) bool {
				a, ok := v.(*ssa.BinOp)
				return ok && a.Op == token.ADD && ((eng.IsField(a.X, "EtcdSequencer.currentSeqId") && a.Y == ssa.Value(count)) || (eng.IsField(a.Y, "EtcdSequencer.currentSeqId") && a.X == ssa.Value(count)))
			}
			isMax := func(v ssa.Value) bool { return eng.IsField(v, "EtcdSequencer.maxSeqId") }
			switch {
			case sum(b.X) && isMax(b.Y):
				switch b.Op {
				case token.GEQ, token.GTR:
					return true, true // refill needed on the true edge
				case token.LSS, token.LEQ:
					return true, false
				}
			case isMax(b.X) && sum(b.Y):
				switch b.Op {
				case token.LEQ, token.LSS:
					return true, true
				case token.GEQ, token.GTR:
					return true, false
				}
			}
			return false, false
		}
		refill := eng.StoreToField("EtcdSequencer.maxSeqId")
		if len(adv) != 1 {
			c.Undecided("GUARD-refill", eng.FuncName(fn), fn.Pos(), "advance of the local counter not found")
		} else {
			cut := eng.FailEdges(fn, need)
			ok := len(cut) > 0
			var path []int
			var hit ssa.Instruction
			if ok {
				hit, path = eng.Search(eng.Entry(fn), eng.Is(adv[0]), eng.SearchOpt{Cut: cut, Barrier: refill})
				ok = hit == nil
			}
			c.Ob("GUARD-refill", eng.FuncName(fn)+" window", ok, adv[0].Pos(), "keys are served from the local window without a new reservation only when current+count stays within the reserved maximum"+pathNote(P, fn, hit, path))
			// the reservation covers the request: reqSteps is raised by count when count exceeds the default step
			res := eng.Find(fn, eng.PlainCallTo("sequence.batchGetSequenceFromEtcd"))
			okRes := false
			if len(res) == 1 {
				for _, v := range eng.Resolve(eng.Arg(res[0].(*ssa.Call), 1)) {
					if eng.MentionsValue(v, count) {
						okRes = true
					}
				}
			}
			c.Ob("GUARD-refill", eng.FuncName(fn)+" reservation-covers-count", okRes, fn.Pos(), "the batch reserved from etcd grows with count when count exceeds the default step")
		}
	}

	// a sequencer that cannot reserve ids answers 0 (the etcd sequencer's error path); the assignment built on it
	// succeeds only past the non-zero edge
	if fn := c.NeedFunc("weed/topology", "(*Topology).PickForWrite"); fn != nil {
		next := eng.Find(fn, func(in ssa.Instruction) bool {
			call, ok := in.(*ssa.Call)
			return ok && call.Call.IsInvoke() && call.Call.Method.Name() == "NextFileId"
		})
		if len(next) != 1 {
			c.Undecided("GUARD-refill", eng.FuncName(fn), fn.Pos(), "sequencer call not found")
		} else {
			id := next[0].(*ssa.Call)
			nonZero := eng.PassEdges(fn, func(cond ssa.Value) (bool, bool) {
				b, ok := cond.(*ssa.BinOp)
				if !ok || b.X != ssa.Value(id) || !isZero(b.Y) {
					return false, false
				}
				switch b.Op {
				case token.NEQ, token.GTR:
					return true, true
				case token.EQL:
					return true, false
				}
				return false, false
			})
			var succ []ssa.Instruction
			for _, r := range eng.Find(fn, eng.IsReturn) {
				ret := r.(*ssa.Return)
				if eng.IsNilConst(ret.Results[len(ret.Results)-1]) && eng.Mentions(ret.Results[0], 6, func(v ssa.Value) bool { return v == ssa.Value(id) }) {
					succ = append(succ, r)
				}
			}
			if len(succ) == 0 {
				c.Undecided("GUARD-refill", eng.FuncName(fn)+" success", fn.Pos(), "success return built from the sequencer's answer not found")
			} else {
				c.Guard("GUARD-refill", "no-assignment-without-a-reserved-id", fn, eng.Entry(fn), succ, nonZero, "a file id is handed out only when the sequencer reserved one (0 = reservation failed)")
			}
		}
	}
	for _, name := range []string{"(*EtcdSequencer).NextFileId"} {
		if fn := c.NeedFunc("weed/sequence", name); fn != nil {
			batch := eng.Find(fn, eng.PlainCallTo("sequence.batchGetSequenceFromEtcd"))
			if len(batch) == 1 {
				e := eng.ErrOf(batch[0])
				okZero := len(eng.PassEdges(fn, eng.ErrNotNil(e))) > 0
				for _, st := range startsOf(eng.PassEdges(fn, eng.ErrNotNil(e))) {
					if hit, _ := eng.Search(st, func(in ssa.Instruction) bool {
						r, ok := in.(*ssa.Return)
						if !ok {
							return false
						}
						for _, v := range eng.Resolve(r.Results[0]) {
							if !isZero(v) {
								return true
							}
						}
						return false
					}, eng.SearchOpt{}); hit != nil {
						okZero = false
					}
				}
				c.Ob("GUARD-refill", eng.FuncName(fn)+" failed-reservation-answers-zero", okZero, batch[0].Pos(), "when the batch cannot be reserved the sequencer answers 0 and serves nothing from a window it does not own")
			}
		}
	}

	// ---------------------------------------------------------------- (4) ORDER-heartbeat
	if fn := c.NeedFunc("weed/server", "(*MasterServer).SendHeartbeat"); fn != nil {
		setMax := eng.PlainCallTo("sequence.Sequencer).SetMax")
		regs := eng.Find(fn, eng.PlainCallTo("topology.Topology).SyncDataNodeRegistration", "topology.Topology).IncrementalSyncDataNodeRegistration", "topology.Topology).SyncDataNodeEcShards", "topology.Topology).IncrementalSyncDataNodeEcShards"))
		recv := eng.Find(fn, func(in ssa.Instruction) bool {
			call, ok := in.(*ssa.Call)
			return ok && call.Call.IsInvoke() && call.Call.Method.Name() == "Recv"
		})
		sm := eng.Find(fn, setMax)
		if len(regs) < 4 || len(recv) != 1 || len(sm) == 0 {
			c.Undecided("ORDER-heartbeat", eng.FuncName(fn), fn.Pos(), fmt.Sprintf("registration calls (%d), Recv (%d) or SetMax (%d) not found", len(regs), len(recv), len(sm)))
		} else {
			for i, r := range regs {
				hit, path := eng.Search(eng.After(recv[0]), eng.Is(r), eng.SearchOpt{Barrier: setMax})
				c.Sites++
				c.Ob("ORDER-heartbeat", fmt.Sprintf("%s registration#%d %s", eng.FuncName(fn), i, shortName(eng.Callee(r.(ssa.CallInstruction)))), hit == nil, r.Pos(),
					"between receiving a heartbeat and registering its volumes / shards the sequencer is raised to the reported maximum key"+pathNote(P, fn, hit, path))
			}
			for i, s := range sm {
				ok := eng.MentionsField(eng.Arg(s.(*ssa.Call), 0), "Heartbeat.MaxFileKey") && eng.MentionsValue(eng.Arg(s.(*ssa.Call), 0), eng.ResultOf(recv[0], 0))
				c.Ob("ORDER-heartbeat", fmt.Sprintf("%s SetMax#%d argument", eng.FuncName(fn), i), ok, s.Pos(), "the value reported is the MaxFileKey of the heartbeat just received")
			}
		}
	}

	// ---------------------------------------------------------------- (5) PROV
	if fn := c.NeedFunc("weed/topology", "(*Topology).PickForWrite"); fn != nil {
		pick := eng.Find(fn, eng.PlainCallTo("topology.VolumeLayout).PickForWrite"))
		next := eng.Find(fn, eng.PlainCallTo("sequence.Sequencer).NextFileId"))
		if len(pick) != 1 || len(next) != 1 {
			c.Undecided("PROV-count", eng.FuncName(fn), fn.Pos(), "layout pick / NextFileId not found")
		} else {
			cnt := eng.ResultOf(pick[0], 1)
			c.Ob("PROV-count", eng.FuncName(fn)+" advance-by-picked-count", cnt != nil && eng.SameVar(eng.Arg(next[0].(*ssa.Call), 0), cnt), next[0].Pos(), "the sequencer is advanced by the count the layout granted")
			okRet := true
			for _, r := range successReturns(fn) {
				if !eng.SameVar(r.(*ssa.Return).Results[1], cnt) {
					okRet = false
				}
			}
			c.Ob("PROV-count", eng.FuncName(fn)+" returns-picked-count", okRet && cnt != nil, fn.Pos(), "the count reported to the caller is the count the sequencer was advanced by")
			c.Guard("PROV-count", "next-after-pick", fn, eng.Entry(fn), next, eng.PassEdges(fn, eng.ErrNil(eng.ErrOf(pick[0]))), "keys are consumed only when a writable volume was picked")
		}
		for i, call := range P.CallersOf(fn) {
			caller := call.Parent()
			c.Touch(caller)
			cnt := eng.ResultOf(call.(ssa.Instruction), 1)
			ok := false
			for _, g := range eng.WithAnon(caller) {
				for _, b := range g.Blocks {
					for _, in := range b.Instrs {
						if st, isSt := in.(*ssa.Store); isSt && strings.HasSuffix(eng.FieldSpec(st.Addr), ".Count") && cnt != nil && eng.MentionsValue(st.Val, cnt) {
							ok = true
						}
					}
				}
			}
			c.Ob("PROV-count", fmt.Sprintf("assign handler#%d %s reports-count", i, eng.FuncName(caller)), ok, eng.InstrPos(call.(ssa.Instruction)), "the assign response carries the count returned by PickForWrite")
		}
	}
	if fn := c.NeedFunc("weed/topology", "(*Topology).NextVolumeId"); fn != nil {
		do := eng.Find(fn, func(in ssa.Instruction) bool {
			call, ok := in.(*ssa.Call)
			return ok && call.Call.IsInvoke() && call.Call.Method.Name() == "Do"
		})
		if len(do) != 1 {
			c.Undecided("PROV-count", eng.FuncName(fn), fn.Pos(), "raft Do not found")
		} else {
			var succ []ssa.Instruction
			for _, r := range eng.Find(fn, eng.IsReturn) {
				if eng.ReturnsNilError(r.(*ssa.Return)) {
					succ = append(succ, r)
				}
			}
			c.Guard("PROV-count", "id-after-raft", fn, eng.Entry(fn), succ, eng.PassEdges(fn, eng.ErrNil(eng.ErrOf(do[0]))), "a new volume id is handed out only after the raft command raising the maximum was applied")
			okNext := true
			for _, r := range succ {
				if !eng.MentionsCall(r.(*ssa.Return).Results[0], "needle.VolumeId).Next") {
					okNext = false
				}
			}
			cmd := eng.Find(fn, eng.PlainCallTo("topology.NewMaxVolumeIdCommand"))
			okCmd := len(cmd) == 1 && len(succ) > 0 && eng.SameVar(eng.Arg(cmd[0].(*ssa.Call), 0), succ[0].(*ssa.Return).Results[0])
			c.Ob("PROV-count", eng.FuncName(fn)+" id-is-max-plus-one", okNext && okCmd && len(succ) > 0, fn.Pos(), "the id returned is the successor of the current maximum and is the id recorded by the raft command")
		}
	}
	c.Expect("ORDER-heartbeat", 5)
	c.Expect("PROV-count", 6)
}

func shortName(s string) string {
	if i := strings.LastIndex(s, "."); i >= 0 {
		return s[i+1:]
	}
	return s
}
