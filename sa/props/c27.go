package props

import (
	"fmt"
	"go/token"
	"strings"

	"golang.org/x/tools/go/ssa"

	"verif/sa/eng"
)

func init() {
	register(&Prop{
		ID:  "C27",
		Run: runC27,
		Explanation: "Static decision of the structural conditions of S3 listing pagination: (1) GUARD-uploads: in the listing walk a directory entry is emitted, descended into or probed only on the edge where its name differs from the multipart staging folder, and that literal is the one the multipart code builds its folder from; (2) GUARD-maxkeys: an entry is emitted only while fewer than max-keys were counted, the filer is asked for max-keys+1 entries starting strictly after the marker under the requested prefix, and the page is marked truncated exactly when a further entry arrives after the page is full; " +
			"(3) ORDER-resume: after resuming inside a sub-directory named by the marker, the walk always continues with the parent directory's own listing (the only place where truncation at the page boundary is detected); errors of the resume and of recursive descents are propagated; (4) PROV-page: the next marker is cleared when the page is not truncated, V2 reports it as continuation token and resumes from the continuation token or start-after. Completeness and exactly-once enumeration over arbitrary trees are not decided. Also decided: with a continuation token the marker is the token; start-after is used only on the edge where the token is empty.",
		Assumptions: []string{"the filer returns entries of one directory in name order, strictly after StartFromFileName when InclusiveStartFrom is false"},
		Trusted:     baseTrusted,
	})
}

func runC27(c *eng.Ctx) {
	pagingEnds(c, "CURSOR-filer-pages")

	// the pages an S3 listing is assembled from come from the filer's paged listing (FilerServer.ListEntries ->
	// StreamListDirectoryEntries -> doListValidEntries): every refill inside those loops continues behind the last name
	// seen, otherwise keys are enumerated twice
	if n := cursorAdvances(c, "CURSOR-filer-pages", map[string]bool{"ListEntries": true, "StreamListDirectoryEntries": true, "doListValidEntries": true}); n < 3 {
		c.Undecided("CURSOR-filer-pages", "discovery", token.NoPos, fmt.Sprintf("only %d paged listing loops found under the S3 listing (expected 3)", n))
	}
	P := c.P
	fn := c.NeedFunc("weed/s3api", "(*S3ApiServer).doListFilerEntries")
	if fn == nil {
		return
	}
	isCb := func(in ssa.Instruction) bool {
		call, ok := in.(*ssa.Call)
		return ok && eng.ParamName(call.Call.Value) == "eachEntryFn"
	}
	recur := eng.PlainCallTo("s3api.S3ApiServer).doListFilerEntries")
	probe := eng.PlainCallTo("s3api.S3ApiServer).isDirectoryAllEmpty")
	// ---------------------------------------------------------------- (1) GUARD-uploads
	isDir := eng.PassEdges(fn, eng.BoolVal(true, func(v ssa.Value) bool { return eng.IsField(v, "Entry.IsDirectory") }))
	var lit string
	notUploads := eng.PassEdges(fn, func(cond ssa.Value) (bool, bool) {
		b, ok := cond.(*ssa.BinOp)
		if !ok || (b.Op != token.NEQ && b.Op != token.EQL) || !eng.IsField(b.X, "Entry.Name") {
			return false, false
		}
		s, isS := eng.ConstString(b.Y)
		if !isS || !strings.Contains(s, "uploads") {
			return false, false
		}
		lit = s
		return true, b.Op == token.NEQ
	})
	starts := startsOf(isDir)
	if len(starts) == 0 {
		c.Undecided("GUARD-uploads", eng.FuncName(fn), fn.Pos(), "directory branch not found")
	}
	for _, kind := range []struct {
		name string
		pred eng.InstrPred
		what string
	}{
		{"emit", isCb, "reported to the client"}, {"descend", recur, "descended into"}, {"probe", probe, "probed (and possibly removed) as an empty folder"},
	} {
		ok := len(notUploads) > 0
		var where ssa.Instruction
		for _, st := range starts {
			// within this iteration only: stop at the next Recv
			hit, _ := eng.Search(st, kind.pred, eng.SearchOpt{Cut: notUploads, Barrier: func(in ssa.Instruction) bool {
				call, isCall := in.(*ssa.Call)
				return isCall && call.Call.IsInvoke() && call.Call.Method.Name() == "Recv"
			}})
			if hit != nil {
				ok = false
				where = hit
			}
		}
		pos := fn.Pos()
		if where != nil {
			pos = eng.InstrPos(where)
		}
		c.Ob("GUARD-uploads", eng.FuncName(fn)+" directory-"+kind.name, ok, pos, "the multipart staging folder is never "+kind.what+" by a listing")
	}
	// the literal agrees with the folder the multipart code uses
	if gu := c.NeedFunc("weed/s3api", "(*S3ApiServer).genUploadsFolder"); gu != nil {
		found := ""
		for _, b := range gu.Blocks {
			for _, in := range b.Instrs {
				var ops []*ssa.Value
				for _, op := range in.Operands(ops) {
					if *op == nil {
						continue
					}
					if s, isS := eng.ConstString(*op); isS && strings.Contains(s, "uploads") {
						found = s
					}
				}
				if call, ok := in.(*ssa.Call); ok {
					for _, a := range call.Call.Args {
						for _, v := range eng.VarargValues(a) {
							if s, isS := eng.ConstString(eng.Unwrap(v)); isS && strings.Contains(s, "uploads") {
								found = s
							}
						}
					}
				}
			}
		}
		c.Ob("GUARD-uploads", "staging-folder-literal", lit != "" && strings.Contains(found, lit), gu.Pos(), fmt.Sprintf("the listing skips %q, the multipart code stages uploads under %q", lit, found))
	}
	c.Expect("GUARD-uploads", 4)

	// ---------------------------------------------------------------- (2) GUARD-maxkeys
	isMax := func(v ssa.Value) bool {
		if eng.IsParamLike(v, "maxKeys") {
			return true
		}
		// maxKeys is reassigned after the sub-directory resume: the loop-independent phi of the parameter
		phi, ok := v.(*ssa.Phi)
		return ok && phi.Comment == "maxKeys"
	}
	isCounter := func(v ssa.Value) bool {
		if phi, ok := v.(*ssa.Phi); ok && phi.Comment == "counter" {
			return true
		}
		// a named result in a function with defer lives in a cell
		u, ok := v.(*ssa.UnOp)
		if !ok || u.Op != token.MUL {
			return false
		}
		al, ok := u.X.(*ssa.Alloc)
		return ok && al.Comment == "counter"
	}
	full := eng.Cmp(isCounter, isMax, token.GEQ)
	cbs := eng.Find(fn, isCb)
	if len(cbs) < 3 {
		c.Undecided("GUARD-maxkeys", eng.FuncName(fn), fn.Pos(), "emission sites not found")
	}
	c.Guard("GUARD-maxkeys", "emit-only-below-max-keys", fn, eng.Entry(fn), cbs, eng.FailEdges(fn, full), "an entry is emitted only while fewer than max-keys entries were counted")
	// truncated exactly when another entry arrives with the page full
	for _, st := range startsOf(eng.PassEdges(fn, full)) {
		okT := true
		hit, _ := eng.Search(st, func(in ssa.Instruction) bool {
			r, ok := in.(*ssa.Return)
			if !ok {
				return false
			}
			for _, v := range eng.ResolveFrom(r.Results[1], nil) {
				if t, isT := eng.ConstBool(v); isT && t {
					return false
				}
			}
			return true
		}, eng.SearchOpt{})
		if hit != nil {
			okT = false
		}
		c.Ob("GUARD-maxkeys", eng.FuncName(fn)+" truncated-when-more-arrives", okT, fn.Pos(), "when the filer delivers an entry beyond the full page, the page is reported truncated")
	}
	// request shape
	lim := eng.Find(fn, eng.StoreToField("ListEntriesRequest.Limit"))
	okLim := false
	for _, st := range lim {
		eng.Walk(st.(*ssa.Store).Val, 4, func(x ssa.Value) bool {
			if b, ok := x.(*ssa.BinOp); ok && b.Op == token.ADD && isMax(b.X) {
				if k, isK := eng.ConstInt(b.Y); isK && k == 1 {
					okLim = true
				}
			}
			return true
		})
	}
	c.Ob("GUARD-maxkeys", eng.FuncName(fn)+" asks-max-keys-plus-one", okLim, fn.Pos(), "the filer is asked for max-keys+1 entries (the extra one reveals truncation)")
	okIncl, okStart, okPrefix, okDir := false, false, false, false
	for _, st := range eng.Find(fn, eng.StoreToField("ListEntriesRequest.InclusiveStartFrom")) {
		if t, isT := eng.ConstBool(st.(*ssa.Store).Val); isT && !t {
			okIncl = true
		}
	}
	for _, st := range eng.Find(fn, eng.StoreToField("ListEntriesRequest.StartFromFileName")) {
		v := st.(*ssa.Store).Val
		if eng.IsParamLike(v, "marker") {
			okStart = true
		}
		if phi, ok := v.(*ssa.Phi); ok && phi.Comment == "marker" {
			okStart = true
		}
	}
	for _, st := range eng.Find(fn, eng.StoreToField("ListEntriesRequest.Prefix")) {
		okPrefix = eng.IsParamLike(st.(*ssa.Store).Val, "prefix")
	}
	for _, st := range eng.Find(fn, eng.StoreToField("ListEntriesRequest.Directory")) {
		okDir = eng.IsParamLike(st.(*ssa.Store).Val, "dir")
	}
	c.Ob("GUARD-maxkeys", eng.FuncName(fn)+" starts-strictly-after-marker", okIncl && okStart, fn.Pos(), "the listing resumes strictly after the marker (the marker itself was already delivered)")
	c.Ob("GUARD-maxkeys", eng.FuncName(fn)+" lists-dir-under-prefix", okPrefix && okDir, fn.Pos(), "only entries of the requested directory with the requested name prefix are listed")
	c.Expect("GUARD-maxkeys", 6)

	// ---------------------------------------------------------------- (3) ORDER-resume
	list := eng.Find(fn, func(in ssa.Instruction) bool {
		call, ok := in.(*ssa.Call)
		return ok && call.Call.IsInvoke() && call.Call.Method.Name() == "ListEntries"
	})
	var resume []ssa.Instruction
	for _, rc := range eng.Find(fn, recur) {
		if len(eng.CycleOf(rc.Block())) == 0 {
			resume = append(resume, rc)
		}
	}
	if len(list) != 1 || len(resume) != 1 {
		c.Undecided("ORDER-resume", eng.FuncName(fn), fn.Pos(), fmt.Sprintf("ListEntries call (%d) / resume recursion outside the loop (%d) not found", len(list), len(resume)))
	} else {
		e := eng.ErrOf(resume[0])
		hit, path := eng.Search(eng.After(resume[0]), eng.IsReturn, eng.SearchOpt{Barrier: eng.Is(list[0]), Cut: eng.FailEdges(fn, eng.ErrNil(e))})
		c.Ob("ORDER-resume", eng.FuncName(fn)+" parent-listing-follows-resume", hit == nil, resume[0].Pos(),
			"after the sub-directory named by the marker was finished, the parent directory's listing is always issued (it is what notices that more entries follow a page that ended exactly at the end of the sub-directory)"+pathNote(P, fn, hit, path))
		c.ErrChecked("ORDER-resume", "resume-error", fn, resume, "a failed resume fails the listing")
		// the budget is reduced by what the sub-directory delivered, and the marker moves to the sub-directory itself
		okBudget := false
		for _, b := range fn.Blocks {
			for _, in := range b.Instrs {
				if bo, ok := in.(*ssa.BinOp); ok && bo.Op == token.SUB && eng.IsParamLike(bo.X, "maxKeys") && eng.SameVar(bo.Y, eng.ResultOf(resume[0], 0)) {
					okBudget = true
				}
			}
		}
		c.Ob("ORDER-resume", eng.FuncName(fn)+" budget-reduced-by-resumed-entries", okBudget, resume[0].Pos(), "the entries delivered while resuming count against max-keys")
	}
	var descents []ssa.Instruction
	for _, rc := range eng.Find(fn, recur) {
		if len(eng.CycleOf(rc.Block())) > 0 {
			descents = append(descents, rc)
		}
	}
	c.ErrChecked("ORDER-resume", "descent-error", fn, descents, "a failed descent fails the listing")
	c.ErrChecked("ORDER-resume", "list-error", fn, list, "a failed filer listing fails the listing")
	for i, d := range descents {
		// the budget handed down is what is left: maxKeys - counter
		arg := eng.Arg(d.(*ssa.Call), 3)
		bo, ok := arg.(*ssa.BinOp)
		c.Ob("ORDER-resume", fmt.Sprintf("%s descent#%d budget", eng.FuncName(fn), i), ok && bo.Op == token.SUB && isMax(bo.X) && isCounter(bo.Y), d.Pos(), "a descent may deliver at most what is left of the page")
		// truncation of the descent truncates the page
		sub := eng.ResultOf(d, 1)
		okTr := false
		for _, st := range startsOf(eng.PassEdges(fn, eng.BoolVal(true, func(v ssa.Value) bool { return v == sub }))) {
			hit, _ := eng.Search(st, func(in ssa.Instruction) bool {
				r, isR := in.(*ssa.Return)
				if !isR {
					return false
				}
				for _, v := range eng.Resolve(r.Results[1]) {
					if t, isT := eng.ConstBool(v); isT && t {
						return false
					}
				}
				return true
			}, eng.SearchOpt{Barrier: func(in ssa.Instruction) bool {
				call, isCall := in.(*ssa.Call)
				return isCall && call.Call.IsInvoke() && call.Call.Method.Name() == "Recv"
			}})
			okTr = hit == nil
		}
		c.Ob("ORDER-resume", fmt.Sprintf("%s descent#%d truncation-propagates", eng.FuncName(fn), i), okTr, d.Pos(), "a truncated descent makes the page truncated")
	}
	c.Expect("ORDER-resume", 6)

	// ---------------------------------------------------------------- (4) PROV-page
	if lf := c.NeedFunc("weed/s3api", "(*S3ApiServer).listFilerEntries"); lf != nil && len(lf.AnonFuncs) >= 1 {
		var cl *ssa.Function
		for _, a := range lf.AnonFuncs {
			if len(eng.Find(a, recur)) > 0 {
				cl = a
			}
		}
		if cl == nil {
			c.Undecided("PROV-page", eng.FuncName(lf), lf.Pos(), "closure calling the walk not found")
		} else {
			c.Touch(cl)
			call := eng.Find(cl, recur)[0].(*ssa.Call)
			okArgs := eng.ParamName(eng.Arg(call, 3)) == "maxKeys" && eng.ParamName(eng.Arg(call, 4)) == "marker" && eng.ParamName(eng.Arg(call, 5)) == "delimiter"
			c.Ob("PROV-page", eng.FuncName(lf)+" walk-arguments", okArgs, call.Pos(), "the walk gets the request's max-keys, marker and delimiter")
			c.ErrChecked("PROV-page", "walk-error", cl, []ssa.Instruction{call}, "a failed walk fails the request")
			// response.IsTruncated / NextMarker come from the walk; NextMarker cleared when not truncated
			okClear := false
			for _, st := range eng.Find(cl, func(in ssa.Instruction) bool {
				s, ok := in.(*ssa.Store)
				if !ok {
					return false
				}
				fv, isFV := s.Addr.(*ssa.FreeVar)
				str, isS := eng.ConstString(s.Val)
				return isFV && fv.Name() == "nextMarker" && isS && str == ""
			}) {
				notTr := eng.FailEdges(cl, eng.BoolVal(true, func(v ssa.Value) bool {
					u, ok := v.(*ssa.UnOp)
					if !ok {
						return false
					}
					fv, isFV := u.X.(*ssa.FreeVar)
					return isFV && fv.Name() == "isTruncated"
				}))
				if hit, _ := eng.Search(eng.Entry(cl), eng.Is(st), eng.SearchOpt{Cut: notTr}); hit == nil && len(notTr) > 0 {
					okClear = true
				}
			}
			c.Ob("PROV-page", eng.FuncName(lf)+" next-marker-only-when-truncated", okClear, cl.Pos(), "a next marker is reported only for a truncated page")
		}
	}
	if v2 := c.NeedFunc("weed/s3api", "(*S3ApiServer).ListObjectsV2Handler"); v2 != nil {
		okTok := false
		for _, st := range eng.Find(v2, eng.StoreToField("ListBucketResultV2.NextContinuationToken")) {
			if eng.MentionsField(st.(*ssa.Store).Val, "ListBucketResult.NextMarker") {
				okTok = true
			}
		}
		c.Ob("PROV-page", eng.FuncName(v2)+" continuation-token-is-next-marker", okTok, v2.Pos(), "the continuation token handed to the client is the walk's next marker")
		lfc := eng.Find(v2, eng.PlainCallTo("s3api.S3ApiServer).listFilerEntries"))
		okM := false
		if len(lfc) == 1 {
			args := eng.Find(v2, eng.PlainCallTo("s3api.getListObjectsV2Args"))
			if len(args) == 1 {
				tok, start := eng.ResultOf(args[0], 1), eng.ResultOf(args[0], 2)
				m := eng.Arg(lfc[0].(*ssa.Call), 3)
				vals := eng.Resolve(m)
				hasTok, hasStart := false, false
				for _, v := range vals {
					if v == tok {
						hasTok = true
					}
					if v == start {
						hasStart = true
					}
				}
				okM = hasTok && hasStart && len(vals) == 2
				// precedence: with a continuation token the marker is the token; start-after is used only on the edge
				// where the token is empty (a client re-sending start-after with each page must still advance)
				tokEmpty := func(cond ssa.Value) (bool, bool) {
					b, ok := cond.(*ssa.BinOp)
					if !ok || (b.Op != token.EQL && b.Op != token.NEQ) || b.X != tok {
						return false, false
					}
					sv, isS := eng.ConstString(b.Y)
					return isS && sv == "", b.Op == token.EQL
				}
				// values of the marker along paths that avoid the token-is-empty edges
				if len(eng.PassEdges(v2, tokEmpty)) == 0 {
					okM = false
				} else {
					for _, v := range resolveAvoiding(v2, m, lfc[0], eng.PassEdges(v2, tokEmpty)) {
						if v != tok {
							okM = false
						}
					}
					for _, v := range resolveAvoiding(v2, m, lfc[0], eng.FailEdges(v2, tokEmpty)) {
						if v != start {
							okM = false
						}
					}
				}
			}
		}
		c.Ob("PROV-page", eng.FuncName(v2)+" resumes-from-token-or-start-after", okM, v2.Pos(), "V2 resumes from the continuation token, or from start-after when there is none")
	}
	c.Expect("PROV-page", 5)
}

// resolveAvoiding: the values v can have at instruction `at` along paths from the function entry that do not use
// the cut edges (phis are resolved through the predecessors reachable under the cut).
func resolveAvoiding(fn *ssa.Function, v ssa.Value, at ssa.Instruction, cut map[eng.Edge]bool) []ssa.Value {
	reach := map[*ssa.BasicBlock]bool{fn.Blocks[0]: true}
	work := []*ssa.BasicBlock{fn.Blocks[0]}
	for len(work) > 0 {
		b := work[0]
		work = work[1:]
		for i, sb := range b.Succs {
			if cut[eng.Edge{B: b, I: i}] || reach[sb] {
				continue
			}
			reach[sb] = true
			work = append(work, sb)
		}
	}
	var out []ssa.Value
	seen := map[ssa.Value]bool{}
	var rec func(x ssa.Value)
	rec = func(x ssa.Value) {
		if seen[x] {
			return
		}
		seen[x] = true
		phi, ok := x.(*ssa.Phi)
		if !ok {
			out = append(out, x)
			return
		}
		for i, e := range phi.Edges {
			p := phi.Block().Preds[i]
			if !reach[p] {
				continue
			}
			edgeCut := false
			for si, sb := range p.Succs {
				if sb == phi.Block() && cut[eng.Edge{B: p, I: si}] && !(len(p.Succs) == 2 && p.Succs[0] == p.Succs[1]) {
					edgeCut = true
				}
			}
			if edgeCut {
				continue
			}
			rec(e)
		}
	}
	if reach[at.Block()] {
		rec(v)
	}
	return out
}
