package props

import (
	"fmt"
	"go/token"
	"go/types"
	"sort"
	"strings"

	"golang.org/x/tools/go/ssa"

	"verif/sa/eng"
)

// Folder provenance of a path value.
//
// A volume server may keep index files (.idx, .ecx, .ecj) in a folder of their own (-dir.idx); every site then has to
// build the name of such a file from the index folder, and the name of a data file from the data folder. With the
// default layout the two folders are the same, so a mix-up is invisible to every test.
//
// folderSources computes, for a string value, the set of folder sources it is built from:
//
//	"idx"   a field named IdxDirectory / dirIdx
//	"data"  a field named Directory / dir
//
// following string concatenation, path.Join, phis, local variables, calls to module functions with a body (through
// their returned values, parameters bound to the call's arguments), and parameters (through every static call site of
// the enclosing function). Anything else (constants, request fields, numbers) contributes nothing.
type folderProv struct {
	p     *eng.Prog
	depth int
}

type frame struct {
	call ssa.CallInstruction
	up   *frame
}

func (fp *folderProv) sources(v ssa.Value) map[string]bool {
	out := map[string]bool{}
	fp.rec(v, nil, fp.depth, map[ssa.Value]bool{}, out)
	return out
}

func fieldKind(name string) string {
	switch name {
	case "IdxDirectory", "dirIdx":
		return "idx"
	case "Directory", "dir":
		return "data"
	}
	return ""
}

func (fp *folderProv) rec(v ssa.Value, fr *frame, d int, seen map[ssa.Value]bool, out map[string]bool) {
	if v == nil || d < 0 {
		return
	}
	if fr == nil {
		if seen[v] {
			return
		}
		seen[v] = true
	}
	switch x := v.(type) {
	case *ssa.Const:
		return
	case *ssa.BinOp:
		if x.Op == token.ADD {
			fp.rec(x.X, fr, d-1, seen, out)
			fp.rec(x.Y, fr, d-1, seen, out)
		}
	case *ssa.Phi:
		for _, e := range x.Edges {
			fp.rec(e, fr, d-1, seen, out)
		}
	case *ssa.ChangeType:
		fp.rec(x.X, fr, d-1, seen, out)
	case *ssa.Convert:
		fp.rec(x.X, fr, d-1, seen, out)
	case *ssa.Extract:
		fp.rec(x.Tuple, fr, d-1, seen, out)
	case *ssa.Field:
		if k := fieldKind(structFieldName(x.X.Type(), x.Field)); k != "" {
			out[k] = true
		}
	case *ssa.UnOp:
		if x.Op != token.MUL {
			return
		}
		switch a := x.X.(type) {
		case *ssa.FieldAddr:
			if k := fieldKind(structFieldName(a.X.Type(), a.Field)); k != "" {
				out[k] = true
			}
		case *ssa.Alloc:
			for _, r := range *a.Referrers() {
				if s, ok := r.(*ssa.Store); ok && s.Addr == a {
					fp.rec(s.Val, fr, d-1, seen, out)
				}
			}
		case *ssa.FreeVar:
			fp.freeVar(a, fr, d, seen, out, true)
		}
	case *ssa.FreeVar:
		fp.freeVar(x, fr, d, seen, out, false)
	case *ssa.Parameter:
		fn := x.Parent()
		idx := -1
		for i, p := range fn.Params {
			if p == x {
				idx = i
			}
		}
		if idx < 0 {
			return
		}
		if fr != nil && eng.StaticFn(fr.call) == fn {
			args := fr.call.Common().Args
			if idx < len(args) {
				fp.rec(args[idx], fr.up, d-1, seen, out)
			}
			return
		}
		for _, cs := range fp.p.CallersOf(fn) {
			args := cs.Common().Args
			if idx < len(args) {
				fp.rec(args[idx], nil, d-1, seen, out)
			}
		}
	case *ssa.Call:
		callee := eng.StaticFn(x)
		if callee == nil {
			return
		}
		if callee.Blocks == nil || !strings.HasPrefix(callee.Pkg.Pkg.Path(), eng.ModulePath) {
			// library function (path.Join, filepath.Join, fmt.Sprintf, strings.TrimSuffix ...): built from its arguments
			for _, a := range x.Call.Args {
				for _, e := range eng.VarargValues(a) {
					if mi, ok := e.(*ssa.MakeInterface); ok {
						e = mi.X
					}
					fp.rec(e, fr, d-1, seen, out)
				}
			}
			return
		}
		nf := &frame{call: x, up: fr}
		cut := constArgCut(callee, x)
		for _, b := range callee.Blocks {
			for _, in := range b.Instrs {
				if r, ok := in.(*ssa.Return); ok {
					if len(cut) > 0 {
						if hit, _ := eng.Search(eng.Entry(callee), eng.Is(r), eng.SearchOpt{Cut: cut}); hit == nil {
							continue // not reachable with the constant arguments of this call
						}
					}
					for _, res := range r.Results {
						if isStringType(res) {
							fp.rec(res, nf, d-1, seen, out)
						}
					}
				}
			}
		}
	}
}

func (fp *folderProv) freeVar(a *ssa.FreeVar, fr *frame, d int, seen map[ssa.Value]bool, out map[string]bool, deref bool) {
	fn := a.Parent()
	idx := -1
	for i, f := range fn.FreeVars {
		if f == a {
			idx = i
		}
	}
	par := fn.Parent()
	if idx < 0 || par == nil {
		return
	}
	for _, f := range eng.WithAnon(par) {
		for _, b := range f.Blocks {
			for _, in := range b.Instrs {
				mc, ok := in.(*ssa.MakeClosure)
				if !ok || mc.Fn != fn || idx >= len(mc.Bindings) {
					continue
				}
				bnd := mc.Bindings[idx]
				if al, isAlloc := bnd.(*ssa.Alloc); isAlloc && deref {
					for _, r := range *al.Referrers() {
						if s, ok := r.(*ssa.Store); ok && s.Addr == al {
							fp.rec(s.Val, nil, d-1, seen, out)
						}
					}
				} else {
					fp.rec(bnd, nil, d-1, seen, out)
				}
			}
		}
	}
}

func isStringType(v ssa.Value) bool {
	return v.Type().Underlying().String() == "string"
}

func structFieldName(t types.Type, i int) string {
	st, ok := eng.Deref(t).Underlying().(*types.Struct)
	if !ok || i >= st.NumFields() {
		return ""
	}
	return st.Field(i).Name()
}

func sourcesString(m map[string]bool) string {
	var ks []string
	for k := range m {
		ks = append(ks, k)
	}
	sort.Strings(ks)
	return "{" + strings.Join(ks, ",") + "}"
}

// constArgCut: the branch edges of callee that cannot be taken when the string parameters for which call passes a
// constant have that value (a switch over a file extension, say).
func constArgCut(callee *ssa.Function, call *ssa.Call) map[eng.Edge]bool {
	cut := map[eng.Edge]bool{}
	for i, a := range call.Call.Args {
		kc, ok := eng.ConstString(a)
		if !ok || i >= len(callee.Params) {
			continue
		}
		par := callee.Params[i]
		for _, b := range callee.Blocks {
			if len(b.Instrs) == 0 {
				continue
			}
			ifi, ok := b.Instrs[len(b.Instrs)-1].(*ssa.If)
			if !ok {
				continue
			}
			bo, ok := ifi.Cond.(*ssa.BinOp)
			if !ok || (bo.Op != token.EQL && bo.Op != token.NEQ) {
				continue
			}
			var k string
			var isK bool
			switch {
			case bo.X == ssa.Value(par):
				k, isK = eng.ConstString(bo.Y)
			case bo.Y == ssa.Value(par):
				k, isK = eng.ConstString(bo.X)
			}
			if !isK {
				continue
			}
			holds := (k == kc) == (bo.Op == token.EQL)
			if holds {
				cut[eng.Edge{B: b, I: 1}] = true
			} else {
				cut[eng.Edge{B: b, I: 0}] = true
			}
		}
	}
	return cut
}

// indexFolderPaths decides, for the sorted index (.ecx) and deletion journal (.ecj) of an erasure-coded volume, that
// every site which opens, tests, removes or copies such a file builds its name from the index folder.
func indexFolderPaths(c *eng.Ctx, rule string) {
	fp := &folderProv{p: c.P, depth: 14}
	isExt := func(v ssa.Value) bool { k, ok := eng.ConstString(v); return ok && (k == ".ecx" || k == ".ecj") }
	fileOps := eng.PlainCallTo("os.OpenFile", "os.Open", "os.Create", "os.Remove", "os.Stat", "os.Rename", "util.FileExists")
	done := map[*ssa.Function]bool{}
	for _, rel := range []string{"weed/storage/erasure_coding", "weed/storage", "weed/server"} {
		for _, top := range c.P.SrcFuncs(rel) {
			for _, fn := range eng.WithAnon(top) {
				if done[fn] {
					continue
				}
				done[fn] = true
				n := 0
				for _, in := range eng.Find(fn, func(in ssa.Instruction) bool { _, ok := in.(*ssa.Call); return ok }) {
					call := in.(*ssa.Call)
					var base ssa.Value
					switch {
					case fileOps(in):
						if len(call.Call.Args) > 0 && eng.Mentions(call.Call.Args[0], 8, isExt) {
							base = call.Call.Args[0]
						}
					case eng.CalleeIs(call, "weed_server.VolumeServer).doCopyFile", "server.VolumeServer).doCopyFile"):
						for i, a := range call.Call.Args {
							if isExt(a) && i > 0 {
								base = call.Call.Args[i-1]
							}
						}
					case eng.CalleeIs(call, "erasure_coding.WriteSortedFileFromIdx"):
						if len(call.Call.Args) == 2 && isExt(call.Call.Args[1]) {
							base = call.Call.Args[0]
						}
					}
					if base == nil {
						continue
					}
					c.Touch(fn)
					n++
					src := fp.sources(base)
					c.Ob(rule, fmt.Sprintf("%s index-folder-path %s#%d", eng.FuncName(fn), eng.Callee(call), n), src["idx"] && !src["data"], call.Pos(),
						"the name of a sorted index / deletion journal file is built from the index folder (IdxDirectory / dirIdx), which differs from the data folder when -dir.idx is set; built from "+sourcesString(src))
				}
			}
		}
	}
	c.Expect(rule, 19)
}
