package props

import (
	"fmt"
	"go/token"
	"strings"

	"golang.org/x/tools/go/ssa"

	"verif/sa/eng"
)

func init() {
	register(&Prop{
		ID:  "C29",
		Run: runC29,
		Explanation: "Static decision of the containment structure of S3 keys: (1) TAINT-http-read: a request-derived string other than the router's path variables (the copy-source header) reaches the URL of an HTTP read from the filer only past a test that refuses '..' segments (the filer's HTTP front normalises paths, so '..' climbs out of the bucket and out of the buckets root); (2) SIB-escape: every handler that reads an object over HTTP builds the filer URL from the router's object variable through urlPathEscape (an unescaped '%2F' is decoded and normalised by the filer); the router never disables path cleaning; " +
			"(3) GUARD-uploads-area: the listing never reports or enters the internal upload folder, and the object handlers refuse keys inside it. Flows into gRPC directory/name arguments (upload id, batch-delete keys) are not armed: the filer store treats them as literal names, which keeps them inside the bucket's own directory tree. HTTP writes and deletes are not armed either: the filer answers a non-normalised path with a redirect that Go's client turns into a GET. Also decided: urlPathEscape escapes every segment unconditionally; every use of the internal upload area names the bucket of the request, never one derived from the copy source.",
		Assumptions: []string{"gorilla/mux cleans the request path unless SkipClean is enabled", "the filer HTTP server is a net/http ServeMux, which redirects non-canonical paths"},
		Trusted:     append([]string{"gorilla/mux path cleaning", "net/http ServeMux path canonicalisation"}, baseTrusted...),
	})
}

func runC29(c *eng.Ctx) {

	// the '..' test looks at every path segment: a segment is a whole element between slashes, first and last included
	if fn := c.NeedFunc("weed/s3api", "hasDotDotSegment"); fn != nil {
		split := false
		for _, in := range eng.Find(fn, eng.PlainCallTo("strings.Split")) {
			if k, ok := eng.ConstString(in.(*ssa.Call).Call.Args[1]); ok && k == "/" {
				split = true
			}
		}
		isDots := eng.Cmp(func(v ssa.Value) bool { _, isK := eng.ConstString(v); return !isK }, func(v ssa.Value) bool { k, ok := eng.ConstString(v); return ok && k == ".." }, token.EQL)
		var trues, falses []ssa.Instruction
		for _, r := range eng.Find(fn, eng.IsReturn) {
			for _, v := range eng.Resolve(r.(*ssa.Return).Results[0]) {
				if b, ok := eng.ConstBool(v); ok && !b {
					falses = append(falses, r)
				} else {
					trues = append(trues, r)
				}
			}
		}
		okShape := split && len(eng.PassEdges(fn, isDots)) > 0 && len(trues) > 0 && len(falses) > 0
		if okShape {
			// "no" is answered only when no segment compared equal: unreachable from a pass edge
			for _, st := range startsOf(eng.PassEdges(fn, isDots)) {
				if hit, _ := eng.Search(st, eng.AnyOf(falses), eng.SearchOpt{}); hit != nil {
					okShape = false
				}
			}
		}
		c.Ob("GUARD-dotdot", eng.FuncName(fn)+" every-segment-compared", okShape && len(eng.Find(fn, eng.PlainCallTo("strings.Contains", "strings.HasPrefix", "strings.HasSuffix", "strings.Index"))) == 0, fn.Pos(),
			"the path is split at every slash and each element is compared with \"..\" as a whole (substring tests miss a leading or trailing element)")
	}
	P := c.P
	// ---------------------------------------------------------------- (1) TAINT-http-read
	readSinks := eng.PlainCallTo("util.DownloadFile", "util.ReadUrlAsReaderCloser", "util.Get", "util.ReadUrl")
	nT := 0
	for _, fn := range P.SrcFuncs("weed/s3api") {
		if fn.Parent() != nil {
			continue
		}
		var srcs []ssa.Value
		for _, in := range eng.Find(fn, func(in ssa.Instruction) bool {
			call, ok := in.(*ssa.Call)
			if !ok || !eng.CalleeIs(call, "http.Header).Get") {
				return false
			}
			s, isS := eng.ConstString(call.Call.Args[len(call.Call.Args)-1])
			return isS && strings.EqualFold(s, "X-Amz-Copy-Source")
		}) {
			srcs = append(srcs, in.(*ssa.Call))
		}
		if len(srcs) == 0 {
			continue
		}
		tainted := func(v ssa.Value) bool {
			return eng.Mentions(v, 14, func(x ssa.Value) bool {
				for _, s := range srcs {
					if x == s {
						return true
					}
				}
				return false
			})
		}
		for i, sk := range eng.Find(fn, readSinks) {
			url := sk.(*ssa.Call).Call.Args[0]
			if !tainted(url) {
				continue
			}
			nT++
			c.Touch(fn)
			// sanitiser: a branch on strings.Contains(<tainted>, "..") (or a split-and-compare of segments against "..")
			clean := eng.PassEdges(fn, func(cond ssa.Value) (bool, bool) {
				call, ok := cond.(*ssa.Call)
				if ok && eng.CalleeIs(call, "strings.Contains") && tainted(call.Call.Args[0]) {
					if s, isS := eng.ConstString(call.Call.Args[1]); isS && s == ".." {
						return true, false
					}
				}
				if ok && tainted(call) && (strings.Contains(strings.ToLower(eng.Callee(call)), "dotdot") || strings.Contains(strings.ToLower(eng.Callee(call)), "traversal")) {
					return true, false
				}
				return false, false
			})
			okS := false
			if len(clean) > 0 {
				hit, _ := eng.Search(eng.Entry(fn), eng.Is(sk), eng.SearchOpt{Cut: clean})
				okS = hit == nil
			}
			c.Ob("TAINT-http-read", fmt.Sprintf("%s copy-source -> %s#%d", eng.FuncName(fn), shortName(eng.Callee(sk.(ssa.CallInstruction))), i), okS, sk.Pos(),
				"the copy-source header reaches the URL of an HTTP read from the filer only past a test refusing '..' segments")
		}
	}
	if nT < 2 {
		c.Undecided("TAINT-http-read", "discovery", token.NoPos, fmt.Sprintf("only %d flows from the copy-source header into an HTTP read found, expected >= 2", nT))
	}

	// ---------------------------------------------------------------- (2) SIB-escape
	nE := 0
	for _, name := range []string{"(*S3ApiServer).GetObjectHandler", "(*S3ApiServer).HeadObjectHandler"} {
		fn := c.NeedFunc("weed/s3api", name)
		if fn == nil {
			continue
		}
		gb := eng.Find(fn, eng.PlainCallTo("s3api.getBucketAndObject"))
		px := eng.Find(fn, eng.PlainCallTo("s3api.S3ApiServer).proxyToFiler"))
		if len(gb) != 1 || len(px) != 1 {
			c.Undecided("SIB-escape", eng.FuncName(fn), fn.Pos(), "getBucketAndObject / proxyToFiler not found")
			continue
		}
		obj := eng.ResultOf(gb[0], 1)
		url := eng.Arg(px[0].(*ssa.Call), 2)
		// every occurrence of the object variable inside the URL expression is an argument of urlPathEscape
		raw := false
		esc := false
		var visit func(v ssa.Value, under bool, d int)
		seen := map[ssa.Value]bool{}
		visit = func(v ssa.Value, under bool, d int) {
			if v == nil || d == 0 {
				return
			}
			if v == obj {
				if under {
					esc = true
				} else {
					raw = true
				}
				return
			}
			if seen[v] && !under {
				return
			}
			seen[v] = true
			switch x := v.(type) {
			case *ssa.Call:
				u := under || eng.CalleeIs(x, "s3api.urlPathEscape")
				for _, a := range x.Call.Args {
					for _, vv := range eng.VarargValues(a) {
						visit(vv, u, d-1)
					}
				}
			case *ssa.MakeInterface:
				visit(x.X, under, d-1)
			case *ssa.ChangeInterface:
				visit(x.X, under, d-1)
			case *ssa.BinOp:
				visit(x.X, under, d-1)
				visit(x.Y, under, d-1)
			case *ssa.Phi:
				for _, e := range x.Edges {
					visit(e, under, d-1)
				}
			case *ssa.UnOp:
				for _, r := range eng.Resolve(x) {
					if r != ssa.Value(x) {
						visit(r, under, d-1)
					}
				}
			}
		}
		visit(url, false, 12)
		nE++
		c.Ob("SIB-escape", eng.FuncName(fn)+" object-url", esc && !raw, px[0].Pos(), "the filer URL of an HTTP read is built from urlPathEscape(object): a literal %2F in a key must reach the filer as %252F, not as a path separator")
	}
	if fe := c.NeedFunc("weed/s3api", "urlPathEscape"); fe != nil {
		split := eng.Find(fe, eng.PlainCallTo("strings.Split"))
		pe := eng.Find(fe, eng.PlainCallTo("url.PathEscape"))
		okShape := len(split) == 1 && len(pe) == 1 && len(eng.CycleOf(pe[0].Block())) > 0
		if okShape {
			s, isS := eng.ConstString(split[0].(*ssa.Call).Call.Args[1])
			okShape = isS && s == "/"
		}
		c.Ob("SIB-escape", eng.FuncName(fe)+" per-segment", okShape, fe.Pos(), "urlPathEscape escapes every '/'-separated segment with url.PathEscape")
		// ... every segment, unconditionally: each element appended to the result is the escaped form (a segment that
		// "looks escaped" is still data: forwarded as is, the filer decodes it once more into '..' or '/')
		okEvery := len(pe) == 1
		nApp := 0
		for _, in := range eng.Find(fe, eng.PlainCallTo("builtin.append")) {
			nApp++
			for _, el := range eng.VarargValues(in.(*ssa.Call).Call.Args[1]) {
				if call, isCall := eng.Unwrap(el).(*ssa.Call); !isCall || !eng.CalleeIs(call, "url.PathEscape") {
					okEvery = false
				}
			}
		}
		if okEvery && len(pe) == 1 {
			// and no iteration skips the append
			cyc := eng.CycleOf(pe[0].Block())
			for b := range cyc {
				if b.Comment != "rangeindex.body" {
					continue
				}
				var header *ssa.BasicBlock
				for _, p := range b.Preds {
					if cyc[p] {
						header = p
					}
				}
				if header != nil {
					if hit, _ := eng.Search(eng.Loc{B: b}, func(in ssa.Instruction) bool { return in.Block() == header }, eng.SearchOpt{Barrier: eng.Is(pe[0])}); hit != nil {
						okEvery = false
					}
				}
			}
		}
		c.Ob("SIB-escape", eng.FuncName(fe)+" every-segment-escaped", okEvery && nApp > 0, fe.Pos(), "every segment reaches the result escaped; none is forwarded as received")
	}
	// the internal upload area written by a handler is the one of the bucket the request is addressed to, never of a
	// bucket named by the copy source
	nUp := 0
	for _, fn := range P.SrcFuncs("weed/s3api") {
		for _, in := range eng.Find(fn, eng.PlainCallTo("s3api.S3ApiServer).genUploadsFolder")) {
			call := in.(*ssa.Call)
			arg := eng.Arg(call, 0)
			nUp++
			fromSource := eng.Mentions(arg, 8, func(v ssa.Value) bool {
				ex, ok := v.(*ssa.Extract)
				if !ok {
					return false
				}
				cl, isC := ex.Tuple.(*ssa.Call)
				return isC && eng.CalleeIs(cl, "s3api.pathToBucketAndObject")
			})
			if eng.Mentions(arg, 8, func(v ssa.Value) bool {
				cl, isC := v.(*ssa.Call)
				return isC && eng.CalleeIs(cl, "http.Header).Get")
			}) {
				fromSource = true
			}
			c.Touch(fn)
			c.Ob("GUARD-uploads-area", fmt.Sprintf("%s upload-area-of-request-bucket#%d", eng.FuncName(fn), ordOf(fn, in)), !fromSource, call.Pos(), "the upload area a handler works in belongs to the bucket of the request (router variable / API input), not to a bucket named by the copy source")
		}
	}
	if nUp == 0 {
		c.Undecided("GUARD-uploads-area", "genUploadsFolder", token.NoPos, "no use of the upload area found")
	}
	// the handlers' common wrapper refuses paths with a ".." element before the handler runs, and every route is
	// registered through it: that is what makes a router that keeps paths as sent (SkipClean) safe
	wrapperRefuses := false
	if tr := c.NeedFunc("weed/s3api", "track"); tr != nil && len(tr.AnonFuncs) == 1 {
		w := tr.AnonFuncs[0]
		c.Touch(w)
		inner := eng.Find(w, func(in ssa.Instruction) bool {
			call, ok := in.(*ssa.Call)
			return ok && eng.ParamName(call.Call.Value) == "f"
		})
		refuse := eng.FailEdges(w, func(cond ssa.Value) (bool, bool) {
			call, ok := cond.(*ssa.Call)
			if !ok || !(strings.Contains(strings.ToLower(eng.Callee(call)), "dotdot") || (eng.CalleeIs(call, "strings.Contains") && func() bool { sv, isS := eng.ConstString(call.Call.Args[1]); return isS && sv == ".." }())) {
				return false, false
			}
			return eng.MentionsField(call.Call.Args[0], "URL.Path"), true
		})
		if len(inner) == 1 && len(refuse) > 0 {
			if hit, _ := eng.Search(eng.Entry(w), eng.Is(inner[0]), eng.SearchOpt{Cut: refuse}); hit == nil {
				wrapperRefuses = true
			}
		}
		allWrapped := true
		nRoutes := 0
		if reg := c.P.Func("weed/s3api", "(*S3ApiServer).registerRouter"); reg != nil {
			for _, r := range s3Routes(c.P, reg) {
				nRoutes++
				if !r.tracked {
					allWrapped = false
				}
			}
		}
		c.Ob("SIB-escape", "wrapper-refuses-dotdot", wrapperRefuses && allWrapped && nRoutes > 0, w.Pos(), fmt.Sprintf("the common wrapper of the %d S3 routes refuses a request path with a '..' element before the handler runs", nRoutes))
		wrapperRefuses = wrapperRefuses && allWrapped && nRoutes > 0
	}
	nSkip := 0
	nS3 := 0
	for _, fn := range P.AllSrcFuncs() {
		// only routers that are handed to the S3 API server carry object keys
		if len(eng.Find(fn, eng.CallTo("s3api.NewS3ApiServer"))) == 0 {
			continue
		}
		nS3++
		c.Touch(fn)
		for _, in := range eng.Find(fn, eng.CallTo("mux.Router).SkipClean")) {
			if t, isT := eng.ConstBool(eng.Arg(in.(ssa.CallInstruction), 0)); !isT || t {
				nSkip++
				c.Ob("SIB-escape", fmt.Sprintf("%s SkipClean#%d", eng.FuncName(fn), nSkip), wrapperRefuses, in.Pos(), "a router that keeps request paths as sent is acceptable only because the handlers' common wrapper refuses '..' elements (otherwise the router's path cleaning is what removes them)")
			}
		}
	}
	if nS3 == 0 {
		c.Undecided("SIB-escape", "router", token.NoPos, "no function constructing the S3 API server found")
	} else if nSkip == 0 {
		c.Ob("SIB-escape", "router-cleans-paths", true, token.NoPos, "no router handed to the S3 API server disables path cleaning")
	}
	c.Expect("SIB-escape", 6)

	// ---------------------------------------------------------------- (3) GUARD-uploads-area
	if fn := c.NeedFunc("weed/s3api", "(*S3ApiServer).doListFilerEntries"); fn != nil {
		isCb := func(in ssa.Instruction) bool {
			call, ok := in.(*ssa.Call)
			return ok && eng.ParamName(call.Call.Value) == "eachEntryFn"
		}
		recur := eng.PlainCallTo("s3api.S3ApiServer).doListFilerEntries")
		isDir := eng.PassEdges(fn, eng.BoolVal(true, func(v ssa.Value) bool { return eng.IsField(v, "Entry.IsDirectory") }))
		notUploads := eng.PassEdges(fn, func(cond ssa.Value) (bool, bool) {
			b, ok := cond.(*ssa.BinOp)
			if !ok || (b.Op != token.NEQ && b.Op != token.EQL) || !eng.IsField(b.X, "Entry.Name") {
				return false, false
			}
			s, isS := eng.ConstString(b.Y)
			return isS && s == ".uploads", b.Op == token.NEQ
		})
		for _, kind := range []struct {
			name string
			pred eng.InstrPred
		}{{"reported", isCb}, {"entered", recur}} {
			ok := len(notUploads) > 0 && len(isDir) > 0
			for _, st := range startsOf(isDir) {
				if hit, _ := eng.Search(st, kind.pred, eng.SearchOpt{Cut: notUploads, Barrier: func(in ssa.Instruction) bool {
					call, isCall := in.(*ssa.Call)
					return isCall && call.Call.IsInvoke() && call.Call.Method.Name() == "Recv"
				}}); hit != nil {
					ok = false
				}
			}
			c.Ob("GUARD-uploads-area", eng.FuncName(fn)+" never-"+kind.name, ok, fn.Pos(), "the internal upload folder is never "+kind.name+" by a listing, with or without delimiter")
		}
	}
	for _, name := range []string{"(*S3ApiServer).GetObjectHandler", "(*S3ApiServer).HeadObjectHandler", "(*S3ApiServer).PutObjectHandler", "(*S3ApiServer).DeleteObjectHandler"} {
		fn := c.NeedFunc("weed/s3api", name)
		if fn == nil {
			continue
		}
		sinks := eng.Find(fn, eng.PlainCallTo("s3api.S3ApiServer).proxyToFiler", "s3api.S3ApiServer).putToFiler", "s3api.S3ApiServer).mkdir"))
		if len(sinks) == 0 {
			c.Undecided("GUARD-uploads-area", eng.FuncName(fn), fn.Pos(), "filer access not found")
			continue
		}
		refuses := eng.PassEdges(fn, func(cond ssa.Value) (bool, bool) {
			mentionsUploads := func(v ssa.Value) bool {
				return eng.Mentions(v, 6, func(x ssa.Value) bool {
					s, isS := eng.ConstString(x)
					return isS && strings.Contains(s, ".uploads")
				})
			}
			if call, ok := cond.(*ssa.Call); ok && (eng.CalleeIs(call, "strings.HasPrefix", "strings.Contains") || strings.Contains(strings.ToLower(eng.Callee(call)), "upload")) {
				for _, a := range call.Call.Args {
					if mentionsUploads(a) {
						return true, false
					}
				}
				if strings.Contains(strings.ToLower(eng.Callee(call)), "upload") && call.Type().String() == "bool" {
					return true, false
				}
			}
			return false, false
		})
		ok := false
		if len(refuses) > 0 {
			ok = true
			for _, s := range sinks {
				if hit, _ := eng.Search(eng.Entry(fn), eng.Is(s), eng.SearchOpt{Cut: refuses}); hit != nil {
					ok = false
				}
			}
		}
		c.Ob("GUARD-uploads-area", eng.FuncName(fn)+" refuses-internal-keys", ok, fn.Pos(), "an object key inside the bucket's internal upload area is refused before the filer is touched")
	}
	c.Expect("GUARD-uploads-area", 16)
	_ = nE
}

// ordOf: the ordinal of in among the calls to the same callee in fn (stable obligation keys).
func ordOf(fn *ssa.Function, in ssa.Instruction) int {
	n := 0
	want := eng.Callee(in.(ssa.CallInstruction))
	for _, b := range fn.Blocks {
		for _, x := range b.Instrs {
			if c, ok := x.(ssa.CallInstruction); ok && eng.Callee(c) == want {
				n++
				if x == in {
					return n
				}
			}
		}
	}
	return n
}
