package props

import (
	"fmt"
	"go/token"
	"go/types"
	"strings"

	"golang.org/x/tools/go/ssa"

	"verif/sa/eng"
)

func init() {
	register(&Prop{
		ID:  "C23",
		Run: runC23,
		Explanation: "Static decision of the structure of path-rule resolution: (1) FIELDS-merge: mergePathConf writes every setting of a path rule (all exported fields except the prefix itself) into the accumulator, taking the later (longer) rule's value when it sets the field and keeping the accumulated value otherwise — Nvl(b.f, a.f) argument order, `if b.f is set {a.f = b.f}` guards, `b.f || a.f`; " +
			"(2) ORDER-match: MatchStorageRule merges every rule reported by the prefix match into one accumulator (accumulator first, rule second) and never stops the walk early; (3) GUARD-delete: DeleteLocationConf drops exactly the rule whose key equals the given prefix byte for byte, re-inserts every other rule and installs the rebuilt set. " +
			"That the trie reports shorter prefixes before longer ones is trusted (ptrie.MatchPrefix). Also decided: every answer of MatchStorageRule is the accumulator built for this lookup after the prefix walk; kept rules are re-inserted under a private copy of their key.",
		Assumptions: []string{"ptrie.MatchPrefix visits matching prefixes from shortest to longest", "viant/ptrie keeps one value per distinct KeyProvider.Key() (the first one registered for that key)", "a field counts as set when it is not its zero value"},
		Trusted:     append([]string{"github.com/viant/ptrie prefix walk order"}, baseTrusted...),
	})
}

func runC23(c *eng.Ctx) {

	// KEY-identity: viant/ptrie keeps one value per distinct KeyProvider.Key() and the FIRST value registered for a key
	// (assumption, read from the vendored source): two rules that differ in any field must therefore have different keys,
	// or re-configuring a prefix silently keeps the old rule. The key is the encoding of the whole rule.
	if fn := c.P.Func("weed/pb/filer_pb", "(*FilerConf_PathConf).Key"); fn != nil {
		c.Touch(fn)
		for i, r := range eng.Find(fn, eng.IsReturn) {
			whole := false
			eng.Walk(r.(*ssa.Return).Results[0], 8, func(v ssa.Value) bool {
				if call, ok := v.(*ssa.Call); ok && eng.CalleeIs(call, "proto.Marshal") && len(call.Call.Args) == 1 {
					if eng.Mentions(call.Call.Args[0], 3, func(x ssa.Value) bool { return x == ssa.Value(fn.Params[0]) }) {
						whole = true
					}
				}
				return true
			})
			c.Ob("KEY-identity", fmt.Sprintf("%s whole-rule#%d", eng.FuncName(fn), i), whole, r.Pos(),
				"the key under which the prefix tree de-duplicates rule values is the encoding of the whole rule, so a changed rule for the same prefix is a different value")
		}
	} else {
		c.Undecided("KEY-identity", "discovery", token.NoPos, "FilerConf_PathConf.Key not found")
	}

	// FRESH-conf: a configuration text describes the whole rule set; loading only adds the rules present in the text, so a
	// (re)load must start from an empty FilerConf (NewFilerConf) and replace the live one: loading into the live object
	// keeps rules that were deleted from the text
	nLoad := 0
	for _, top := range c.P.SrcFuncs("weed/filer") {
		if top.Signature.Recv() != nil && eng.TypeName(top.Signature.Recv().Type()) == "FilerConf" {
			continue // the loaders calling each other on their own receiver
		}
		for i, in := range eng.Find(top, eng.CallTo("filer.FilerConf).loadFromChunks", "filer.FilerConf).loadFromFiler", "filer.FilerConf).LoadFromBytes")) {
			nLoad++
			c.Touch(top)
			recv := eng.RecvOf(in.(ssa.CallInstruction))
			fresh := recv != nil
			if fresh {
				vals := freshSources(top, recv)
				fresh = len(vals) > 0
				for _, v := range vals {
					call, ok := v.(*ssa.Call)
					if !ok || !eng.CalleeIs(call, "filer.NewFilerConf") {
						fresh = false
					}
				}
			}
			c.Ob("FRESH-conf", fmt.Sprintf("%s loads-into-new-conf#%d", eng.FuncName(top), i), fresh, in.Pos(),
				"a configuration is loaded into a FilerConf created empty for it (NewFilerConf), never into the live one")
		}
	}
	if nLoad < 2 {
		c.Undecided("FRESH-conf", "discovery", token.NoPos, fmt.Sprintf("only %d configuration load sites found in weed/filer (expected 2)", nLoad))
	}
	P := c.P
	// ---------------------------------------------------------------- (1) FIELDS-merge
	fn := c.NeedFunc("weed/filer", "mergePathConf")
	if fn != nil && len(fn.Params) == 2 {
		a, b := fn.Params[0], fn.Params[1]
		var fields []string
		if pk := P.Pkg("weed/pb/filer_pb"); pk != nil {
			if obj := pk.Types.Scope().Lookup("FilerConf_PathConf"); obj != nil {
				if st, ok := obj.Type().Underlying().(*types.Struct); ok {
					for i := 0; i < st.NumFields(); i++ {
						f := st.Field(i)
						if f.Exported() && f.Name() != "LocationPrefix" {
							fields = append(fields, f.Name())
						}
					}
				}
			}
		}
		if len(fields) < 7 {
			c.Undecided("FIELDS-merge", "FilerConf_PathConf", fn.Pos(), fmt.Sprintf("only %d setting fields found", len(fields)))
		}
		isFieldOf := func(v ssa.Value, base ssa.Value, f string) bool {
			return eng.FieldSpec(v) == "FilerConf_PathConf."+f && eng.FieldBase(v) == base
		}
		for _, f := range fields {
			var sts []*ssa.Store
			for _, in := range eng.Find(fn, eng.StoreToField("FilerConf_PathConf."+f)) {
				if eng.FieldBase(in.(*ssa.Store).Addr) == ssa.Value(a) {
					sts = append(sts, in.(*ssa.Store))
				}
			}
			ok := false
			how := "no assignment to the accumulator's " + f
			for _, st := range sts {
				switch v := st.Val.(type) {
				case *ssa.Call:
					if args := eng.VarargValues(v.Call.Args[0]); eng.CalleeIs(v, "util.Nvl") && len(args) == 2 {
						if isFieldOf(args[0], b, f) && isFieldOf(args[1], a, f) {
							ok, how = true, "Nvl(rule."+f+", accumulated."+f+")"
						} else {
							how = "Nvl arguments are not (rule." + f + ", accumulated." + f + "): the later rule must win when it sets the field"
						}
					}
				case *ssa.UnOp:
					if isFieldOf(v, b, f) {
						set := eng.PassEdges(fn, func(cond ssa.Value) (bool, bool) {
							if isFieldOf(cond, b, f) {
								return true, true // boolean field
							}
							bo, isB := cond.(*ssa.BinOp)
							if !isB || !isFieldOf(bo.X, b, f) {
								return false, false
							}
							if s, isS := eng.ConstString(bo.Y); isS && s == "" {
								return true, bo.Op == token.NEQ
							}
							if k, isK := eng.ConstInt(bo.Y); isK && k == 0 {
								switch bo.Op {
								case token.GTR, token.NEQ:
									return true, true
								case token.EQL, token.LEQ:
									return true, false
								}
							}
							return false, false
						})
						if len(set) > 0 {
							if hit, _ := eng.Search(eng.Entry(fn), eng.Is(st), eng.SearchOpt{Cut: set}); hit == nil {
								ok, how = true, "assigned from the rule only when the rule sets it"
							} else {
								how = "assigned from the rule even when the rule leaves it unset"
							}
						} else {
							how = "assigned from the rule without testing that the rule sets it"
						}
					}
				case *ssa.Phi:
					// b.f || a.f
					hasTrue, hasAcc, other := false, false, false
					for _, e := range v.Edges {
						if t, isT := eng.ConstBool(e); isT && t {
							hasTrue = true
						} else if isFieldOf(e, a, f) {
							hasAcc = true
						} else {
							other = true
						}
					}
					condOK := false
					for _, p := range v.Block().Preds {
						if iff, isIf := p.Instrs[len(p.Instrs)-1].(*ssa.If); isIf && isFieldOf(iff.Cond, b, f) {
							condOK = true
						}
					}
					if hasTrue && hasAcc && !other && condOK {
						ok, how = true, "rule."+f+" || accumulated."+f
					}
				}
			}
			c.Ob("FIELDS-merge", eng.FuncName(fn)+" "+f, ok, fn.Pos(), how)
		}
		c.Expect("FIELDS-merge", 7)
	}

	// ---------------------------------------------------------------- (2) ORDER-match
	if m := c.NeedFunc("weed/filer", "(*FilerConf).MatchStorageRule"); m != nil {
		walk := eng.Find(m, eng.PlainCallTo("ptrie.Trie).MatchPrefix"))
		var cb *ssa.Function
		if len(walk) == 1 {
			if mc, ok := eng.Unwrap(eng.Arg(walk[0].(*ssa.Call), 1)).(*ssa.MakeClosure); ok {
				cb = mc.Fn.(*ssa.Function)
			}
		}
		if cb == nil {
			c.Undecided("ORDER-match", eng.FuncName(m), m.Pos(), "MatchPrefix with a function literal not found")
		} else {
			c.Touch(cb)
			merges := eng.Find(cb, eng.PlainCallTo("filer.mergePathConf"))
			okArgs := len(merges) == 1
			if okArgs {
				call := merges[0].(*ssa.Call)
				accIsCaptured := eng.Mentions(call.Call.Args[0], 4, func(x ssa.Value) bool { _, isFV := x.(*ssa.FreeVar); return isFV })
				ruleIsValue := eng.Mentions(call.Call.Args[1], 4, func(x ssa.Value) bool { return eng.IsParamLike(x, "value") })
				okArgs = accIsCaptured && ruleIsValue
			}
			c.Ob("ORDER-match", eng.FuncName(m)+" merge-arguments", okArgs, cb.Pos(), "each matched rule is merged into the one accumulator (accumulator first, matched rule second)")
			c.Before("ORDER-match", "merge-before-return", cb, eng.PlainCallTo("filer.mergePathConf"), eng.Find(cb, eng.IsReturn), "every matched rule is merged")
			allTrue := true
			for _, r := range eng.Find(cb, eng.IsReturn) {
				for _, v := range eng.Resolve(r.(*ssa.Return).Results[0]) {
					if t, isT := eng.ConstBool(v); !isT || !t {
						allTrue = false
					}
				}
			}
			c.Ob("ORDER-match", eng.FuncName(m)+" never-stops-early", allTrue, cb.Pos(), "the walk continues over every matching prefix (the callback always answers true)")
			// the path matched is the caller's path; the accumulator returned is the one merged into
			okPath := eng.Mentions(eng.Arg(walk[0].(*ssa.Call), 0), 3, func(x ssa.Value) bool { return eng.IsParamLike(x, "path") })
			c.Ob("ORDER-match", eng.FuncName(m)+" matches-the-path", okPath, walk[0].Pos(), "rules are matched against the requested path")
		}
	}
	if m := c.NeedFunc("weed/filer", "(*FilerConf).MatchStorageRule"); m != nil {
		// every answer is the freshly built accumulator (never a stored rule object, which would both skip the
		// inherited fields and hand out shared state), and every answer was built by the prefix walk
		fresh := true
		for _, r := range eng.Find(m, eng.IsReturn) {
			if r.Block() == m.Recover {
				continue
			}
			for _, v := range eng.Resolve(r.(*ssa.Return).Results[0]) {
				al, isAlloc := v.(*ssa.Alloc)
				if !isAlloc || !al.Heap || !strings.HasSuffix(eng.TypeName(eng.Deref(al.Type())), "FilerConf_PathConf") {
					fresh = false
				}
			}
		}
		c.Ob("ORDER-match", eng.FuncName(m)+" answers-fresh-accumulator", fresh, m.Pos(), "the answer is always the accumulator built for this lookup, never a stored rule")
		c.Before("ORDER-match", "walk-before-answer", m, eng.PlainCallTo("ptrie.Trie).MatchPrefix"), eng.Find(m, eng.IsReturn), "every answer is produced by the walk over all matching prefixes")
	}
	c.Expect("ORDER-match", 6)

	// ---------------------------------------------------------------- (3) GUARD-delete
	if d := c.NeedFunc("weed/filer", "(*FilerConf).DeleteLocationConf"); d != nil {
		walk := eng.Find(d, eng.PlainCallTo("ptrie.Trie).Walk"))
		var cb *ssa.Function
		if len(walk) == 1 {
			if mc, ok := eng.Unwrap(eng.Arg(walk[0].(*ssa.Call), 0)).(*ssa.MakeClosure); ok {
				cb = mc.Fn.(*ssa.Function)
			}
		}
		if cb == nil {
			c.Undecided("GUARD-delete", eng.FuncName(d), d.Pos(), "Walk with a function literal not found")
		} else {
			c.Touch(cb)
			puts := eng.Find(cb, eng.PlainCallTo("ptrie.Trie).Put"))
			exact := func(cond ssa.Value) (bool, bool) {
				bo, ok := cond.(*ssa.BinOp)
				if !ok || (bo.Op != token.EQL && bo.Op != token.NEQ) {
					return false, false
				}
				isKey := func(v ssa.Value) bool {
					cv, ok := v.(*ssa.Convert)
					return ok && eng.IsParamLike(cv.X, "key")
				}
				isPrefix := func(v ssa.Value) bool { return eng.IsParamLike(v, "locationPrefix") }
				if (isKey(bo.X) && isPrefix(bo.Y)) || (isKey(bo.Y) && isPrefix(bo.X)) {
					return true, bo.Op == token.EQL
				}
				return false, false
			}
			if len(puts) != 1 {
				c.Undecided("GUARD-delete", eng.FuncName(d)+" re-insert", cb.Pos(), "re-insertion of the kept rules not found")
			} else {
				// kept unless equal: Put unreachable on the equal edge, reachable (and unavoidable) on the unequal edge
				eq := eng.PassEdges(cb, exact)
				ok := len(eq) > 0
				if ok {
					hit, _ := eng.Search(eng.Entry(cb), eng.Is(puts[0]), eng.SearchOpt{Cut: eng.FailEdges(cb, exact)})
					ok = hit == nil // with the unequal edges cut, Put is unreachable: the rule with the exact key is dropped
				}
				c.Ob("GUARD-delete", eng.FuncName(d)+" drops-exact-key", ok, cb.Pos(), "the rule whose key equals the given prefix byte for byte is not re-inserted (and nothing looser than byte equality decides it)")
				okKeep := len(eq) > 0
				for _, st := range startsOf(eng.FailEdges(cb, exact)) {
					if hit, _ := eng.Search(st, eng.IsReturn, eng.SearchOpt{Barrier: eng.Is(puts[0])}); hit != nil {
						okKeep = false
					}
				}
				c.Ob("GUARD-delete", eng.FuncName(d)+" keeps-all-others", okKeep, cb.Pos(), "every rule with a different key is re-inserted")
				call := puts[0].(*ssa.Call)
				// the key re-inserted is a private copy of the walk's key: the walk builds sibling keys in shared memory and
				// the trie retains the slice it is given
				keyArg := eng.Arg(call, 0)
				copied := false
				switch x := eng.Unwrap(keyArg).(type) {
				case *ssa.Call:
					if eng.CalleeIs(x, "builtin.append") && len(x.Call.Args) == 2 && eng.IsParamLike(x.Call.Args[1], "key") && !eng.IsParamLike(x.Call.Args[0], "key") {
						if eng.IsNilConst(x.Call.Args[0]) {
							copied = true
						} else if sl, isSl := x.Call.Args[0].(*ssa.Slice); isSl && !eng.Mentions(sl.X, 3, func(v ssa.Value) bool { return eng.IsParamLike(v, "key") }) {
							copied = true
						}
					}
					if eng.CalleeIs(x, "bytes.Clone") && eng.IsParamLike(x.Call.Args[0], "key") {
						copied = true
					}
				case *ssa.Convert:
					// []byte(string(key)) or []byte(rule.LocationPrefix)
					if bt, isB := x.X.Type().Underlying().(*types.Basic); isB && bt.Kind() == types.String {
						copied = true
					}
				}
				c.Ob("GUARD-delete", eng.FuncName(d)+" re-inserts-unchanged", copied && eng.Mentions(keyArg, 4, func(v ssa.Value) bool {
					return eng.IsParamLike(v, "key") || eng.IsField(v, "FilerConf_PathConf.LocationPrefix")
				}) && eng.IsParamLike(eng.Arg(call, 1), "value"), call.Pos(), "kept rules are re-inserted under a private copy of their own key with their own value (the walk reuses the key's memory for the next rule)")
			}
			allTrue := true
			for _, r := range eng.Find(cb, eng.IsReturn) {
				for _, v := range eng.Resolve(r.(*ssa.Return).Results[0]) {
					if t, isT := eng.ConstBool(v); !isT || !t {
						allTrue = false
					}
				}
			}
			c.Ob("GUARD-delete", eng.FuncName(d)+" walks-all-rules", allTrue, cb.Pos(), "the walk visits every rule")
			inst := eng.Find(d, eng.StoreToField("FilerConf.rules"))
			c.AfterAll("GUARD-delete", "installs-rebuilt-set", d, walk, eng.StoreToField("FilerConf.rules"), nil, "the rebuilt rule set replaces the old one")
			if len(inst) == 1 {
				newTrie := eng.Find(d, eng.PlainCallTo("ptrie.New"))
				okNew := len(newTrie) == 1 && eng.Mentions(inst[0].(*ssa.Store).Val, 4, func(x ssa.Value) bool { return x == ssa.Value(newTrie[0].(*ssa.Call)) })
				c.Ob("GUARD-delete", eng.FuncName(d)+" installs-the-new-trie", okNew, inst[0].Pos(), "the installed set is the freshly built one")
			}
		}
	}
	c.Expect("GUARD-delete", 5)
	_ = strings.TrimSpace
}

// freshSources resolves the receiver of a load call to the values it may denote; a receiver captured by a function
// literal is followed to its binding in the enclosing function.
func freshSources(fn *ssa.Function, recv ssa.Value) []ssa.Value {
	var out []ssa.Value
	for _, v := range eng.Resolve(recv) {
		v = eng.Unwrap(v)
		if u, ok := v.(*ssa.UnOp); ok && u.Op == token.MUL {
			if fv, isFV := u.X.(*ssa.FreeVar); isFV && fn.Parent() != nil {
				if b := boundTo(fn.Parent(), fn, fv); b != nil {
					if al, isAl := b.(*ssa.Alloc); isAl {
						for _, r := range *al.Referrers() {
							if st, isSt := r.(*ssa.Store); isSt && st.Addr == ssa.Value(al) {
								out = append(out, eng.Unwrap(st.Val))
							}
						}
						continue
					}
					out = append(out, b)
					continue
				}
			}
		}
		if fv, isFV := v.(*ssa.FreeVar); isFV && fn.Parent() != nil {
			if b := boundTo(fn.Parent(), fn, fv); b != nil {
				out = append(out, freshSources(fn.Parent(), b)...)
				continue
			}
		}
		out = append(out, v)
	}
	return out
}
