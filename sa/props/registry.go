// Package props holds one obligation table per property.
package props

import "verif/sa/eng"

// Prop describes the static decision procedure of one property.
type Prop struct {
	ID          string
	Configs     []string // build configurations of the quick tier ("" = default)
	Run         func(c *eng.Ctx)
	Explanation string
	Assumptions []string
	Trusted     []string
}

var Registry = map[string]*Prop{}

func register(p *Prop) { Registry[p.ID] = p }

const tag5 = "5BytesOffset"

var baseTrusted = []string{"go/types, go/ssa, go/packages of golang.org/x/tools v0.29.0", "the rule implementations in /verif/sa/eng", "the obligation table in /verif/sa/props"}
