package props

import (
	"fmt"
	"go/ast"
	"go/token"
	"go/types"
	"sort"
	"strings"

	"golang.org/x/tools/go/ssa"

	"verif/sa/eng"
)

func init() {
	register(&Prop{
		ID:  "C24",
		Run: runC24,
		Explanation: "Static decision of writer/reader agreement of the filer's entry codec: (1) CODEC-attr: EntryAttributeToPb and PbToEntryAttribute map the same attribute to the same protobuf field, cover every field of Attr and every exported field of FuseAttributes; (2) CODEC-entry: ToExistingProtoEntry and FromPbEntryToExistingEntry are mutually inverse over all fields of Entry (attributes, chunks, extended, hard-link id and counter, content, remote); " +
			"(3) CODEC-fid: BeforeEntrySerialization and AfterEntryDeserialization treat the same (string, object) pairs of a chunk; (4) SIB-stores: the three embedded stores compress on insert above the same chunk-count threshold and decode every value they read (lookup and listing) through MaybeDecompressData; " +
			"(5) ORDER-wrapper: every read path of the store wrapper overlays the hard-link record before it canonicalises chunk file ids, and nothing replaces the chunks after that; every write path converts chunk ids before the store call. Protobuf and gzip round trips themselves are trusted.",
		Assumptions: []string{"proto.Marshal/Unmarshal round-trip every field", "MaybeDecompressData(MaybeGzipData(x)) == x"},
		Trusted:     baseTrusted,
	})
}

// lastSelOn returns the field names selected on the identifier `root` inside e (e.g. entry.Attr.Crtime.Unix() -> Crtime).
func selFieldsOn(e ast.Expr, root string) []string {
	var out []string
	ast.Inspect(e, func(n ast.Node) bool {
		se, ok := n.(*ast.SelectorExpr)
		if !ok {
			return true
		}
		// walk down to the root identifier
		chain := []string{se.Sel.Name}
		x := se.X
		for {
			if s2, ok := x.(*ast.SelectorExpr); ok {
				chain = append(chain, s2.Sel.Name)
				x = s2.X
				continue
			}
			break
		}
		if id, ok := x.(*ast.Ident); ok && id.Name == root {
			// chain is reversed: last element is the first selection on root
			first := chain[len(chain)-1]
			if first == "Attr" && len(chain) >= 2 {
				first = chain[len(chain)-2]
			}
			out = append(out, first)
			return false
		}
		return true
	})
	return out
}

func runC24(c *eng.Ctx) {
	hardLinkWriteThrough(c, "ORDER-wrapper")
	P := c.P
	// ---------------------------------------------------------------- (1) CODEC-attr
	wfd, wpk := P.FuncDecl("weed/filer", "EntryAttributeToPb")
	rfd, _ := P.FuncDecl("weed/filer", "PbToEntryAttribute")
	if wfd == nil || rfd == nil {
		c.Undecided("CODEC-attr", "functions", token.NoPos, "EntryAttributeToPb / PbToEntryAttribute not found")
	} else {
		c.Touch(c.NeedFunc("weed/filer", "EntryAttributeToPb"))
		c.Touch(c.NeedFunc("weed/filer", "PbToEntryAttribute"))
		w := map[string]string{} // pb field -> attr field
		lossy := map[string]string{}
		ast.Inspect(wfd, func(n ast.Node) bool {
			cl, ok := n.(*ast.CompositeLit)
			if !ok {
				return true
			}
			if t := wpk.TypesInfo.TypeOf(cl); t == nil || eng.TypeName(t) != "FuseAttributes" {
				return true
			}
			for _, el := range cl.Elts {
				kv, ok := el.(*ast.KeyValueExpr)
				if !ok {
					continue
				}
				key := kv.Key.(*ast.Ident).Name
				if op := maskingOp(kv.Value); op != "" {
					lossy[key] = op
				}
				fs := selFieldsOn(kv.Value, "entry")
				if len(fs) == 1 {
					w[key] = fs[0]
				} else {
					w[key] = "?" + strings.Join(fs, "+")
				}
			}
			return false
		})
		r := map[string]string{} // pb field -> attr field
		ast.Inspect(rfd, func(n ast.Node) bool {
			as, ok := n.(*ast.AssignStmt)
			if !ok || len(as.Lhs) != 1 || len(as.Rhs) != 1 {
				return true
			}
			lf := selFieldsOn(as.Lhs[0], "t")
			rf := selFieldsOn(as.Rhs[0], "attr")
			if len(lf) == 1 && len(rf) == 1 {
				if op := maskingOp(as.Rhs[0]); op != "" {
					lossy[rf[0]] = op
				}
				if old, dup := r[rf[0]]; dup {
					r[rf[0]] = old + "+" + lf[0]
				} else {
					r[rf[0]] = lf[0]
				}
			}
			return true
		})
		attrFields := structFields(P, "weed/filer", "Attr")
		var pbFields []string
		if pk := P.Pkg("weed/pb/filer_pb"); pk != nil {
			if st, ok := pk.Types.Scope().Lookup("FuseAttributes").Type().Underlying().(*types.Struct); ok {
				for i := 0; i < st.NumFields(); i++ {
					if st.Field(i).Exported() {
						pbFields = append(pbFields, st.Field(i).Name())
					}
				}
			}
		}
		if len(attrFields) < 15 || len(pbFields) < 15 {
			c.Undecided("CODEC-attr", "fields", wfd.Pos(), "Attr / FuseAttributes fields not found")
		}
		usedAttrW, usedAttrR := map[string]bool{}, map[string]bool{}
		for _, pf := range pbFields {
			c.Ob("CODEC-attr", "pb."+pf, w[pf] != "" && w[pf] == r[pf], wfd.Pos(), fmt.Sprintf("written from Attr.%s, read into Attr.%s", w[pf], r[pf]))
			c.Ob("CODEC-attr", "pb."+pf+" unmasked", lossy[pf] == "", wfd.Pos(), "the attribute is stored and restored whole, no bits are masked or shifted away"+ifs(lossy[pf] != "", " (operator "+lossy[pf]+")"))
			usedAttrW[w[pf]] = true
			usedAttrR[r[pf]] = true
		}
		for _, af := range attrFields {
			c.Ob("CODEC-attr", "attr."+af, usedAttrW[af] && usedAttrR[af], wfd.Pos(), "the attribute is both stored and restored")
		}
		c.Expect("CODEC-attr", 30)
	}

	// ---------------------------------------------------------------- (2) CODEC-entry
	wf := c.NeedFunc("weed/filer", "(*Entry).ToExistingProtoEntry")
	rf := c.NeedFunc("weed/filer", "FromPbEntryToExistingEntry")
	if wf != nil && rf != nil {
		// writer: store to pb Entry.F of something derived from fs Entry.G ; reader: store to fs Entry.G from pb Entry.F
		pair := func(fn *ssa.Function, dstIsPb bool) map[string]string {
			out := map[string]string{}
			for _, in := range eng.Find(fn, func(in ssa.Instruction) bool { _, ok := in.(*ssa.Store); return ok }) {
				st := in.(*ssa.Store)
				spec := eng.FieldSpec(st.Addr)
				if !strings.HasPrefix(spec, "Entry.") {
					continue
				}
				dstPkg := pkgOfType(eng.FieldBase(st.Addr).Type())
				if dstIsPb != strings.HasSuffix(dstPkg, "filer_pb") {
					continue
				}
				var srcs []string
				eng.Walk(st.Val, 6, func(x ssa.Value) bool {
					if f := eng.FieldSpec(x); strings.HasPrefix(f, "Entry.") {
						if b := eng.FieldBase(x); b != nil && strings.HasSuffix(pkgOfType(b.Type()), "filer_pb") != dstIsPb {
							srcs = append(srcs, strings.TrimPrefix(f, "Entry."))
						}
					}
					if call, ok := x.(*ssa.Call); ok {
						switch {
						case eng.CalleeIs(call, "filer.EntryAttributeToPb"), eng.CalleeIs(call, "filer.PbToEntryAttribute"):
							if dstIsPb {
								srcs = append(srcs, "Attr")
							}
						case eng.CalleeIs(call, "filer.Entry).IsDirectory"), eng.CalleeIs(call, "filer.Attr).IsDirectory"):
							srcs = append(srcs, "Attr(mode)")
						}
					}
					return true
				})
				sort.Strings(srcs)
				out[strings.TrimPrefix(spec, "Entry.")] = strings.Join(uniq(srcs), "+")
			}
			return out
		}
		w := pair(wf, true)  // pbField -> fsField
		r := pair(rf, false) // fsField -> pbField
		want := map[string]string{"Attributes": "Attr", "Chunks": "Chunks", "Extended": "Extended", "HardLinkId": "HardLinkId", "HardLinkCounter": "HardLinkCounter", "Content": "Content", "Remote": "Remote"}
		for pf, ff := range want {
			got := w[pf]
			back := r[ff]
			c.Ob("CODEC-entry", "pb."+pf+" <-> "+ff, got == ff && back == pf, wf.Pos(), fmt.Sprintf("writer stores pb.%s from entry.{%s}; reader restores entry.%s from pb.{%s}", pf, got, ff, back))
		}
		// exhaustive over the fs Entry
		for _, f := range structFields(P, "weed/filer", "Entry") {
			if f == "FullPath" {
				continue // the key, not part of the value
			}
			_, restored := r[f]
			c.Ob("CODEC-entry", "entry."+f+" restored", restored, rf.Pos(), "every field of the entry is restored from the stored value")
		}
		c.Expect("CODEC-entry", 14)
	}
	if enc := c.NeedFunc("weed/filer", "(*Entry).EncodeAttributesAndChunks"); enc != nil {
		c.Ob("CODEC-entry", eng.FuncName(enc)+" uses-writer", len(eng.Find(enc, eng.PlainCallTo("filer.Entry).ToExistingProtoEntry"))) == 1 && len(eng.Find(enc, eng.PlainCallTo("proto.Marshal"))) == 1, enc.Pos(), "the stored value is the marshalled protobuf built by ToExistingProtoEntry")
	}
	if dec := c.NeedFunc("weed/filer", "(*Entry).DecodeAttributesAndChunks"); dec != nil {
		um := eng.Find(dec, eng.PlainCallTo("proto.UnmarshalMerge", "proto.Unmarshal"))
		fr := eng.Find(dec, eng.PlainCallTo("filer.FromPbEntryToExistingEntry"))
		if len(um) == 1 && len(fr) == 1 {
			c.Guard("CODEC-entry", "restore-after-unmarshal", dec, eng.Entry(dec), fr, eng.PassEdges(dec, eng.ErrNil(eng.ErrOf(um[0]))), "the entry is restored only from a successfully decoded value")
			c.ErrChecked("CODEC-entry", "unmarshal-error", dec, um, "a value that does not decode is an error, not an empty entry")
		} else {
			c.Undecided("CODEC-entry", eng.FuncName(dec), dec.Pos(), "unmarshal / restore calls not found")
		}
	}

	// ---------------------------------------------------------------- (3) CODEC-fid
	bf := c.NeedFunc("weed/pb/filer_pb", "BeforeEntrySerialization")
	af := c.NeedFunc("weed/pb/filer_pb", "AfterEntryDeserialization")
	if bf != nil && af != nil {
		for _, pr := range [][2]string{{"FileId", "Fid"}, {"SourceFileId", "SourceFid"}} {
			str, obj := "FileChunk."+pr[0], "FileChunk."+pr[1]
			// before: obj set from ToFileIdObject(str), str cleared, both on the parse-success edge
			okB := false
			for _, st := range eng.Find(bf, eng.StoreToField(obj)) {
				if eng.Mentions(st.(*ssa.Store).Val, 4, func(x ssa.Value) bool {
					call, ok := x.(*ssa.Call)
					return ok && eng.CalleeIs(call, "filer_pb.ToFileIdObject") && eng.MentionsField(call.Call.Args[0], str)
				}) {
					okB = true
				}
			}
			clr := eng.Find(bf, func(in ssa.Instruction) bool {
				st, ok := in.(*ssa.Store)
				if !ok || eng.FieldSpec(st.Addr) != str {
					return false
				}
				s, isS := eng.ConstString(st.Val)
				return isS && s == ""
			})
			parse := eng.Find(bf, func(in ssa.Instruction) bool {
				call, ok := in.(*ssa.Call)
				return ok && eng.CalleeIs(call, "filer_pb.ToFileIdObject") && eng.MentionsField(call.Call.Args[0], str)
			})
			okClr := len(clr) == 1 && len(parse) == 1
			if okClr {
				hit, _ := eng.Search(eng.Entry(bf), eng.Is(clr[0]), eng.SearchOpt{Cut: eng.PassEdges(bf, eng.ErrNil(eng.ErrOf(parse[0])))})
				okClr = hit == nil
			}
			c.Ob("CODEC-fid", eng.FuncName(bf)+" "+pr[0], okB && okClr, bf.Pos(), fmt.Sprintf("%s is parsed into %s and cleared only when the parse succeeded (an unparsable id is kept as a string)", pr[0], pr[1]))
			// after: str restored from obj when str is empty
			okA := false
			for _, st := range eng.Find(af, eng.StoreToField(str)) {
				if eng.Mentions(st.(*ssa.Store).Val, 4, func(x ssa.Value) bool {
					call, ok := x.(*ssa.Call)
					return ok && eng.CalleeIs(call, "filer_pb.FileId).toFileIdString") && eng.MentionsField(call.Call.Args[0], obj)
				}) {
					okA = true
				}
			}
			c.Ob("CODEC-fid", eng.FuncName(af)+" "+pr[0], okA, af.Pos(), fmt.Sprintf("%s is restored from %s", pr[0], pr[1]))
		}
	}
	c.Expect("CODEC-fid", 4)

	// ---------------------------------------------------------------- (4) SIB-stores
	type store struct{ rel, typ string }
	stores := []store{{"weed/filer/leveldb", "LevelDBStore"}, {"weed/filer/leveldb2", "LevelDB2Store"}, {"weed/filer/leveldb3", "LevelDB3Store"}}
	thresholds := map[string]int64{}
	for _, s := range stores {
		if fn := c.NeedFunc(s.rel, "(*"+s.typ+").InsertEntry"); fn != nil {
			gz := eng.Find(fn, eng.PlainCallTo("util.MaybeGzipData"))
			enc := eng.Find(fn, eng.PlainCallTo("filer.Entry).EncodeAttributesAndChunks"))
			var th int64 = -1
			big := func(cond ssa.Value) (bool, bool) {
				b, ok := cond.(*ssa.BinOp)
				if !ok || b.Op != token.GTR {
					return false, false
				}
				call, ok := b.X.(*ssa.Call)
				if !ok || !eng.CalleeIs(call, "builtin.len") || !eng.MentionsField(call.Call.Args[0], "Entry.Chunks") {
					return false, false
				}
				k, isK := eng.ConstInt(b.Y)
				if isK {
					th = k
				}
				return isK, true
			}
			edges := eng.PassEdges(fn, big)
			thresholds[s.typ] = th
			ok := len(gz) == 1 && len(enc) == 1 && len(edges) == 1
			if ok {
				ok = eng.MentionsValue(gz[0].(*ssa.Call).Call.Args[0], eng.ResultOf(enc[0], 0))
			}
			c.Ob("SIB-stores", eng.FuncName(fn)+" compress-encoded-value", ok, fn.Pos(), fmt.Sprintf("the encoded value is gzip-compressed when the entry has more than %d chunks", th))
			c.ErrChecked("SIB-stores", "encode-error", fn, enc, "an entry that cannot be encoded is not stored")
		}
		for _, m := range []string{"FindEntry", "ListDirectoryPrefixedEntries"} {
			fn := c.NeedFunc(s.rel, "(*"+s.typ+")."+m)
			if fn == nil {
				continue
			}
			decs := eng.Find(fn, eng.PlainCallTo("filer.Entry).DecodeAttributesAndChunks"))
			ok := len(decs) >= 1
			for _, d := range decs {
				arg := eng.Arg(d.(*ssa.Call), 0)
				call, isCall := arg.(*ssa.Call)
				if !isCall || !eng.CalleeIs(call, "util.MaybeDecompressData") {
					ok = false
				}
			}
			c.Ob("SIB-stores", eng.FuncName(fn)+" decode-through-decompress", ok, fn.Pos(), "every stored value is decoded through MaybeDecompressData (values of large entries are stored compressed)")
			c.ErrChecked("SIB-stores", "decode-error", fn, decs, "a value that does not decode is reported")
		}
	}
	same := true
	for _, s := range stores {
		if thresholds[s.typ] != thresholds[stores[0].typ] || thresholds[s.typ] < 0 {
			same = false
		}
	}
	c.Ob("SIB-stores", "same-threshold", same, token.NoPos, fmt.Sprintf("the three stores compress above the same chunk count: %v", thresholds))
	c.Expect("SIB-stores", 16)

	// ---------------------------------------------------------------- (5) ORDER-wrapper
	nAfter := 0
	for _, fn := range P.SrcFuncs("weed/filer") {
		root := fn
		for root.Parent() != nil {
			root = root.Parent()
		}
		if recvTypeName(root) != "FilerStoreWrapper" {
			continue
		}
		afters := eng.Find(fn, eng.PlainCallTo("filer_pb.AfterEntryDeserialization"))
		if len(afters) == 0 {
			continue
		}
		nAfter += len(afters)
		c.Before("ORDER-wrapper", "overlay-before-canonicalise", fn, eng.PlainCallTo("filer.FilerStoreWrapper).maybeReadHardLink"), afters, "the hard-link record (which replaces the chunk list) is overlaid before chunk ids are made canonical")
		for i, a := range afters {
			hit, _ := eng.Search(eng.After(a), eng.PlainCallTo("filer.FilerStoreWrapper).maybeReadHardLink", "filer.Entry).DecodeAttributesAndChunks"), eng.SearchOpt{})
			c.Ob("ORDER-wrapper", fmt.Sprintf("%s nothing-replaces-chunks-after#%d", eng.FuncName(fn), i), hit == nil, a.Pos(), "after canonicalisation the chunk list is not replaced again before the entry reaches the caller")
			c.Ob("ORDER-wrapper", fmt.Sprintf("%s canonicalises-entry-chunks#%d", eng.FuncName(fn), i), eng.MentionsField(a.(*ssa.Call).Call.Args[0], "Entry.Chunks"), a.Pos(), "the chunks canonicalised are the entry's")
		}
	}
	if nAfter < 3 {
		c.Undecided("ORDER-wrapper", "discovery", token.NoPos, fmt.Sprintf("only %d read paths canonicalising chunks found in the store wrapper, expected >= 3", nAfter))
	}
	for _, m := range []string{"InsertEntry", "UpdateEntry"} {
		fn := c.NeedFunc("weed/filer", "(*FilerStoreWrapper)."+m)
		if fn == nil {
			continue
		}
		sinks := eng.Find(fn, eng.PlainCallTo("filer.FilerStore)."+m))
		if len(sinks) == 0 {
			c.Undecided("ORDER-wrapper", eng.FuncName(fn), fn.Pos(), "store call not found")
			continue
		}
		c.Before("ORDER-wrapper", "serialise-ids-before-store", fn, eng.PlainCallTo("filer_pb.BeforeEntrySerialization"), sinks, "chunk ids are converted to their compact form before the entry is handed to the store")
	}
	c.Expect("ORDER-wrapper", 11)
}

func pkgOfType(t types.Type) string {
	t = eng.Deref(t)
	if n, ok := t.(*types.Named); ok && n.Obj().Pkg() != nil {
		return n.Obj().Pkg().Path()
	}
	return ""
}

// maskingOp returns the first bit-dropping operator (&, &^, >>, <<, %) applied inside e, or "".
func maskingOp(e ast.Expr) string {
	op := ""
	ast.Inspect(e, func(n ast.Node) bool {
		if b, ok := n.(*ast.BinaryExpr); ok && op == "" {
			switch b.Op {
			case token.AND, token.AND_NOT, token.SHR, token.SHL, token.REM:
				op = b.Op.String()
			}
		}
		return true
	})
	return op
}
