package props

import (
	"fmt"
	"go/ast"
	"go/constant"
	"go/token"
	"go/types"
	"sort"
	"strings"

	"golang.org/x/tools/go/packages"
	"golang.org/x/tools/go/ssa"

	"verif/sa/eng"
)

func init() {
	register(&Prop{
		ID:      "C08",
		Configs: []string{"", tag5},
		Run:     runC08,
		Explanation: "Static decision of encoder/decoder agreement for persistent identifiers: (1) CODEC-superblock: SuperBlock.Bytes and ReadSuperBlock use the same byte ranges for the same fields; UNFILLED: the extra-data buffer is filled from the file before it is unmarshalled; " +
			"(2) CODEC-ttl: toStoredByte and TTL.String are inverse tables over {Minute..Year}, Minutes covers the same units, ToBytes/LoadTTLFromBytes and ToUint32/LoadTTLFromUint32 agree on which byte holds count and unit; (3) CODEC-rp: ReplicaPlacement.Byte weights, the %03d decoding positions and String positions agree; " +
			"(4) CODEC-fid / CODEC-idx: formatNeedleIdCookie and ParseNeedleIdCookie split at the same size constants; needle_map.ToBytes and idx.IdxFileEntry use the same ranges (both offset widths); OffsetToBytes/BytesToOffset are inverse byte permutations; " +
			"(5) NARROW: decoders that promise to reject invalid encodings parse with the bit size and signedness of their target type (or range-check). Value-level round trips and protobuf are not decided.",
		Assumptions: []string{"protobuf Marshal/Unmarshal round-trips (library)", "hex/strconv behave as documented"},
		Trusted:     baseTrusted,
	})
}

// ---- AST helpers -----------------------------------------------------------

func constOf(pk *packages.Package, e ast.Expr) (constant.Value, bool) {
	tv, ok := pk.TypesInfo.Types[e]
	if !ok || tv.Value == nil {
		return nil, false
	}
	return tv.Value, true
}

// switchTable extracts case-constant -> returned-constant (the constant found in the returned expression) from the first switch of fd.
func switchTable(pk *packages.Package, fd *ast.FuncDecl, wantStringSuffix bool) (map[string]string, token.Pos) {
	out := map[string]string{}
	var pos token.Pos
	ast.Inspect(fd.Body, func(n ast.Node) bool {
		sw, ok := n.(*ast.SwitchStmt)
		if !ok {
			return true
		}
		pos = sw.Pos()
		for _, st := range sw.Body.List {
			cc := st.(*ast.CaseClause)
			for _, ce := range cc.List {
				cv, ok := constOf(pk, ce)
				if !ok {
					continue
				}
				for _, s := range cc.Body {
					rs, ok := s.(*ast.ReturnStmt)
					if !ok || len(rs.Results) == 0 {
						continue
					}
					var rv constant.Value
					ast.Inspect(rs.Results[0], func(m ast.Node) bool {
						if e, ok := m.(ast.Expr); ok {
							if v, ok := constOf(pk, e); ok {
								if wantStringSuffix && v.Kind() != constant.String {
									return true
								}
								if rv == nil {
									rv = v
								}
								return false
							}
						}
						return true
					})
					if rv != nil {
						out[cv.ExactString()] = rv.ExactString()
					} else if _, seen := out[cv.ExactString()]; !seen {
						out[cv.ExactString()] = ""
					}
				}
			}
		}
		return false
	})
	return out, pos
}

func runC08(c *eng.Ctx) {
	P := c.P
	// ---------------- (1) super block
	sbSize, _ := namedConst(P, "weed/storage/super_block", "SuperBlockSize")
	isHeader := func(v ssa.Value) bool { return eng.BufLenOf(v) == sbSize }
	keepSB := func(n string) bool { return strings.HasPrefix(n, "SuperBlock.") }
	w := c.NeedFunc("weed/storage/super_block", "(*SuperBlock).Bytes")
	r := c.NeedFunc("weed/storage/super_block", "ReadSuperBlock")
	if w != nil && r != nil {
		wi, wu := eng.BufferLayout(w, isHeader, true)
		ri, ru := eng.BufferLayout(r, isHeader, false)
		wm, rm := eng.LayoutMap(wi, keepSB), eng.LayoutMap(ri, keepSB)
		for _, u := range append(wu, ru...) {
			c.Undecided("CODEC-superblock", "layout", w.Pos(), u)
		}
		keys := map[string]bool{}
		for k := range wm {
			keys[k] = true
		}
		for k := range rm {
			keys[k] = true
		}
		var ks []string
		for k := range keys {
			ks = append(ks, k)
		}
		sort.Strings(ks)
		for _, k := range ks {
			if k == fmt.Sprintf("[0:%d]", sbSize) {
				continue // the whole header (append of the variable-length tail)
			}
			c.Ob("CODEC-superblock", "bytes"+k, wm[k] == rm[k] && wm[k] != "", w.Pos(), fmt.Sprintf("writer stores %q, reader loads %q", wm[k], rm[k]))
		}
		c.Expect("CODEC-superblock", 5)
		// UNFILLED: every buffer handed to proto.Unmarshal was filled by a read
		for i, call := range eng.Find(r, eng.PlainCallTo("proto.Unmarshal")) {
			buf := call.(*ssa.Call).Call.Args[0]
			filled := false
			var src ssa.Value
			eng.Walk(buf, 3, func(v ssa.Value) bool {
				switch v.(type) {
				case *ssa.MakeSlice, *ssa.Alloc:
					src = v
					return false
				}
				return true
			})
			if src == nil {
				filled = true // not a freshly made buffer (e.g. data returned by a read helper)
			} else {
				var uses func(v ssa.Value, d int)
				seen := map[ssa.Value]bool{}
				uses = func(v ssa.Value, d int) {
					if seen[v] || d < 0 {
						return
					}
					seen[v] = true
					for _, ref := range *v.Referrers() {
						switch y := ref.(type) {
						case *ssa.Call:
							if y != call && eng.CalleeIs(y, "io.ReaderAt).ReadAt", "io.Reader).Read", "io.ReadFull", "builtin.copy", "os.File).ReadAt", "os.File).Read", "backend.BackendStorageFile).ReadAt") {
								if eng.Dominates(y, call) {
									filled = true
								}
							}
						case *ssa.Slice:
							uses(y, d-1)
						}
					}
				}
				uses(src, 3)
			}
			c.Ob("UNFILLED-decode", fmt.Sprintf("%s unmarshal#%d", eng.FuncName(r), i), filled, call.Pos(), "a freshly allocated buffer is filled by a read before it is decoded (otherwise zeros are decoded instead of the file content)")
		}
	}

	// ---------------- (2) TTL tables
	if fd, pk := P.FuncDecl("weed/storage/needle", "toStoredByte"); fd != nil {
		fwd, pos := switchTable(pk, fd, false)
		sd, pk2 := P.FuncDecl("weed/storage/needle", "(*TTL).String")
		md, pk3 := P.FuncDecl("weed/storage/needle", "(TTL).Minutes")
		if sd == nil || md == nil {
			c.Undecided("CODEC-ttl", "anchors", pos, "TTL.String / TTL.Minutes not found")
		} else {
			back, _ := switchTable(pk2, sd, true) // unit -> "\"m\""
			mins, _ := switchTable(pk3, md, false)
			units := []string{"Minute", "Hour", "Day", "Week", "Month", "Year"}
			for _, u := range units {
				o := pk.Types.Scope().Lookup(u)
				if o == nil {
					c.Undecided("CODEC-ttl", "unit "+u, pos, "unit constant not found")
					continue
				}
				uv := o.(*types.Const).Val().ExactString()
				// find the char mapped to this unit
				var ch string
				n := 0
				for k, v := range fwd {
					if v == uv {
						ch = k
						n++
					}
				}
				okInv := false
				if n == 1 {
					// back[uv] is the suffix string constant e.g. "\"m\"" ; ch is the rune code e.g. 109
					suf := strings.Trim(back[uv], "\"")
					okInv = len(suf) == 1 && fmt.Sprint(int(suf[0])) == ch
				}
				c.Ob("CODEC-ttl", "unit "+u+" string<->stored inverse", okInv, pos, fmt.Sprintf("toStoredByte maps %s -> unit %s exactly once and TTL.String maps it back (suffix %s)", ch, uv, back[uv]))
				_, inMin := mins[uv]
				c.Ob("CODEC-ttl", "unit "+u+" has-minutes", inMin, md.Pos(), "TTL.Minutes handles the unit")
			}
		}
	}
	// TTL bytes / uint32
	if wf, rf := c.NeedFunc("weed/storage/needle", "(*TTL).ToBytes"), c.NeedFunc("weed/storage/needle", "LoadTTLFromBytes"); wf != nil && rf != nil {
		isParamBuf := func(name string) func(ssa.Value) bool { return func(v ssa.Value) bool { return eng.IsParam(v, name) } }
		keep := func(n string) bool { return strings.HasPrefix(n, "TTL.") }
		wi, _ := eng.BufferLayout(wf, isParamBuf("output"), true)
		ri, _ := eng.BufferLayout(rf, isParamBuf("input"), false)
		wm, rm := eng.LayoutMap(wi, keep), eng.LayoutMap(ri, keep)
		for _, k := range []string{"[0:1]", "[1:2]"} {
			c.Ob("CODEC-ttl", "bytes"+k, wm[k] == rm[k] && wm[k] != "", wf.Pos(), fmt.Sprintf("ToBytes stores %q, LoadTTLFromBytes loads %q", wm[k], rm[k]))
		}
	}
	// "no TTL" is identified by the pointer EMPTY_TTL throughout the system (n.Ttl == EMPTY_TTL, v.Ttl != EMPTY_TTL): the
	// decoder must hand out that very value for the all-zero encoding, a fresh TTL only when some byte is non-zero
	if rf := c.NeedFunc("weed/storage/needle", "LoadTTLFromBytes"); rf != nil {
		zeroByte := eng.Cmp(func(v ssa.Value) bool {
			u, ok := v.(*ssa.UnOp)
			if !ok || u.Op != token.MUL {
				return false
			}
			ia, ok := u.X.(*ssa.IndexAddr)
			return ok && eng.IsParam(ia.X, "input")
		}, func(v ssa.Value) bool { k, ok := eng.ConstInt(v); return ok && k == 0 }, token.EQL)
		var fresh []ssa.Instruction
		for _, in := range eng.Find(rf, func(in ssa.Instruction) bool {
			a, ok := in.(*ssa.Alloc)
			return ok && a.Heap && eng.TypeName(a.Type()) == "TTL"
		}) {
			fresh = append(fresh, in)
		}
		if len(fresh) == 0 {
			c.Undecided("CODEC-ttl", "empty-ttl-identity", rf.Pos(), "no TTL allocation found in LoadTTLFromBytes")
		}
		c.Guard("CODEC-ttl", "empty-ttl-identity", rf, eng.Entry(rf), fresh, eng.FailEdges(rf, zeroByte),
			"a fresh TTL value is built only when a stored byte is non-zero; the all-zero encoding decodes to the EMPTY_TTL value the rest of the system compares against")
		sentinel := false
		for _, r := range eng.Find(rf, eng.IsReturn) {
			for _, v := range eng.ResolveFrom(r.(*ssa.Return).Results[0], r) {
				if u, ok := v.(*ssa.UnOp); ok && u.Op == token.MUL {
					if g, isG := u.X.(*ssa.Global); isG && g.Name() == "EMPTY_TTL" {
						sentinel = true
					}
				}
			}
		}
		c.Ob("CODEC-ttl", "empty-ttl-returned", sentinel, rf.Pos(), "LoadTTLFromBytes can return EMPTY_TTL")
	}
	if wf, rf := c.NeedFunc("weed/storage/needle", "(*TTL).ToUint32"), c.NeedFunc("weed/storage/needle", "LoadTTLFromUint32"); wf != nil && rf != nil {
		// writer: field << shift ; reader: input[i] = byte(ttl >> shift) and input -> LoadTTLFromBytes (i=0 count, i=1 unit)
		wsh := map[string]int64{}
		for _, in := range eng.Find(wf, func(in ssa.Instruction) bool { _, ok := in.(*ssa.BinOp); return ok }) {
			b := in.(*ssa.BinOp)
			if b.Op == token.SHL {
				if k, ok := eng.ConstInt(b.Y); ok {
					for _, f := range []string{"TTL.Count", "TTL.Unit"} {
						if eng.MentionsField(b.X, f) {
							wsh[f] = k
						}
					}
				}
			}
		}
		for _, f := range []string{"TTL.Count", "TTL.Unit"} {
			if _, ok := wsh[f]; !ok {
				// unshifted operand of the sum
				for _, in := range eng.Find(wf, func(in ssa.Instruction) bool {
					b, ok := in.(*ssa.BinOp)
					return ok && (b.Op == token.ADD || b.Op == token.OR)
				}) {
					b := in.(*ssa.BinOp)
					for _, side := range []ssa.Value{b.X, b.Y} {
						if _, isShift := side.(*ssa.BinOp); !isShift && eng.MentionsField(side, f) {
							wsh[f] = 0
						}
					}
				}
			}
		}
		rsh := map[int64]int64{} // buffer index -> shift
		for _, in := range eng.Find(rf, func(in ssa.Instruction) bool { _, ok := in.(*ssa.Store); return ok }) {
			st := in.(*ssa.Store)
			ia, ok := st.Addr.(*ssa.IndexAddr)
			if !ok {
				continue
			}
			idx, ok := eng.ConstInt(ia.Index)
			if !ok {
				continue
			}
			sh := int64(0)
			eng.Walk(st.Val, 3, func(v ssa.Value) bool {
				if b, ok := v.(*ssa.BinOp); ok && b.Op == token.SHR {
					if k, ok := eng.ConstInt(b.Y); ok {
						sh = k
					}
				}
				return true
			})
			rsh[idx] = sh
		}
		// index 0 = count, 1 = unit (decided by the bytes codec above)
		okU32 := len(wsh) == 2 && len(rsh) == 2 && wsh["TTL.Count"] == rsh[0] && wsh["TTL.Unit"] == rsh[1] && wsh["TTL.Count"] != wsh["TTL.Unit"]
		c.Ob("CODEC-ttl", "uint32 shifts", okU32, wf.Pos(), fmt.Sprintf("ToUint32 shifts count<<%d unit<<%d; LoadTTLFromUint32 takes byte0=ttl>>%d byte1=ttl>>%d", wsh["TTL.Count"], wsh["TTL.Unit"], rsh[0], rsh[1]))
	}

	// ---------------- (3) replica placement
	if bf := c.NeedFunc("weed/storage/super_block", "(*ReplicaPlacement).Byte"); bf != nil {
		weights := map[string]int64{}
		fields := []string{"ReplicaPlacement.DiffDataCenterCount", "ReplicaPlacement.DiffRackCount", "ReplicaPlacement.SameRackCount"}
		for _, in := range eng.Find(bf, func(in ssa.Instruction) bool { b, ok := in.(*ssa.BinOp); return ok && b.Op == token.MUL }) {
			b := in.(*ssa.BinOp)
			if k, ok := eng.ConstInt(b.Y); ok {
				for _, f := range fields {
					if eng.IsField(b.X, f) {
						weights[f] = k
					}
				}
			}
		}
		for _, in := range eng.Find(bf, func(in ssa.Instruction) bool { b, ok := in.(*ssa.BinOp); return ok && b.Op == token.ADD }) {
			b := in.(*ssa.BinOp)
			for _, side := range []ssa.Value{b.X, b.Y} {
				for _, f := range fields {
					if eng.IsField(side, f) {
						weights[f] = 1
					}
				}
			}
		}
		// positions in NewReplicaPlacementFromString (switch i) and String (b[i])
		posParse := map[string]int64{}
		if pf := c.NeedFunc("weed/storage/super_block", "NewReplicaPlacementFromString"); pf != nil {
			for _, in := range eng.Find(pf, func(in ssa.Instruction) bool { _, ok := in.(*ssa.Store); return ok }) {
				st := in.(*ssa.Store)
				f := eng.FieldSpec(st.Addr)
				if f == "" {
					continue
				}
				// the store's block is guarded by i == k
				for _, b := range pf.Blocks {
					if iff, ok := b.Instrs[len(b.Instrs)-1].(*ssa.If); ok {
						if bo, ok := iff.Cond.(*ssa.BinOp); ok && bo.Op == token.EQL {
							if k, isC := eng.ConstInt(bo.Y); isC && b.Succs[0] == st.Block() {
								posParse[f] = k
							}
						}
					}
				}
			}
		}
		posStr := map[string]int64{}
		if sf := c.NeedFunc("weed/storage/super_block", "(*ReplicaPlacement).String"); sf != nil {
			for _, in := range eng.Find(sf, func(in ssa.Instruction) bool { _, ok := in.(*ssa.Store); return ok }) {
				st := in.(*ssa.Store)
				if ia, ok := st.Addr.(*ssa.IndexAddr); ok {
					if k, isC := eng.ConstInt(ia.Index); isC {
						for _, f := range fields {
							if eng.MentionsField(st.Val, f) {
								posStr[f] = k
							}
						}
					}
				}
			}
		}
		pow := map[int64]int64{0: 100, 1: 10, 2: 1}
		for _, f := range fields {
			pp, ok1 := posParse[f]
			ps, ok2 := posStr[f]
			wv, ok3 := weights[f]
			c.Ob("CODEC-rp", f+" weight<->position", ok1 && ok2 && ok3 && pp == ps && pow[pp] == wv, bf.Pos(),
				fmt.Sprintf("Byte weight %d, parse position %d, String position %d (weight must be 10^(2-position))", wv, pp, ps))
		}
		// the byte decoder formats with exactly three zero-padded digits
		if ff := c.NeedFunc("weed/storage/super_block", "NewReplicaPlacementFromByte"); ff != nil {
			okFmt := false
			for _, call := range eng.Find(ff, eng.PlainCallTo("fmt.Sprintf")) {
				if s, ok := eng.ConstString(call.(*ssa.Call).Call.Args[0]); ok && s == "%03d" {
					okFmt = true
				}
			}
			c.Ob("CODEC-rp", "byte decoder digits", okFmt, ff.Pos(), "the byte is decoded through exactly three zero-padded decimal digits")
		}
	}

	// ---------------- (4) file id and index entry
	idSize, _ := namedConst(P, "weed/storage/types", "NeedleIdSize")
	ckSize, _ := namedConst(P, "weed/storage/types", "CookieSize")
	offSize, _ := namedConst(P, "weed/storage/types", "OffsetSize")
	szSize, _ := namedConst(P, "weed/storage/types", "SizeSize")
	if ff := c.NeedFunc("weed/storage/needle", "formatNeedleIdCookie"); ff != nil {
		items, _ := eng.BufferLayout(ff, func(v ssa.Value) bool { return eng.BufLenOf(v) == idSize+ckSize }, true)
		m := eng.LayoutMap(items, func(n string) bool { return strings.HasPrefix(n, "param:") })
		k1, k2 := fmt.Sprintf("[0:%d]", idSize), fmt.Sprintf("[%d:%d]", idSize, idSize+ckSize)
		c.Ob("CODEC-fid", "format key-range", m[k1] == "param:key", ff.Pos(), fmt.Sprintf("the key is encoded in bytes %s (found %v)", k1, m))
		c.Ob("CODEC-fid", "format cookie-range", m[k2] == "param:cookie", ff.Pos(), fmt.Sprintf("the cookie is encoded in the fixed-width bytes %s (found %v)", k2, m))
		hexed := len(eng.Find(ff, eng.PlainCallTo("hex.EncodeToString"))) > 0
		c.Ob("CODEC-fid", "format hex", hexed, ff.Pos(), "the buffer is hex-encoded (two characters per byte, so the cookie always takes CookieSize*2 characters)")
	}
	if pf := c.NeedFunc("weed/storage/needle", "ParseNeedleIdCookie"); pf != nil {
		// split = len(s) - CookieSize*2
		okSplit := false
		for _, in := range eng.Find(pf, func(in ssa.Instruction) bool { b, ok := in.(*ssa.BinOp); return ok && b.Op == token.SUB }) {
			b := in.(*ssa.BinOp)
			if k, ok := eng.ConstInt(b.Y); ok && k == ckSize*2 && eng.MentionsParam(b.X, "key_hash_string") {
				okSplit = true
			}
		}
		c.Ob("CODEC-fid", "parse split", okSplit, pf.Pos(), fmt.Sprintf("the string is split CookieSize*2 = %d characters from the end", ckSize*2))
		// length bounds
		lo, hi := false, false
		for _, in := range eng.Find(pf, func(in ssa.Instruction) bool { _, ok := in.(*ssa.BinOp); return ok }) {
			b := in.(*ssa.BinOp)
			if k, ok := eng.ConstInt(b.Y); ok {
				if b.Op == token.LEQ && k == ckSize*2 {
					lo = true
				}
				if b.Op == token.GTR && k == (idSize+ckSize)*2 {
					hi = true
				}
			}
		}
		c.Ob("CODEC-fid", "parse bounds", lo && hi, pf.Pos(), "too short (<= cookie width) and too long (> key+cookie width) strings are rejected")
		c.ErrChecked("ERR-fid", "parse", pf, eng.Find(pf, eng.PlainCallTo("types.ParseNeedleId", "types.ParseCookie")), "a malformed key or cookie is rejected")
	}
	if wf, rf := c.NeedFunc("weed/storage/needle_map", "ToBytes"), c.NeedFunc("weed/storage/idx", "IdxFileEntry"); wf != nil && rf != nil {
		wi, _ := eng.BufferLayout(wf, func(v ssa.Value) bool { return eng.BufLenOf(v) == idSize+offSize+szSize }, true)
		ri, _ := eng.BufferLayout(rf, func(v ssa.Value) bool { return eng.IsParam(v, "bytes") }, false)
		wm := eng.LayoutMap(wi, func(n string) bool { return strings.HasPrefix(n, "param:") })
		rm := eng.LayoutMap(ri, func(n string) bool { return strings.HasPrefix(n, "result:") })
		exp := map[string][2]string{
			fmt.Sprintf("[0:%d]", idSize):                                 {"param:key", "result:key"},
			fmt.Sprintf("[%d:%d]", idSize, idSize+offSize):                {"param:offset", "result:offset"},
			fmt.Sprintf("[%d:%d]", idSize+offSize, idSize+offSize+szSize): {"param:size", "result:size"},
		}
		for k, e := range exp {
			c.Ob("CODEC-idx", "entry"+k, wm[k] == e[0] && rm[k] == e[1], wf.Pos(), fmt.Sprintf("ToBytes writes %q, IdxFileEntry reads %q at %s", wm[k], rm[k], k))
		}
	}
	if wf, rf := c.NeedFunc("weed/storage/types", "OffsetToBytes"), c.NeedFunc("weed/storage/types", "BytesToOffset"); wf != nil && rf != nil {
		keep := func(n string) bool {
			return strings.HasPrefix(n, "OffsetLower.") || strings.HasPrefix(n, "OffsetHigher.")
		}
		wi, _ := eng.BufferLayout(wf, func(v ssa.Value) bool { return eng.IsParam(v, "bytes") }, true)
		ri, _ := eng.BufferLayout(rf, func(v ssa.Value) bool { return eng.IsParam(v, "bytes") }, false)
		wm, rm := eng.LayoutMap(wi, keep), eng.LayoutMap(ri, keep)
		for i := int64(0); i < offSize; i++ {
			k := fmt.Sprintf("[%d:%d]", i, i+1)
			c.Ob("CODEC-idx", "offset-byte"+k, wm[k] == rm[k] && wm[k] != "", wf.Pos(), fmt.Sprintf("OffsetToBytes stores %q, BytesToOffset loads %q", wm[k], rm[k]))
		}
	}

	// ---------------- (4b) the "_<n>" suffix of a file id: writers and the reader use the same number base
	if rf := c.NeedFunc("weed/storage/needle", "(*Needle).ParsePath"); rf != nil {
		rbase := int64(-1)
		nr := 0
		for _, in := range eng.Find(rf, eng.PlainCallTo("strconv.ParseUint", "strconv.ParseInt", "strconv.Atoi")) {
			nr++
			rbase = 10
			if !eng.CalleeIs(in.(*ssa.Call), "strconv.Atoi") {
				rbase, _ = eng.ConstInt(in.(*ssa.Call).Call.Args[1])
			}
		}
		if nr != 1 {
			c.Undecided("CODEC-fid-delta", "reader", rf.Pos(), fmt.Sprintf("expected one numeric parse of the suffix in ParsePath, found %d", nr))
		}
		nw := 0
		for _, top := range P.SrcFuncs("weed/operation") {
			for _, in := range eng.Find(top, func(in ssa.Instruction) bool { b, ok := in.(*ssa.BinOp); return ok && b.Op == token.ADD }) {
				b := in.(*ssa.BinOp)
				sep := b.X
				if inner, ok := b.X.(*ssa.BinOp); ok && inner.Op == token.ADD {
					sep = inner.Y // (fid + "_") + n
				}
				if k, ok := eng.ConstString(sep); !ok || k != "_" {
					continue
				}
				call, ok := eng.Unwrap(b.Y).(*ssa.Call)
				if !ok || !eng.CalleeIs(call, "strconv.Itoa", "strconv.FormatInt", "strconv.FormatUint") {
					continue
				}
				wbase := int64(10)
				if !eng.CalleeIs(call, "strconv.Itoa") {
					wbase, _ = eng.ConstInt(call.Call.Args[1])
				}
				nw++
				c.Touch(top)
				c.Ob("CODEC-fid-delta", fmt.Sprintf("%s suffix-writer#%d", eng.FuncName(top), nw), nr == 1 && wbase == rbase, in.Pos(),
					fmt.Sprintf("the client writes the file id suffix in base %d, Needle.ParsePath reads it in base %d", wbase, rbase))
			}
		}
		c.Expect("CODEC-fid-delta", 2)
	}

	// ---------------- (4c) index entries are decoded at entry boundaries in both builds
	strideWalk(c, "STRIDE-walk")
	// ---------------- (4d) a super block built from another one carries every field (the extra section included)
	{
		sbFields := structFields(P, "weed/storage/super_block", "SuperBlock")
		lits := P.FindCloneLits("weed/storage/super_block", "SuperBlock", 2)
		for i, l := range lits {
			var missing []string
			for _, f := range sbFields {
				if !l.Present[f] {
					missing = append(missing, f)
				}
			}
			c.Ob("FIELDS-superblock-clone", fmt.Sprintf("%s literal#%d from %s", l.Func, i, l.Source), len(missing) == 0, l.Pos,
				"a super block copied field by field from another carries every field; missing: "+strings.Join(missing, ","))
		}
		// the matcher is alive (it finds the entry clones of the filer) and knows the struct
		c.Ob("FIELDS-superblock-clone", "matcher self-test", len(P.FindCloneLits("weed/filer", "Entry", 2)) > 0 && len(sbFields) >= 6, token.NoPos,
			fmt.Sprintf("clone-literal matcher finds the filer's entry clones; SuperBlock has %d fields; %d super block clone literals on this tree", len(sbFields), len(lits)))
	}

	// ---------------- (5) NARROW
	type narrow struct{ pkg, fn string }
	for _, n := range []narrow{{"weed/storage/needle", "NewVolumeId"}, {"weed/storage/needle", "ReadTTL"}, {"weed/storage/types", "ParseCookie"}, {"weed/storage/types", "ParseNeedleId"}} {
		fn := c.NeedFunc(n.pkg, n.fn)
		if fn == nil {
			continue
		}
		cnt := 0
		for _, in := range eng.Find(fn, eng.PlainCallTo("strconv.ParseUint", "strconv.ParseInt", "strconv.Atoi")) {
			call := in.(*ssa.Call)
			signed := !eng.CalleeIs(call, "strconv.ParseUint")
			bits := int64(64)
			if !eng.CalleeIs(call, "strconv.Atoi") {
				if k, ok := eng.ConstInt(call.Call.Args[2]); ok {
					bits = k
					if k == 0 {
						bits = 64
					}
				}
			}
			res := eng.ResultOf(call, 0)
			if res == nil {
				continue
			}
			// conversions of the parsed value
			for _, ref := range *res.Referrers() {
				var cv ssa.Value
				switch y := ref.(type) {
				case *ssa.Convert:
					cv = y
				case *ssa.ChangeType:
					cv = y
				}
				if cv == nil {
					continue
				}
				bt, ok := cv.Type().Underlying().(*types.Basic)
				if !ok {
					continue
				}
				tbits, tsigned := basicBits(bt)
				if tbits == 0 {
					continue
				}
				cnt++
				okDomain := bits == tbits && signed == tsigned
				if !okDomain {
					// accepted alternative: a range check on the parsed value dominates the conversion
					for _, b := range fn.Blocks {
						if iff, isIf := b.Instrs[len(b.Instrs)-1].(*ssa.If); isIf {
							if bo, isB := iff.Cond.(*ssa.BinOp); isB && (bo.X == res || bo.Y == res) && (bo.Op == token.GTR || bo.Op == token.LSS || bo.Op == token.GEQ || bo.Op == token.LEQ) {
								if iff.Block().Dominates(cv.(ssa.Instruction).Block()) {
									okDomain = true
								}
							}
						}
					}
				}
				c.Ob("NARROW-parse", fmt.Sprintf("%s %s->%s#%d", eng.FuncName(fn), eng.Callee(call), bt.Name(), cnt), okDomain, cv.Pos(),
					fmt.Sprintf("parsed as %d-bit signed=%v but stored as %d-bit signed=%v without a range check: out-of-range input is silently decoded to another value", bits, signed, tbits, tsigned))
			}
		}
		if cnt == 0 {
			c.Ob("NARROW-parse", eng.FuncName(fn)+" parse-site", false, fn.Pos(), "no strconv parse followed by a conversion found (decoder restructured?)")
		}
	}
}

func basicBits(b *types.Basic) (int64, bool) {
	switch b.Kind() {
	case types.Uint8:
		return 8, false
	case types.Int8:
		return 8, true
	case types.Uint16:
		return 16, false
	case types.Int16:
		return 16, true
	case types.Uint32:
		return 32, false
	case types.Int32:
		return 32, true
	case types.Uint64, types.Uint:
		return 64, false
	case types.Int64, types.Int:
		return 64, true
	}
	return 0, false
}
