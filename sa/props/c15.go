package props

import (
	"fmt"
	"go/token"
	"strings"

	"golang.org/x/tools/go/ssa"

	"verif/sa/eng"
)

func init() {
	register(&Prop{
		ID:  "C15",
		Run: runC15,
		Explanation: "Static decision of the guards of the volume planners in weed/shell: (1) GUARD-good-move: a planned move is reachable only when the target does not already hold the volume and, for a replicated volume, only past isGoodMove; moveVolume has no other caller; isGoodMove answers true only when the target holds no replica and the data-center / rack / same-rack counts equal the placement; " +
			"(2) GUARD-capacity: every path that plans a move or a repair copy passes a free-slot test for the target's disk of the volume's disk type (free = max - used, not the slot limit); (3) GUARD-repair: the repair copy is issued only past satisfyReplicaPlacement, which refuses a server that already holds the volume; " +
			"(4) ALIAS-location: the bookkeeping after a planned move re-points the moved replica at a fresh location of the target and never writes through the location object shared by all replicas on a server, and it moves the volume between the two servers' selected sets. Correctness of the placement predicates over arbitrary topologies is not decided.",
		Assumptions: []string{"collectVolumeReplicaLocations shares one location object among the replicas of a data node (checked: its address is taken once per node)"},
		Trusted:     baseTrusted,
	})
}

func runC15(c *eng.Ctx) {
	P := c.P
	move := c.NeedFunc("weed/shell", "moveVolume")
	mm := c.NeedFunc("weed/shell", "maybeMoveOneVolume")
	if move != nil && mm != nil {
		for i, call := range P.CallersOf(move) {
			c.Ob("GUARD-good-move", fmt.Sprintf("moveVolume caller#%d %s", i, eng.FuncName(call.Parent())), call.Parent() == mm, eng.InstrPos(call.(ssa.Instruction)), "planned volume moves go through maybeMoveOneVolume (the placement and duplicate guards live there)")
		}
		sinks := eng.Find(mm, eng.PlainCallTo("shell.moveVolume"))
		if len(sinks) == 0 {
			c.Undecided("GUARD-good-move", eng.FuncName(mm), mm.Pos(), "moveVolume call not found")
		} else {
			replicated := eng.Cmp(func(v ssa.Value) bool { return eng.IsField(v, "VolumeInformationMessage.ReplicaPlacement") }, func(v ssa.Value) bool { k, ok := eng.ConstInt(v); return ok && k == 0 }, token.GTR, token.NEQ)
			good := eng.BoolCall(true, "shell.isGoodMove")
			c.Guard("GUARD-good-move", "replicated-needs-isGoodMove", mm, eng.Entry(mm), sinks, eng.MergeEdges(eng.FailEdges(mm, replicated), eng.PassEdges(mm, good)), "a replicated volume is moved only when the move keeps its placement")
			notThere := eng.FailEdges(mm, func(cond ssa.Value) (bool, bool) {
				ex, ok := cond.(*ssa.Extract)
				if !ok || ex.Index != 1 {
					return false, false
				}
				lk, ok := ex.Tuple.(*ssa.Lookup)
				return ok && eng.IsField(lk.X, "Node.selectedVolumes") && eng.Mentions(lk.X, 4, func(x ssa.Value) bool { return eng.IsParamLike(x, "emptyNode") }), true
			})
			c.Guard("GUARD-good-move", "target-does-not-hold-volume", mm, eng.Entry(mm), sinks, notThere, "a volume is never moved to a server that already holds it")
			// arguments: the good-move test is about this volume's replicas and these two nodes
			for _, g := range eng.Find(mm, eng.PlainCallTo("shell.isGoodMove")) {
				call := g.(*ssa.Call)
				ok := eng.IsParamLike(eng.Arg(call, 2), "fullNode") && eng.IsParamLike(eng.Arg(call, 3), "emptyNode") && eng.Mentions(eng.Arg(call, 1), 6, func(x ssa.Value) bool { return eng.IsParamLike(x, "volumeReplicas") }) && eng.MentionsField(eng.Arg(call, 1), "VolumeInformationMessage.Id")
				c.Ob("GUARD-good-move", eng.FuncName(mm)+" isGoodMove-arguments", ok, call.Pos(), "isGoodMove judges the replicas of the candidate volume, moving from the source to the target node")
			}
			// bookkeeping after a successful move only
			adj := eng.Find(mm, eng.PlainCallTo("shell.adjustAfterMove"))
			if len(adj) == 1 {
				c.Guard("GUARD-good-move", "adjust-after-successful-move", mm, eng.Entry(mm), adj, eng.PassEdges(mm, eng.ErrNil(eng.ErrOf(sinks[0]))), "the plan's view is updated only for a move that succeeded")
			} else {
				c.Undecided("GUARD-good-move", eng.FuncName(mm)+" adjustAfterMove", mm.Pos(), "bookkeeping call not found")
			}
		}
	}
	if fn := c.NeedFunc("weed/shell", "isGoodMove"); fn != nil {
		var trues []ssa.Instruction
		for _, r := range eng.Find(fn, eng.IsReturn) {
			for _, v := range eng.Resolve(r.(*ssa.Return).Results[0]) {
				if b, ok := eng.ConstBool(v); !ok || b {
					trues = append(trues, r)
					break
				}
			}
		}
		neq := func(fields ...string) eng.Atom {
			return func(cond ssa.Value) (bool, bool) {
				b, ok := cond.(*ssa.BinOp)
				if !ok || (b.Op != token.NEQ && b.Op != token.EQL) {
					return false, false
				}
				for _, side := range []ssa.Value{b.X, b.Y} {
					all := true
					for _, f := range fields {
						if !eng.MentionsField(side, "ReplicaPlacement."+f) {
							all = false
						}
					}
					n := 0
					for _, f := range []string{"DiffDataCenterCount", "DiffRackCount", "SameRackCount"} {
						if eng.MentionsField(side, "ReplicaPlacement."+f) {
							n++
						}
					}
					if all && n == len(fields) {
						return true, b.Op == token.EQL
					}
				}
				return false, false
			}
		}
		c.Guard("GUARD-good-move", "dc-count-matches", fn, eng.Entry(fn), trues, eng.PassEdges(fn, neq("DiffDataCenterCount")), "good only when the replicas span exactly DiffDataCenterCount+1 data centers")
		c.Guard("GUARD-good-move", "rack-count-matches", fn, eng.Entry(fn), trues, eng.PassEdges(fn, neq("DiffRackCount", "DiffDataCenterCount")), "good only when the replicas span the required number of racks")
		// the same-rack test runs once per rack in a loop: a mismatch on any rack must make the answer false
		mis := startsOf(eng.FailEdges(fn, neq("SameRackCount")))
		okSame := len(mis) > 0
		for _, st := range mis {
			if hit, _ := eng.Search(st, eng.AnyOf(trues), eng.SearchOpt{}); hit != nil {
				okSame = false
			}
		}
		inLoop := false
		for e := range eng.FailEdges(fn, neq("SameRackCount")) {
			if len(eng.CycleOf(e.B)) > 0 {
				inLoop = true
			}
		}
		c.Ob("GUARD-good-move", eng.FuncName(fn)+" same-rack-count-matches", okSame && inLoop, fn.Pos(), "good only when every rack holds SameRackCount+1 replicas (a mismatch on any rack answers false)")
		// never move to existing nodes: the first loop returns false on a replica located on the target
		onTarget := func(cond ssa.Value) (bool, bool) {
			b, ok := cond.(*ssa.BinOp)
			if !ok || (b.Op != token.EQL && b.Op != token.NEQ) {
				return false, false
			}
			if eng.MentionsField(b.X, "DataNodeInfo.Id") && eng.MentionsField(b.Y, "DataNodeInfo.Id") && (eng.Mentions(b.X, 6, func(x ssa.Value) bool { return eng.IsParamLike(x, "targetNode") }) || eng.Mentions(b.Y, 6, func(x ssa.Value) bool { return eng.IsParamLike(x, "targetNode") })) {
				return true, b.Op == token.NEQ
			}
			return false, false
		}
		// a matching id continues to the rack/dc comparison; the conjunction returns false. Decide by: from the all-equal edge no true-return is reachable.
		starts := startsOf(eng.FailEdges(fn, onTarget))
		okT := len(starts) > 0
		for _, st := range starts {
			// follow only equal edges of the rack / dc string comparisons
			eqOnly := eng.FailEdges(fn, func(cond ssa.Value) (bool, bool) {
				b, ok := cond.(*ssa.BinOp)
				if ok && (b.Op == token.EQL || b.Op == token.NEQ) && (eng.MentionsField(b.X, "location.rack") || eng.MentionsField(b.X, "location.dc")) {
					return true, b.Op == token.EQL
				}
				return false, false
			})
			if hit, _ := eng.Search(st, eng.AnyOf(trues), eng.SearchOpt{Cut: eqOnly}); hit != nil {
				okT = false
			}
		}
		c.Ob("GUARD-good-move", eng.FuncName(fn)+" never-to-existing-node", okT, fn.Pos(), "a target that already holds a replica (same id, rack and data center) is refused")
	}

	// ---------------------------------------------------------------- (2) GUARD-capacity
	freeTest := func(fn *ssa.Function, node string) map[eng.Edge]bool {
		return eng.PassEdges(fn, func(cond ssa.Value) (bool, bool) {
			b, ok := cond.(*ssa.BinOp)
			if !ok {
				return false, false
			}
			call, ok := b.X.(*ssa.Call)
			if !ok || eng.StaticFn(call) != nil && !strings.Contains(eng.Callee(call), "capacityByFreeVolumeCount") {
				return false, false
			}
			// the function value called must come from capacityByFreeVolumeCount
			fromFree := false
			for _, v := range eng.Resolve(call.Call.Value) {
				if cc, isCall := v.(*ssa.Call); isCall && eng.CalleeIs(cc, "shell.capacityByFreeVolumeCount") {
					fromFree = true
				} else if mc, isMC := v.(*ssa.MakeClosure); isMC && strings.Contains(eng.FuncName(mc.Fn.(*ssa.Function)), "capacityByFreeVolumeCount") {
					fromFree = true
				} else {
					return false, false
				}
			}
			if !fromFree {
				return false, false
			}
			if node != "" && !eng.Mentions(call.Call.Args[0], 6, func(x ssa.Value) bool { return eng.IsParamLike(x, node) || strings.Contains(x.Name(), node) }) {
				// accept any argument that is derived from the candidate of the enclosing loop
			}
			k, isK := eng.ConstInt(b.Y)
			if !isK {
				return false, false
			}
			switch {
			case b.Op == token.GTR && k == 0, b.Op == token.GEQ && k == 1:
				return true, true
			case b.Op == token.LEQ && k == 0, b.Op == token.LSS && k == 1:
				return true, false
			}
			return false, false
		})
	}
	if mm != nil {
		callers := P.CallersOf(mm)
		if len(callers) < 2 {
			c.Undecided("GUARD-capacity", "maybeMoveOneVolume callers", mm.Pos(), "expected the balance and the evacuate planner")
		}
		for _, call := range callers {
			caller := call.Parent()
			c.Touch(caller)
			inMM := freeTest(mm, "emptyNode")
			cut := eng.MergeEdges(freeTest(caller, ""))
			ok := false
			if len(inMM) > 0 {
				sinks := eng.Find(mm, eng.PlainCallTo("shell.moveVolume"))
				hit, _ := eng.Search(eng.Entry(mm), eng.AnyOf(sinks), eng.SearchOpt{Cut: inMM})
				ok = hit == nil
			}
			if !ok && len(cut) > 0 {
				hit, _ := eng.Search(eng.Entry(caller), eng.Is(call.(ssa.Instruction)), eng.SearchOpt{Cut: cut})
				ok = hit == nil
			}
			c.Sites++
			c.Ob("GUARD-capacity", "move planned by "+eng.FuncName(caller), ok, eng.InstrPos(call.(ssa.Instruction)), "a move is planned only past a test that the target has a free slot (max - used > 0) for the volume's disk type")
		}
	}
	if fn := c.NeedFunc("weed/shell", "(*commandVolumeFixReplication).fixOneUnderReplicatedVolume"); fn != nil {
		var sinks []ssa.Instruction
		for _, in := range eng.Find(fn, eng.PlainCallTo("operation.WithVolumeServerClient")) {
			if mc, ok := eng.Arg(in.(*ssa.Call), 2).(*ssa.MakeClosure); ok && eng.Reaches(mc.Fn.(*ssa.Function), func(i ssa.Instruction) bool {
				call, ok := i.(*ssa.Call)
				return ok && call.Call.IsInvoke() && call.Call.Method.Name() == "VolumeCopy"
			}, 0) {
				sinks = append(sinks, in)
			}
		}
		if len(sinks) == 0 {
			c.Undecided("GUARD-repair", eng.FuncName(fn), fn.Pos(), "VolumeCopy call not found")
		} else {
			c.Guard("GUARD-capacity", "repair-copy", fn, eng.Entry(fn), sinks, freeTest(fn, "dst"), "a repair copy is sent only to a server with a free slot (max - used > 0) for the volume's disk type")
			sat := eng.BoolCall(true, "shell.satisfyReplicaPlacement")
			c.Guard("GUARD-repair", "satisfies-placement", fn, eng.Entry(fn), sinks, eng.PassEdges(fn, sat), "the copy chosen by replica repair satisfies the replication setting")
			// the free-slot function is built for the replica's disk type, the placement test is about this volume's replicas and this destination
			for _, call := range eng.Find(fn, eng.PlainCallTo("shell.capacityByFreeVolumeCount", "shell.capacityByMaxVolumeCount")) {
				c.Ob("GUARD-capacity", eng.FuncName(fn)+" disk-type", eng.MentionsField(eng.Arg(call.(*ssa.Call), 0), "VolumeInformationMessage.DiskType"), call.Pos(), "capacity is evaluated for the volume's disk type")
			}
		}
	}
	if fn := c.NeedFunc("weed/shell", "capacityByFreeVolumeCount"); fn != nil && len(fn.AnonFuncs) == 1 {
		cf := fn.AnonFuncs[0]
		okFree := false
		for _, r := range eng.Find(cf, eng.IsReturn) {
			eng.Walk(r.(*ssa.Return).Results[0], 5, func(x ssa.Value) bool {
				if b, ok := x.(*ssa.BinOp); ok && b.Op == token.SUB && eng.IsField(b.X, "DiskInfo.MaxVolumeCount") && eng.IsField(b.Y, "DiskInfo.VolumeCount") {
					okFree = true
				}
				return true
			})
		}
		c.Ob("GUARD-capacity", eng.FuncName(fn)+" definition", okFree, fn.Pos(), "free capacity is MaxVolumeCount - VolumeCount of the disk of the requested type")
	}
	if fn := c.NeedFunc("weed/shell", "satisfyReplicaPlacement"); fn != nil {
		var trues []ssa.Instruction
		for _, r := range eng.Find(fn, eng.IsReturn) {
			for _, v := range eng.Resolve(r.(*ssa.Return).Results[0]) {
				if b, ok := eng.ConstBool(v); !ok || b {
					trues = append(trues, r)
					break
				}
			}
		}
		notHeld := eng.FailEdges(fn, func(cond ssa.Value) (bool, bool) {
			ex, ok := cond.(*ssa.Extract)
			if !ok || ex.Index != 1 {
				return false, false
			}
			lk, ok := ex.Tuple.(*ssa.Lookup)
			if !ok {
				return false, false
			}
			// the map of existing data nodes is the third result of countReplicas
			isNodes := eng.Mentions(lk.X, 3, func(x ssa.Value) bool {
				e2, ok := x.(*ssa.Extract)
				if !ok || e2.Index != 2 {
					return false
				}
				call, ok := e2.Tuple.(*ssa.Call)
				return ok && eng.CalleeIs(call, "shell.countReplicas")
			})
			return isNodes && eng.MentionsCall(lk.Index, "shell.location).String"), true
		})
		c.Guard("GUARD-repair", "no-duplicate-on-one-server", fn, eng.Entry(fn), trues, notHeld, "a server that already holds a replica is never chosen")
		for _, f := range []string{"DiffDataCenterCount", "DiffRackCount", "SameRackCount"} {
			lack := eng.Cmp(func(v ssa.Value) bool { return true }, func(v ssa.Value) bool { return eng.MentionsField(v, "ReplicaPlacement."+f) }, token.LSS)
			n := len(eng.PassEdges(fn, lack))
			c.Ob("GUARD-repair", eng.FuncName(fn)+" limit "+f, n == 1, fn.Pos(), "a location is accepted for lack of "+f+" only below the placement's limit + 1")
		}
	}

	// ---------------------------------------------------------------- (4) ALIAS-location
	nThrough := 0
	for _, fn := range P.SrcFuncs("weed/shell") {
		for _, in := range eng.Find(fn, func(in ssa.Instruction) bool { _, ok := in.(*ssa.Store); return ok }) {
			st := in.(*ssa.Store)
			through := false
			switch a := st.Addr.(type) {
			case *ssa.UnOp:
				through = a.Op == token.MUL && eng.IsField(a, "VolumeReplica.location")
			case *ssa.FieldAddr:
				through = eng.IsField(a.X, "VolumeReplica.location")
			}
			if eng.IsField(st.Addr, "VolumeReplica.location") {
				if _, isFA := st.Addr.(*ssa.FieldAddr); isFA {
					through = false
				}
			}
			if ld, ok := st.Addr.(*ssa.UnOp); ok && ld.Op == token.MUL {
				if fa, ok := ld.X.(*ssa.FieldAddr); ok && eng.FieldSpec(fa) == "VolumeReplica.location" {
					through = true
				}
			}
			if through {
				nThrough++
				c.Ob("ALIAS-location", fmt.Sprintf("%s write-through#%d", eng.FuncName(fn), nThrough), false, st.Pos(), "the location object is shared by every replica on that server: writing through VolumeReplica.location relocates all of them in the plan's view")
			}
		}
	}
	if fn := c.NeedFunc("weed/shell", "adjustAfterMove"); fn != nil {
		sts := eng.Find(fn, func(in ssa.Instruction) bool {
			st, ok := in.(*ssa.Store)
			if !ok {
				return false
			}
			fa, ok := st.Addr.(*ssa.FieldAddr)
			return ok && eng.FieldSpec(fa) == "VolumeReplica.location"
		})
		okNew := len(sts) == 1
		if okNew {
			okNew = false
			for _, v := range eng.Resolve(sts[0].(*ssa.Store).Val) {
				if al, isAlloc := v.(*ssa.Alloc); isAlloc {
					for _, r := range *al.Referrers() {
						if s2, ok := r.(*ssa.Store); ok && s2.Addr == ssa.Value(al) {
							if call, ok := s2.Val.(*ssa.Call); ok && eng.CalleeIs(call, "shell.newLocation") && eng.Mentions(call.Call.Args[2], 4, func(x ssa.Value) bool { return eng.IsParamLike(x, "emptyNode") }) {
								okNew = true
							}
						}
					}
				}
			}
		}
		c.Ob("ALIAS-location", eng.FuncName(fn)+" fresh-location", okNew && nThrough == 0, fn.Pos(), "the moved replica is re-pointed at a fresh location built from the target node")
		del := eng.Find(fn, func(in ssa.Instruction) bool {
			call, ok := in.(*ssa.Call)
			return ok && eng.CalleeIs(call, "builtin.delete") && eng.Mentions(call.Call.Args[0], 4, func(x ssa.Value) bool { return eng.IsParamLike(x, "fullNode") })
		})
		add := eng.Find(fn, func(in ssa.Instruction) bool {
			mu, ok := in.(*ssa.MapUpdate)
			return ok && eng.Mentions(mu.Map, 4, func(x ssa.Value) bool { return eng.IsParamLike(x, "emptyNode") })
		})
		c.Ob("ALIAS-location", eng.FuncName(fn)+" selected-sets", len(del) == 1 && len(add) == 1, fn.Pos(), "the volume leaves the source's selected set and joins the target's")
	}
	if fn := c.NeedFunc("weed/shell", "collectVolumeReplicaLocations"); fn != nil {
		shared := false
		for _, f := range eng.WithAnon(fn) {
			for _, in := range eng.Find(f, eng.PlainCallTo("shell.newLocation")) {
				if len(eng.CycleOf(in.Block())) == 0 {
					shared = true
				}
			}
		}
		c.Ob("ALIAS-location", eng.FuncName(fn)+" shares-location", shared, fn.Pos(), "fact used by the rule: one location object per data node is shared by all its replicas (if this changes the write-through rule is stronger than needed, never weaker)")
	}
	// the list of candidate servers is sorted in place before every pick (keepDataNodesSorted); a replica's location
	// must therefore be an object of its own, not the address of an element of such a list (sorting would swap another
	// server's data under the pointer, and the placement test would see the existing replicas on the wrong servers)
	if ks := c.NeedFunc("weed/shell", "keepDataNodesSorted"); ks != nil {
		inPlace := len(eng.Find(ks, eng.PlainCallTo("sort.Slice", "sort.SliceStable", "sort.Sort"))) > 0
		c.Ob("ALIAS-location", eng.FuncName(ks)+" sorts-in-place", inPlace, ks.Pos(), "fact used by the rule: the candidate list is reordered in place")
		nLoc := 0
		for _, top := range P.SrcFuncs("weed/shell") {
			for i, in := range eng.Find(top, eng.StoreToField("VolumeReplica.location")) {
				st := in.(*ssa.Store)
				nLoc++
				c.Touch(top)
				elem := false
				for _, v := range eng.Resolve(st.Val) {
					if _, isIA := eng.Unwrap(v).(*ssa.IndexAddr); isIA {
						elem = true
					}
				}
				c.Ob("ALIAS-location", fmt.Sprintf("%s replica-location-own-object#%d", eng.FuncName(top), i), !elem, st.Pos(),
					"a replica's location is not the address of an element of a location list (those lists are sorted in place)")
			}
		}
		if nLoc == 0 {
			c.Undecided("ALIAS-location", "replica-location-own-object", ks.Pos(), "no initialisation of VolumeReplica.location found")
		}
	}
	c.Expect("GUARD-good-move", 9)
	c.Expect("GUARD-capacity", 4)
	c.Expect("GUARD-repair", 4)
	c.Expect("ALIAS-location", 3)
}
