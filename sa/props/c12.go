package props

import (
	"fmt"
	"go/token"
	"go/types"
	"sort"
	"strings"

	"golang.org/x/tools/go/ssa"

	"verif/sa/eng"
)

func init() {
	register(&Prop{
		ID:  "C12",
		Run: runC12,
		Explanation: "Static decision of the capacity-accounting structure of the master topology: (1) FIELDS-usage: addDiskUsageCounts, minus and negative touch every counter of DiskUsageCounts with one uniform operation; (2) DELTA: a delta applied inside a loop is per-iteration — no scalar stored into a delta depends on a loop-carried accumulator, and the delta object handed to UpAdjustDiskUsageDelta is allocated in the same iteration; " +
			"(3) PAIR: every removal from / insertion into Disk.volumes and every change of a disk's EC shard bits is followed on all paths by UpAdjustDiskUsageDelta; (4) MIRROR: the counters decremented when a volume disappears are exactly the counters incremented when it is added, under the same conditions (remote, not read-only); (5) PROV-ec-delta: the EC shard delta is the shard count of the message only for a newly registered volume, otherwise the difference of the registered set's count after and before; " +
			"(6) the delta is added at the node and forwarded to the parent; linking / unlinking a child adds / subtracts the child's usages. Equality of the counters with a recount over histories is not decided. Also decided: a registered volume that changes tier adjusts the remote count in both directions and propagates it; removals are accounted with the registered volume info (flags from the stored info, nothing decremented for an unregistered volume).",
		Assumptions: []string{"DiskUsages values passed to UpAdjustDiskUsageDelta are not retained by the callee"},
		Trusted:     baseTrusted,
	})
}

func structFields(P *eng.Prog, rel, name string) []string {
	pk := P.Pkg(rel)
	if pk == nil {
		return nil
	}
	obj := pk.Types.Scope().Lookup(name)
	if obj == nil {
		return nil
	}
	st, ok := obj.Type().Underlying().(*types.Struct)
	if !ok {
		return nil
	}
	var out []string
	for i := 0; i < st.NumFields(); i++ {
		out = append(out, st.Field(i).Name())
	}
	return out
}

// usageStores lists stores to fields of DiskUsageCounts in fn: field -> stored values.
func usageStores(fn *ssa.Function) map[string][]*ssa.Store {
	out := map[string][]*ssa.Store{}
	for _, in := range eng.Find(fn, func(in ssa.Instruction) bool {
		s, ok := in.(*ssa.Store)
		return ok && strings.HasPrefix(eng.FieldSpec(s.Addr), "DiskUsageCounts.")
	}) {
		s := in.(*ssa.Store)
		f := strings.TrimPrefix(eng.FieldSpec(s.Addr), "DiskUsageCounts.")
		out[f] = append(out[f], s)
	}
	return out
}

func runC12(c *eng.Ctx) {
	P := c.P
	fields := structFields(P, "weed/topology", "DiskUsageCounts")
	if len(fields) < 5 {
		c.Undecided("FIELDS-usage", "DiskUsageCounts", token.NoPos, "struct not found")
		return
	}
	// ---------------------------------------------------------------- (1) FIELDS-usage
	type fu struct {
		name string
		op   token.Token
		un   bool
	}
	for _, f := range []fu{{"(*DiskUsageCounts).addDiskUsageCounts", token.ADD, false}, {"(*DiskUsageCounts).minus", token.SUB, false}, {"(*DiskUsages).negative", token.SUB, true}} {
		fn := c.NeedFunc("weed/topology", f.name)
		if fn == nil {
			continue
		}
		st := usageStores(fn)
		for _, fld := range fields {
			ok := false
			for _, s := range st[fld] {
				if f.un {
					if u, isU := s.Val.(*ssa.UnOp); isU && u.Op == token.SUB && eng.FieldSpec(u.X) == "DiskUsageCounts."+fld {
						ok = true
					}
				} else if b, isB := s.Val.(*ssa.BinOp); isB && b.Op == f.op && eng.FieldSpec(b.X) == "DiskUsageCounts."+fld && eng.FieldSpec(b.Y) == "DiskUsageCounts."+fld && !eng.SameExpr(eng.FieldBase(b.X), eng.FieldBase(b.Y)) {
					ok = true
				}
			}
			c.Ob("FIELDS-usage", eng.FuncName(fn)+" "+fld, ok, fn.Pos(), fmt.Sprintf("counter %s is combined with the same counter of the other operand by %s", fld, f.op))
		}
	}
	c.Expect("FIELDS-usage", 3*len(fields))
	// a predicate over the counters of a DiskUsageCounts (an "is empty" / "is equal" test) looks at all of them: one that
	// forgets a counter treats a delta that changes only that counter as no change
	for _, fn := range P.SrcFuncs("weed/topology") {
		read := map[string]bool{}
		for _, in := range eng.Find(fn, func(in ssa.Instruction) bool { u, ok := in.(*ssa.UnOp); return ok && u.Op == token.MUL }) {
			spec := eng.FieldSpec(in.(*ssa.UnOp))
			if strings.HasPrefix(spec, "DiskUsageCounts.") {
				read[strings.TrimPrefix(spec, "DiskUsageCounts.")] = true
			}
		}
		res := fn.Signature.Results()
		if len(read) < 2 || res.Len() != 1 || res.At(0).Type().String() != "bool" {
			continue // reports and conversions legitimately show a subset; a yes/no answer about a usage must cover it all
		}
		var missing []string
		for _, f := range fields {
			if !read[f] {
				missing = append(missing, f)
			}
		}
		c.Touch(fn)
		c.Ob("FIELDS-usage", eng.FuncName(fn)+" reads-whole-counter-set", len(missing) == 0, fn.Pos(), "a yes/no answer computed from usage counters consults all of them"+ifs(len(missing) > 0, "; missing: "+strings.Join(missing, ",")))
	}

	// ---------------------------------------------------------------- (2) DELTA
	sink := eng.CallTo("topology.NodeImpl).UpAdjustDiskUsageDelta", "topology.Node).UpAdjustDiskUsageDelta")
	nSinkLoop := 0
	nSigned := 0
	for _, fn := range P.SrcFuncs("weed/topology") {
		for si, s := range eng.Find(fn, sink) {
			cyc := eng.CycleOf(s.Block())
			if len(cyc) == 0 {
				continue
			}
			if eng.NameIs(eng.FuncName(fn), "topology.NodeImpl).UpAdjustDiskUsageDelta") {
				continue
			}
			nSinkLoop++
			c.Touch(fn)
			arg := eng.Arg(s.(ssa.CallInstruction), 0)
			// object: allocated in this iteration
			okObj := true
			why := ""
			for _, v := range eng.Resolve(arg) {
				call, isCall := v.(*ssa.Call)
				if !isCall {
					okObj = false
					why = "the delta is not a freshly built value"
					continue
				}
				if !cyc[call.Block()] {
					okObj = false
					why = fmt.Sprintf("the delta object is built at %s outside the loop and re-applied in every iteration", P.Pos(call.Pos()))
				}
			}
			c.Ob("DELTA-object", fmt.Sprintf("%s apply#%d", eng.FuncName(fn), si), okObj, s.Pos(), "the delta handed to UpAdjustDiskUsageDelta inside a loop is built in the same iteration"+ifs(why != "", ": "+why))
		}
		for f, sts := range usageStores(fn) {
			for i, st := range sts {
				// a delta may be negative: a difference taken in an unsigned type wraps when the new value is the smaller one
				var wraps *ssa.BinOp
				eng.Walk(st.Val, 8, func(x ssa.Value) bool {
					if b, ok := x.(*ssa.BinOp); ok && b.Op == token.SUB {
						if bt, isB := b.Type().Underlying().(*types.Basic); isB && bt.Info()&types.IsUnsigned != 0 {
							wraps = b
						}
					}
					return true
				})
				if wraps != nil || eng.Mentions(st.Val, 8, func(x ssa.Value) bool { b, ok := x.(*ssa.BinOp); return ok && b.Op == token.SUB }) {
					nSigned++
					c.Touch(fn)
					c.Ob("DELTA-signed", fmt.Sprintf("%s %s#%d", eng.FuncName(fn), f, i), wraps == nil, st.Pos(),
						"a difference stored into a usage counter is computed in a signed type (a shrinking value must yield a negative delta, not a wrapped one)")
				}
			}
			for i, st := range sts {
				cyc := eng.CycleOf(st.Block())
				if len(cyc) == 0 {
					continue
				}
				var acc *ssa.Phi
				eng.Walk(st.Val, 8, func(x ssa.Value) bool {
					if phi, ok := x.(*ssa.Phi); ok && cyc[phi.Block()] && phi.Comment != "rangeindex" {
						for j, p := range phi.Block().Preds {
							// loop-carried: the edge arrives over a back edge (the phi's block dominates the predecessor)
							if cyc[p] && phi.Edges[j] != phi && phi.Block().Dominates(p) {
								if _, isNext := phi.Edges[j].(*ssa.Next); !isNext {
									acc = phi
								}
							}
						}
					}
					return true
				})
				c.Ob("DELTA-scalar", fmt.Sprintf("%s %s#%d", eng.FuncName(fn), f, i), acc == nil, st.Pos(), "the value stored into the per-iteration delta does not depend on a loop-carried accumulator"+ifs(acc != nil, fmt.Sprintf(": depends on %s carried around the loop", nameOf(acc))))
			}
		}
	}
	c.Expect("DELTA-signed", 5)
	_ = nSigned
	if nSinkLoop < 4 {
		c.Undecided("DELTA-object", "discovery", token.NoPos, fmt.Sprintf("only %d in-loop UpAdjustDiskUsageDelta sites found (expected >= 4)", nSinkLoop))
	}

	// ---------------------------------------------------------------- (3) PAIR
	isVolumesMap := func(v ssa.Value) bool { return eng.IsField(v, "Disk.volumes") }
	nPair := 0
	for _, fn := range P.SrcFuncs("weed/topology") {
		dels := eng.Find(fn, func(in ssa.Instruction) bool {
			call, ok := in.(*ssa.Call)
			return ok && eng.CalleeIs(call, "builtin.delete") && isVolumesMap(call.Call.Args[0])
		})
		if len(dels) > 0 {
			nPair += len(dels)
			c.AfterAll("PAIR-usage", "volume-removed", fn, dels, sink, nil, "a volume removed from a disk is subtracted from the counters up the tree")
		}
		// inserts: map updates on the not-found edge of a lookup in the same map
		var ins []ssa.Instruction
		for _, in := range eng.Find(fn, func(in ssa.Instruction) bool {
			mu, ok := in.(*ssa.MapUpdate)
			return ok && isVolumesMap(mu.Map)
		}) {
			notFound := eng.FailEdges(fn, func(cond ssa.Value) (bool, bool) {
				ex, ok := cond.(*ssa.Extract)
				if !ok || ex.Index != 1 {
					return false, false
				}
				lk, ok := ex.Tuple.(*ssa.Lookup)
				return ok && isVolumesMap(lk.X), true
			})
			if len(notFound) == 0 {
				continue
			}
			if hit, _ := eng.Search(eng.Entry(fn), eng.Is(in), eng.SearchOpt{Cut: notFound}); hit == nil {
				ins = append(ins, in)
			}
		}
		if len(ins) > 0 {
			nPair += len(ins)
			c.AfterAll("PAIR-usage", "volume-added", fn, ins, sink, nil, "a volume newly registered on a disk is added to the counters up the tree")
		}
		// EC shard bits changed
		var bits []ssa.Instruction
		for _, in := range eng.Find(fn, eng.StoreToField("EcVolumeInfo.ShardBits")) {
			bits = append(bits, in)
		}
		if len(bits) > 0 && recvTypeName(fn) == "Disk" {
			nPair += len(bits)
			c.AfterAll("PAIR-usage", "ec-bits-changed", fn, bits, sink, nil, "a change of a disk's registered shard bits is applied to the counters up the tree")
		}
	}
	if nPair < 5 {
		c.Undecided("PAIR-usage", "discovery", token.NoPos, fmt.Sprintf("only %d volume/shard registration changes found (expected >= 5)", nPair))
	}

	// ---------------------------------------------------------------- (4) MIRROR
	sig := func(fn *ssa.Function, region func(*ssa.Store) bool) string {
		var parts []string
		for f, sts := range usageStores(fn) {
			for _, st := range sts {
				if region != nil && !region(st) {
					continue
				}
				k, isK := eng.ConstInt(st.Val)
				if !isK || (k != 1 && k != -1) {
					continue
				}
				cond := ""
				rem := eng.PassEdges(fn, eng.BoolCall(true, "storage.VolumeInfo).IsRemote"))
				if len(rem) > 0 {
					if hit, _ := eng.Search(eng.Entry(fn), eng.Is(st), eng.SearchOpt{Cut: rem}); hit == nil {
						cond = "if-remote"
					}
				}
				ro := eng.FailEdges(fn, eng.BoolVal(true, func(v ssa.Value) bool { return eng.IsField(v, "VolumeInfo.ReadOnly") }))
				if len(ro) > 0 {
					if hit, _ := eng.Search(eng.Entry(fn), eng.Is(st), eng.SearchOpt{Cut: ro}); hit == nil {
						cond = "if-writable"
					}
				}
				parts = append(parts, f+":"+cond)
			}
		}
		sort.Strings(parts)
		return strings.Join(uniq(parts), ",")
	}
	add := c.NeedFunc("weed/topology", "(*Disk).doAddOrUpdateVolume")
	if add != nil {
		// the new-volume branch: stores before the first sink call on the not-found edge
		isNewBranch := func(st *ssa.Store) bool {
			k, _ := eng.ConstInt(st.Val)
			if k != 1 {
				return false
			}
			for _, r := range eng.Find(add, eng.StoreToField("Disk.volumes")) {
				_ = r
			}
			// same region as the volumeCount = 1 store
			for _, vs := range usageStores(add)["volumeCount"] {
				if vs.Block().Dominates(st.Block()) || vs.Block() == st.Block() {
					return true
				}
			}
			return false
		}
		ref := sig(add, isNewBranch)
		c.Ob("MIRROR-add-delete", eng.FuncName(add)+" add-signature", strings.Contains(ref, "volumeCount:") && strings.Contains(ref, "remoteVolumeCount:if-remote"), add.Pos(), "counters incremented for a new volume: {"+ref+"}")
		for _, name := range []string{"(*DataNode).UpdateVolumes", "(*DataNode).DeltaUpdateVolumes"} {
			fn := c.NeedFunc("weed/topology", name)
			if fn == nil {
				continue
			}
			got := sig(fn, func(st *ssa.Store) bool { k, _ := eng.ConstInt(st.Val); return k == -1 })
			c.Ob("MIRROR-add-delete", eng.FuncName(fn)+" delete-signature", got == ref, fn.Pos(), fmt.Sprintf("counters decremented for a removed volume {%s} must mirror the counters incremented when it was added {%s}", got, ref))
		}
	}
	// GUARD-registered: a removal is accounted with the registered volume info (the incremental message only names
	// the volume: it carries no remote flag, and the volume may already have been removed by a full heartbeat)
	for _, spec := range []struct{ pkg, name string }{{"weed/topology", "(*DataNode).UpdateVolumes"}, {"weed/topology", "(*DataNode).DeltaUpdateVolumes"}} {
		fn := c.NeedFunc(spec.pkg, spec.name)
		if fn == nil {
			continue
		}
		var decs []ssa.Instruction
		for _, st := range usageStores(fn)["volumeCount"] {
			if k, isK := eng.ConstInt(st.Val); isK && k == -1 {
				decs = append(decs, st)
			}
		}
		if len(decs) != 1 {
			c.Undecided("GUARD-registered", eng.FuncName(fn), fn.Pos(), "expected one volume-count decrement")
			continue
		}
		registered := func(v ssa.Value) bool {
			switch x := v.(type) {
			case *ssa.Extract:
				lk, ok := x.Tuple.(*ssa.Lookup)
				return ok && x.Index == 0 && eng.IsField(lk.X, "Disk.volumes")
			case *ssa.Lookup:
				return eng.IsField(x.X, "Disk.volumes")
			case *ssa.Call:
				return eng.CalleeIs(x, "topology.DataNode).getVolumes", "topology.DataNode).GetVolumes")
			}
			return false
		}
		fromMessage := func(v ssa.Value) bool {
			p, ok := v.(*ssa.Parameter)
			return ok && p != fn.Params[0]
		}
		okSrc := true
		nFlags := 0
		for _, in := range eng.Find(fn, eng.PlainCallTo("storage.VolumeInfo).IsRemote")) {
			nFlags++
			arg := in.(*ssa.Call).Call.Args[0]
			for _, v := range eng.Resolve(arg) {
				if !eng.Mentions(v, 8, registered) || eng.Mentions(v, 8, fromMessage) {
					okSrc = false
				}
			}
		}
		c.Ob("GUARD-registered", eng.FuncName(fn)+" flags-of-registered-info", okSrc && nFlags > 0, decs[0].Pos(), "the remote flag that decides the remote-count decrement is read from the registered volume info, not from the heartbeat message")
		// when the info comes from a lookup, nothing is decremented for a volume that is not registered
		var lookups []ssa.Instruction
		for _, in := range eng.Find(fn, func(in ssa.Instruction) bool {
			lk, ok := in.(*ssa.Lookup)
			return ok && lk.CommaOk && eng.IsField(lk.X, "Disk.volumes")
		}) {
			lookups = append(lookups, in)
		}
		if len(lookups) > 0 {
			found := eng.PassEdges(fn, eng.BoolVal(true, func(v ssa.Value) bool {
				ex, ok := v.(*ssa.Extract)
				return ok && ex.Index == 1 && ex.Tuple == lookups[0].(ssa.Value)
			}))
			c.Guard("GUARD-registered", "only-if-registered", fn, eng.Entry(fn), decs, found, "the counts are decremented only for a volume that is registered on the disk")
		}
	}
	c.Expect("GUARD-registered", 3)

	// an already registered volume that changes tier adjusts the remote count in both directions: +1 on the
	// edge where the reported info is remote, -1 on the edge where the stored info was remote, both only under
	// "the remote flag changed", and the delta is sent upwards after either
	if add != nil {
		isRemote := func(param bool) func(ssa.Value) bool {
			return func(v ssa.Value) bool {
				call, ok := v.(*ssa.Call)
				if !ok || !eng.CalleeIs(call, "storage.VolumeInfo).IsRemote") {
					return false
				}
				return eng.Mentions(call.Call.Args[0], 4, func(x ssa.Value) bool { return eng.IsParamLike(x, "v") }) == param
			}
		}
		changed := eng.PassEdges(add, eng.Cmp(isRemote(false), isRemote(true), token.NEQ))
		newRemote := eng.PassEdges(add, eng.BoolVal(true, isRemote(true)))
		oldRemote := eng.PassEdges(add, eng.BoolVal(true, isRemote(false)))
		var plus, minus []ssa.Instruction
		for _, st := range usageStores(add)["remoteVolumeCount"] {
			k, isK := eng.ConstInt(st.Val)
			if !isK {
				continue
			}
			// only the update branch (the stored info was found)
			if hit, _ := eng.Search(eng.Entry(add), eng.Is(st), eng.SearchOpt{Cut: changed}); hit != nil {
				continue
			}
			if k == 1 {
				plus = append(plus, st)
			} else if k == -1 {
				minus = append(minus, st)
			}
		}
		okT := len(changed) > 0 && len(plus) == 1 && len(minus) == 1
		if okT {
			if hit, _ := eng.Search(eng.Entry(add), eng.Is(plus[0]), eng.SearchOpt{Cut: newRemote}); hit != nil {
				okT = false
			}
			if hit, _ := eng.Search(eng.Entry(add), eng.Is(minus[0]), eng.SearchOpt{Cut: oldRemote}); hit != nil {
				okT = false
			}
			for _, st := range []ssa.Instruction{plus[0], minus[0]} {
				if hit, _ := eng.Search(eng.After(st), eng.IsReturn, eng.SearchOpt{Barrier: eng.PlainCallTo("topology.NodeImpl).UpAdjustDiskUsageDelta", "topology.Disk).UpAdjustDiskUsageDelta")}); hit != nil {
					okT = false
				}
			}
		}
		c.Ob("MIRROR-add-delete", eng.FuncName(add)+" tier-transition-both-ways", okT, add.Pos(), fmt.Sprintf("a registered volume that changes tier adjusts the remote count by +1 (now remote) or -1 (was remote) and propagates it (found %d increments, %d decrements under the changed-flag test)", len(plus), len(minus)))
	}
	c.Expect("MIRROR-add-delete", 4)

	// ---------------------------------------------------------------- (5) PROV-ec-delta
	for _, name := range []string{"(*Disk).AddOrUpdateEcShard", "(*Disk).DeleteEcShard"} {
		fn := c.NeedFunc("weed/topology", name)
		if fn == nil {
			continue
		}
		sts := usageStores(fn)["ecShardCount"]
		if len(sts) != 1 {
			c.Undecided("PROV-ec-delta", eng.FuncName(fn), fn.Pos(), "expected one store of the EC shard delta")
			continue
		}
		notFound := eng.FailEdges(fn, func(cond ssa.Value) (bool, bool) {
			ex, ok := cond.(*ssa.Extract)
			if !ok || ex.Index != 1 {
				return false, false
			}
			lk, ok := ex.Tuple.(*ssa.Lookup)
			return ok && eng.IsField(lk.X, "Disk.ecShards"), true
		})
		isCount := func(v ssa.Value) (*ssa.Call, bool) {
			call, ok := v.(*ssa.Call)
			return call, ok && eng.CalleeIs(call, "erasure_coding.ShardBits).ShardIdCount")
		}
		val := eng.Unwrap(sts[0].Val)
		var defs []ssa.Value
		var defBlocks []*ssa.BasicBlock
		if phi, ok := val.(*ssa.Phi); ok {
			for i, e := range phi.Edges {
				defs = append(defs, e)
				defBlocks = append(defBlocks, phi.Block().Preds[i])
			}
		} else {
			defs = append(defs, val)
			defBlocks = append(defBlocks, sts[0].Block())
		}
		for i, d := range defs {
			key := fmt.Sprintf("%s delta-def#%d", eng.FuncName(fn), i)
			if k, isK := eng.ConstInt(d); isK && k == 0 {
				continue
			}
			if call, ok := isCount(d); ok {
				// message's own count: only for a volume not registered before
				last := defBlocks[i].Instrs[len(defBlocks[i].Instrs)-1]
				hit, _ := eng.Search(eng.Entry(fn), eng.Is(last), eng.SearchOpt{Cut: notFound})
				fromMsg := eng.Mentions(call.Call.Args[0], 5, func(x ssa.Value) bool { return eng.IsParamLike(x, "s") })
				c.Ob("PROV-ec-delta", key, hit == nil && len(notFound) > 0 && fromMsg, call.Pos(), "the shard count of the message is the delta only when the volume had no registered shards on this disk")
				continue
			}
			if b, ok := d.(*ssa.BinOp); ok && b.Op == token.SUB {
				ca, ok1 := isCount(b.X)
				cb, ok2 := isCount(b.Y)
				okDiff := ok1 && ok2
				if okDiff {
					// both counts are of the registered entry's bits, the first taken after, the second before the bits change
					reg := func(call *ssa.Call) bool {
						return eng.Mentions(call.Call.Args[0], 6, func(x ssa.Value) bool {
							ex, isEx := x.(*ssa.Extract)
							if !isEx {
								return false
							}
							lk, isLk := ex.Tuple.(*ssa.Lookup)
							return isLk && eng.IsField(lk.X, "Disk.ecShards")
						})
					}
					bits := eng.Find(fn, eng.StoreToField("EcVolumeInfo.ShardBits"))
					okDiff = reg(ca) && reg(cb) && len(bits) == 1 && eng.Dominates(cb, bits[0]) && eng.Dominates(bits[0], ca)
				}
				c.Ob("PROV-ec-delta", key, okDiff, b.Pos(), "for an already registered volume the delta is count(registered bits after) - count(registered bits before)")
				continue
			}
			c.Ob("PROV-ec-delta", key, false, sts[0].Pos(), "unrecognised derivation of the EC shard delta: "+d.String())
		}
	}
	c.Expect("PROV-ec-delta", 3)

	// ---------------------------------------------------------------- (6) propagation and link/unlink
	if fn := c.NeedFunc("weed/topology", "(*NodeImpl).UpAdjustDiskUsageDelta"); fn != nil {
		addc := eng.Find(fn, eng.PlainCallTo("topology.DiskUsageCounts).addDiskUsageCounts"))
		up := eng.Find(fn, sink)
		c.Ob("PAIR-usage", eng.FuncName(fn)+" adds-here", len(addc) == 1 && len(eng.CycleOf(addc[0].Block())) > 0, fn.Pos(), "every disk type of the delta is added to this node's counters")
		// no exit before the delta was walked: every path to a return passes the iteration over the delta's disk types
		iter := func(in ssa.Instruction) bool { _, ok := in.(*ssa.Next); return ok }
		hitEarly, earlyPath := eng.Search(eng.Entry(fn), eng.IsReturn, eng.SearchOpt{Barrier: iter})
		c.Ob("PAIR-usage", eng.FuncName(fn)+" no-early-exit", hitEarly == nil && len(eng.Find(fn, iter)) > 0, fn.Pos(), "every delta is applied: no exit is taken before the delta's disk types were walked"+pathNote(P, fn, hitEarly, earlyPath))
		okUp := len(up) == 1 && eng.IsParamLike(eng.Arg(up[0].(ssa.CallInstruction), 0), "deltaDiskUsages") && eng.MentionsField(eng.RecvOf(up[0].(ssa.CallInstruction)), "NodeImpl.parent")
		c.Ob("PAIR-usage", eng.FuncName(fn)+" forwards-to-parent", okUp, fn.Pos(), "the same delta is forwarded to the parent")
		if okUp {
			hasParent := eng.Cmp(func(v ssa.Value) bool { return eng.IsField(v, "NodeImpl.parent") }, eng.IsNilConst, token.NEQ)
			starts := startsOf(eng.PassEdges(fn, hasParent))
			okAll := len(starts) > 0
			for _, st := range starts {
				if hit, _ := eng.Search(st, eng.IsReturn, eng.SearchOpt{Barrier: eng.Is(up[0])}); hit != nil {
					okAll = false
				}
			}
			c.Ob("PAIR-usage", eng.FuncName(fn)+" always-forwards", okAll, up[0].Pos(), "whenever a parent exists the delta reaches it")
		}
	}
	if fn := c.NeedFunc("weed/topology", "(*NodeImpl).doLinkChildNode"); fn != nil {
		ins := eng.Find(fn, func(in ssa.Instruction) bool {
			mu, ok := in.(*ssa.MapUpdate)
			return ok && eng.IsField(mu.Map, "NodeImpl.children")
		})
		c.AfterAll("PAIR-usage", "child-linked", fn, ins, sink, nil, "linking a child adds its usages up the tree")
		for _, s := range eng.Find(fn, sink) {
			arg := eng.Arg(s.(ssa.CallInstruction), 0)
			c.Ob("PAIR-usage", eng.FuncName(fn)+" adds-child-usages", eng.MentionsCall(arg, "topology.Node).GetDiskUsages") && !eng.MentionsCall(arg, "topology.DiskUsages).negative"), s.Pos(), "the amount added is the child's usages")
		}
	}
	if fn := c.NeedFunc("weed/topology", "(*NodeImpl).UnlinkChildNode"); fn != nil {
		dels := eng.Find(fn, func(in ssa.Instruction) bool {
			call, ok := in.(*ssa.Call)
			return ok && eng.CalleeIs(call, "builtin.delete") && eng.IsField(call.Call.Args[0], "NodeImpl.children")
		})
		c.AfterAll("PAIR-usage", "child-unlinked", fn, dels, sink, nil, "unlinking a child subtracts its usages up the tree")
		for _, s := range eng.Find(fn, sink) {
			arg := eng.Arg(s.(ssa.CallInstruction), 0)
			c.Ob("PAIR-usage", eng.FuncName(fn)+" subtracts-child-usages", eng.MentionsCall(arg, "topology.Node).GetDiskUsages") && eng.MentionsCall(arg, "topology.DiskUsages).negative"), s.Pos(), "the amount subtracted is the negated usages of the child")
		}
	}
}

func nameOf(v ssa.Value) string {
	if phi, ok := v.(*ssa.Phi); ok && phi == nil {
		return ""
	}
	if phi, ok := v.(*ssa.Phi); ok && phi.Comment != "" {
		return phi.Comment
	}
	return v.Name()
}

func uniq(xs []string) []string {
	var out []string
	for i, x := range xs {
		if i == 0 || xs[i-1] != x {
			out = append(out, x)
		}
	}
	return out
}
