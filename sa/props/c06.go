package props

import (
	"fmt"
	"go/token"
	"sort"
	"strings"

	"golang.org/x/tools/go/ssa"

	"verif/sa/eng"
)

func init() {
	register(&Prop{
		ID:  "C06",
		Run: runC06,
		Explanation: "Static decision of the structural agreement between the erasure-coding encoder, decoder and locator: (1) CONST-blocksizes: every non-test caller passes the named large/small block-size constants in the (large, small) roles and every Reed-Solomon codec is built with (DataShardsCount, ParityShardsCount); (2) SIB-rowboundary: encoder, decoder and locator put a data file of exactly k full large rows on the same side of the large/small boundary; " +
			"(3) STALE-init: inside the interval loop of LocateData no pre-loop view of a loop-carried variable (large/small flag, block index, inner offset) is used; (4) RESET-missing: in the rebuild loop every shard slot is either refilled from its file or reset to nil before each Reconstruct, and outputs are written only after a successful Reconstruct; " +
			"(5) GUARD/PROV on the EC read path: bytes are returned only after ReadBytes (size + CRC) succeeded, the locator receives DataShardsCount x shard size and the needle's actual size, deleted entries are refused; (6) ERR: encode errors of both row loops reach the caller. Reed-Solomon mathematics and interval arithmetic are not decided.",
		Assumptions: []string{"klauspost/reedsolomon reconstructs nil/empty slots and leaves present ones untouched"},
		Trusted:     baseTrusted,
	})
}

func runC06(c *eng.Ctx) {
	P := c.P
	large, okL := namedConst(P, "weed/storage/erasure_coding", "ErasureCodingLargeBlockSize")
	small, okS := namedConst(P, "weed/storage/erasure_coding", "ErasureCodingSmallBlockSize")
	dsc, okD := namedConst(P, "weed/storage/erasure_coding", "DataShardsCount")
	psc, okP := namedConst(P, "weed/storage/erasure_coding", "ParityShardsCount")
	if !okL || !okS || !okD || !okP || large <= small {
		c.Undecided("CONST-blocksizes", "constants", token.NoPos, "erasure coding constants not found")
		return
	}
	// ---------------------------------------------------------------- (1) CONST-blocksizes
	type role struct {
		fn             string
		rel            string
		largeI, smallI int
	}
	for _, r := range []role{
		{"generateEcFiles", "weed/storage/erasure_coding", 2, 3},
		{"generateMissingEcFiles", "weed/storage/erasure_coding", 2, 3},
		{"LocateData", "weed/storage/erasure_coding", 0, 1},
		{"(Interval).ToShardIdAndOffset", "weed/storage/erasure_coding", 0, 1},
	} {
		fn := c.NeedFunc(r.rel, r.fn)
		if fn == nil {
			continue
		}
		cs := P.CallersOf(fn)
		if len(cs) == 0 {
			c.Undecided("CONST-blocksizes", r.fn, fn.Pos(), "no caller found")
		}
		for i, call := range cs {
			l, ok1 := eng.ConstInt(eng.Arg(call, r.largeI))
			s, ok2 := eng.ConstInt(eng.Arg(call, r.smallI))
			c.Sites++
			c.Ob("CONST-blocksizes", fmt.Sprintf("%s caller#%d %s", r.fn, i, eng.FuncName(call.Parent())), ok1 && ok2 && l == large && s == small, eng.InstrPos(call.(ssa.Instruction)),
				fmt.Sprintf("passes (large=%d, small=%d); the encoder, locator and shard addressing must all use (%d, %d)", l, s, large, small))
		}
	}
	nRS := 0
	// every site that builds a codec (encoder, rebuilder, degraded read) must build the same code: same shard counts and the
	// same options (an option such as WithCauchyMatrix changes the coding matrix, i.e. the parity bytes)
	optsOf := func(call *ssa.Call) string {
		if len(call.Call.Args) < 3 {
			return ""
		}
		var names []string
		for _, o := range eng.VarargValues(call.Call.Args[2]) {
			if oc, ok := eng.Unwrap(o).(*ssa.Call); ok {
				names = append(names, eng.Callee(oc)+"("+argConsts(oc)+")")
			} else {
				names = append(names, o.String())
			}
		}
		sort.Strings(names)
		return strings.Join(names, ",")
	}
	optCount := map[string]int{}
	for _, fn := range P.AllSrcFuncs() {
		for _, call := range eng.Find(fn, eng.PlainCallTo("reedsolomon.New")) {
			optCount[optsOf(call.(*ssa.Call))]++
		}
	}
	majority, best := "", -1
	for k, n := range optCount {
		if n > best || (n == best && k < majority) {
			majority, best = k, n
		}
	}
	for _, fn := range P.AllSrcFuncs() {
		for _, call := range eng.Find(fn, eng.PlainCallTo("reedsolomon.New")) {
			nRS++
			o := optsOf(call.(*ssa.Call))
			c.Ob("SIB-codec", fmt.Sprintf("reedsolomon.New options in %s#%d", eng.FuncName(fn), nRS), o == majority, call.Pos(),
				fmt.Sprintf("the codec is built with options [%s]; the other sites use [%s] — encoder, rebuilder and degraded read must use the same coding matrix", o, majority))
			a, ok1 := eng.ConstInt(call.(*ssa.Call).Call.Args[0])
			b, ok2 := eng.ConstInt(call.(*ssa.Call).Call.Args[1])
			c.Ob("CONST-blocksizes", fmt.Sprintf("reedsolomon.New in %s#%d", eng.FuncName(fn), nRS), ok1 && ok2 && a == dsc && b == psc, call.Pos(), fmt.Sprintf("codec built with (%d,%d), shards are (%d,%d)", a, b, dsc, psc))
		}
	}
	c.Expect("CONST-blocksizes", 8)

	// ---------------------------------------------------------------- (1b) size of the decoded data file
	// The .ecx is sorted by key, not by position: the size of the data file to decode is the largest end position of any
	// live entry, so the running value is replaced only by a larger one, and by the entry's end (position + full record size).
	if outer := c.NeedFunc("weed/storage/erasure_coding", "FindDatFileSize"); outer != nil {
		isDatSize := func(v ssa.Value) bool {
			fv, ok := v.(*ssa.FreeVar)
			return ok && fv.Name() == "datSize"
		}
		stDat := func(in ssa.Instruction) bool { st, ok := in.(*ssa.Store); return ok && isDatSize(st.Addr) }
		visit := closureWith(outer, stDat)
		if visit == nil {
			c.Undecided("MAX-datsize", eng.FuncName(outer), outer.Pos(), "the .ecx visitor updating datSize was not found")
		} else {
			c.Touch(visit)
			for i, in := range eng.Find(visit, stDat) {
				st := in.(*ssa.Store)
				val := st.Val
				larger := eng.Cmp(func(v ssa.Value) bool { u, ok := v.(*ssa.UnOp); return ok && u.Op == token.MUL && isDatSize(u.X) }, func(v ssa.Value) bool { return v == val }, token.LSS)
				c.Guard("MAX-datsize", fmt.Sprintf("only-larger#%d", i), visit, eng.Entry(visit), []ssa.Instruction{in}, eng.PassEdges(visit, larger),
					"the size computed so far is replaced only by a larger end position (entries come in key order, not in position order)")
				c.Ob("MAX-datsize", fmt.Sprintf("%s end-of-record#%d", eng.FuncName(visit), i), eng.MentionsCall(val, "needle.GetActualSize") && eng.MentionsCall(val, "types.Offset).ToActualOffset"), st.Pos(),
					"the candidate is the entry's position plus its full record size")
			}
			live := eng.BoolCall(false, "types.Size).IsDeleted")
			c.Guard("MAX-datsize", "live-entries-only", visit, eng.Entry(visit), eng.Find(visit, stDat), eng.PassEdges(visit, live), "deleted entries (whose position field is a tombstone) do not contribute")
		}
		c.Expect("MAX-datsize", 3)
	}

	// ---------------------------------------------------------------- (1c) the sorted index lists every live needle
	// readNeedleMap (the .idx -> .ecx step) drops a key only for an entry without position or with the tombstone size;
	// an empty blob (size 0) is live and must stay readable through the EC read path
	if outer := c.NeedFunc("weed/storage/erasure_coding", "readNeedleMap"); outer != nil {
		visit := closureWith(outer, eng.PlainCallTo("needle_map.MemDb).Delete"))
		if visit == nil {
			c.Undecided("GUARD-live-entries", eng.FuncName(outer), outer.Pos(), "the index visitor calling MemDb.Delete was not found")
		} else {
			c.Touch(visit)
			noPos := eng.BoolCall(true, "types.Offset).IsZero")
			tomb := eng.Cmp(func(v ssa.Value) bool { return eng.IsParamLike(v, "size") }, func(v ssa.Value) bool { k, ok := eng.ConstInt(v); return ok && k == -1 }, token.EQL)
			c.Guard("GUARD-live-entries", "drop-only-tombstones", visit, eng.Entry(visit), eng.Find(visit, eng.PlainCallTo("needle_map.MemDb).Delete")),
				eng.MergeEdges(eng.PassEdges(visit, noPos), eng.PassEdges(visit, tomb)), "a key is dropped from the sorted index only for an entry with no position or the tombstone size (an empty blob stays)")
		}
	}

	// ---------------------------------------------------------------- (2) SIB-rowboundary
	// site -> does a file of exactly k*DataShardsCount*large bytes count its last row as a large row?
	mentionsLarge := func(v ssa.Value, params ...string) bool {
		return eng.Mentions(v, 6, func(x ssa.Value) bool {
			for _, p := range params {
				if eng.IsParamLike(x, p) {
					return true
				}
			}
			k, ok := eng.ConstInt(x)
			return ok && (k == large || k == large*dsc)
		})
	}
	boundary := func(fn *ssa.Function, sizeParam string, params ...string) (string, token.Pos) {
		// loop condition `size OP large*10`
		for _, b := range fn.Blocks {
			if len(b.Instrs) == 0 {
				continue
			}
			iff, ok := b.Instrs[len(b.Instrs)-1].(*ssa.If)
			if !ok {
				continue
			}
			bo, ok := iff.Cond.(*ssa.BinOp)
			if !ok || !mentionsLarge(bo.Y, params...) {
				continue
			}
			if !eng.Mentions(bo.X, 4, func(x ssa.Value) bool { return eng.IsParamLike(x, sizeParam) }) {
				continue
			}
			switch bo.Op {
			case token.GTR:
				return "small", bo.Pos()
			case token.GEQ:
				return "large", bo.Pos()
			}
		}
		// quotient size / (large*10): floor division counts an exact multiple as a full large row
		for _, b := range fn.Blocks {
			for _, in := range b.Instrs {
				if bo, ok := in.(*ssa.BinOp); ok && bo.Op == token.QUO && mentionsLarge(bo.Y, params...) && eng.Mentions(bo.X, 4, func(x ssa.Value) bool { return eng.IsParamLike(x, sizeParam) }) {
					return "large", bo.Pos()
				}
			}
		}
		return "", token.NoPos
	}
	type bsite struct {
		rel, name, size string
		params          []string
	}
	ref := "large"
	for _, s := range []bsite{
		{"weed/storage/erasure_coding", "encodeDatFile", "remainingSize", []string{"largeBlockSize"}},
		{"weed/storage/erasure_coding", "WriteDatFile", "datFileSize", nil},
		{"weed/storage/erasure_coding", "locateOffset", "datSize", []string{"largeBlockLength"}},
		{"weed/storage/erasure_coding", "LocateData", "datSize", []string{"largeBlockLength"}},
	} {
		fn := c.NeedFunc(s.rel, s.name)
		if fn == nil {
			continue
		}
		got, pos := boundary(fn, s.size, s.params...)
		if got == "" {
			c.Undecided("SIB-rowboundary", s.name, fn.Pos(), "large-row boundary test not recognised")
			continue
		}
		c.Ob("SIB-rowboundary", s.name, got == ref, pos, fmt.Sprintf("a data file of exactly k*%d*large bytes has its k-th row treated as a %s row here; the locator and decoder (floor division / >=) treat it as a large row", dsc, got))
	}
	c.Expect("SIB-rowboundary", 4)

	// ---------------------------------------------------------------- (3) STALE-init in LocateData
	if fn := c.NeedFunc("weed/storage/erasure_coding", "LocateData"); fn != nil {
		st := eng.StaleInits(fn)
		nPhi := 0
		for _, b := range fn.Blocks {
			if len(eng.CycleOf(b)) > 0 {
				for _, in := range b.Instrs {
					if _, ok := in.(*ssa.Phi); ok {
						nPhi++
					}
				}
			}
		}
		if nPhi < 3 {
			c.Undecided("STALE-init", eng.FuncName(fn), fn.Pos(), "the interval loop with its loop-carried variables was not found")
		}
		detail := fmt.Sprintf("%d loop-carried variables; no pre-loop view of their initial values is used inside the loop", nPhi)
		pos := fn.Pos()
		if len(st) > 0 {
			detail = fmt.Sprintf("%s (computed before the loop from the initial value of loop-carried %s) is used inside the loop at %s: it keeps the first interval's large/small view when the needle crosses the boundary", st[0].Value.Name(), st[0].Phi.Comment, P.Pos(eng.InstrPos(st[0].Use)))
			pos = eng.InstrPos(st[0].Use)
		}
		c.Ob("STALE-init", eng.FuncName(fn)+" interval-loop", len(st) == 0, pos, detail)
		// the block length of each interval is chosen inside the loop from both parameters
		for _, par := range []string{"largeBlockLength", "smallBlockLength"} {
			used := false
			for _, b := range fn.Blocks {
				if len(eng.CycleOf(b)) == 0 {
					continue
				}
				for _, in := range b.Instrs {
					if bo, ok := in.(*ssa.BinOp); ok && bo.Op == token.SUB && eng.IsParamLike(bo.X, par) {
						used = true
					}
				}
			}
			c.Ob("STALE-init", eng.FuncName(fn)+" per-interval "+par, used, fn.Pos(), "the remaining length of the current block is computed inside the loop from "+par)
		}
	}

	// ---------------------------------------------------------------- (4) RESET-missing in rebuildEcFiles
	if fn := c.NeedFunc("weed/storage/erasure_coding", "rebuildEcFiles"); fn != nil {
		recon := eng.Find(fn, eng.CallTo("reedsolomon.Encoder).Reconstruct"))
		isBufElem := func(addr ssa.Value) bool {
			ia, ok := addr.(*ssa.IndexAddr)
			if !ok {
				return false
			}
			return ia.X.Type().String() == "[][]byte" // the per-shard buffer table handed to Reconstruct
		}
		nilStore := func(in ssa.Instruction) bool {
			s, ok := in.(*ssa.Store)
			return ok && eng.IsNilConst(s.Val) && isBufElem(s.Addr)
		}
		readAt := eng.CallTo("os.File).ReadAt")
		// the per-shard branch on shardHasData[i] one arm of which refills the buffer from the shard file
		type armT struct {
			iff   *ssa.If
			other int
		}
		var arms []armT
		if len(recon) == 1 {
			cyc := eng.CycleOf(recon[0].Block())
			for _, b := range fn.Blocks {
				if !cyc[b] || len(b.Instrs) == 0 {
					continue
				}
				iff, ok := b.Instrs[len(b.Instrs)-1].(*ssa.If)
				if !ok || !eng.Mentions(iff.Cond, 4, func(x ssa.Value) bool { return eng.IsParamLike(x, "shardHasData") }) {
					continue
				}
				for si, succ := range b.Succs {
					for _, ra := range eng.Find(fn, readAt) {
						if succ.Dominates(ra.Block()) && !b.Succs[1-si].Dominates(ra.Block()) {
							arms = append(arms, armT{iff, 1 - si})
						}
					}
				}
			}
		}
		if len(recon) != 1 || len(arms) == 0 {
			c.Undecided("RESET-missing", eng.FuncName(fn), fn.Pos(), "Reconstruct call / per-shard branch on shardHasData with a ReadAt arm not found")
		} else {
			for n, a := range arms {
				start := eng.Loc{B: a.iff.Block().Succs[a.other], Idx: 0}
				hit, path := eng.Search(start, eng.Or(eng.Is(a.iff), eng.Is(recon[0])), eng.SearchOpt{Barrier: nilStore})
				c.Ob("RESET-missing", fmt.Sprintf("%s shard-branch#%d", eng.FuncName(fn), n), hit == nil, a.iff.Pos(),
					"a shard slot that is not refilled from its file is reset to nil before Reconstruct (a stale buffer would be taken as present data)"+pathNote(P, fn, hit, path))
			}
			// outputs are written only after a successful Reconstruct
			writes := eng.Find(fn, eng.CallTo("os.File).WriteAt"))
			c.Guard("RESET-missing", "write-after-reconstruct", fn, eng.Entry(fn), writes, eng.PassEdges(fn, eng.ErrNil(eng.ErrOf(recon[0]))), "regenerated shards are written only after Reconstruct succeeded")
		}
	}

	// ---------------------------------------------------------------- (5) EC read path
	if fn := c.NeedFunc("weed/storage", "(*Store).ReadEcShardNeedle"); fn != nil {
		rb := eng.Find(fn, eng.PlainCallTo("needle.Needle).ReadBytes"))
		loc := eng.Find(fn, eng.PlainCallTo("erasure_coding.EcVolume).LocateEcShardNeedle"))
		rd := eng.Find(fn, eng.PlainCallTo("storage.Store).readEcShardIntervals"))
		if len(rb) != 1 || len(loc) != 1 || len(rd) != 1 {
			c.Undecided("GUARD-ec-read", eng.FuncName(fn), fn.Pos(), "locate / read intervals / ReadBytes calls not found")
		} else {
			succ := successReturns(fn)
			cut := eng.PassEdges(fn, eng.ErrNil(eng.ErrOf(rb[0])))
			c.Guard("GUARD-ec-read", "success-after-ReadBytes", fn, eng.Entry(fn), succ, cut, "a needle is returned only after its bytes passed the size and checksum verification")
			c.Guard("GUARD-ec-read", "read-after-locate", fn, eng.Entry(fn), rd, eng.PassEdges(fn, eng.ErrNil(eng.ErrOf(loc[0]))), "intervals are read only after the needle was located")
			c.Guard("GUARD-ec-read", "verify-after-read", fn, eng.Entry(fn), rb, eng.PassEdges(fn, eng.ErrNil(eng.ErrOf(rd[0]))), "bytes are verified only after every interval was read")
			notDeleted := eng.FailEdges(fn, eng.BoolCall(true, "types.Size).IsDeleted"))
			c.Guard("GUARD-ec-read", "not-deleted", fn, eng.Entry(fn), rd, notDeleted, "a deleted entry is refused before any shard is read")
			// intervals read are the located ones; offset/size verified are the located ones
			okI := eng.SameVar(eng.Arg(rd[0].(*ssa.Call), 3), eng.ResultOf(loc[0], 2))
			okS := eng.SameVar(eng.Arg(rb[0].(*ssa.Call), 2), eng.ResultOf(loc[0], 1)) && eng.MentionsValue(eng.Arg(rb[0].(*ssa.Call), 1), eng.ResultOf(loc[0], 0)) && eng.MentionsValue(eng.Arg(rb[0].(*ssa.Call), 0), eng.ResultOf(rd[0], 0))
			c.Ob("PROV-ec-read", eng.FuncName(fn)+" located-intervals", okI, rd[0].Pos(), "the intervals read are those returned by the locator")
			c.Ob("PROV-ec-read", eng.FuncName(fn)+" verify-args", okS, rb[0].Pos(), "ReadBytes verifies the bytes just read against the located offset and size")
		}
	}
	if fn := c.NeedFunc("weed/storage/erasure_coding", "(*EcVolume).LocateEcShardNeedle"); fn != nil {
		ld := eng.Find(fn, eng.PlainCallTo("erasure_coding.LocateData"))
		find := eng.Find(fn, eng.PlainCallTo("erasure_coding.EcVolume).FindNeedleFromEcx"))
		if len(ld) != 1 || len(find) != 1 {
			c.Undecided("PROV-ec-read", eng.FuncName(fn), fn.Pos(), "LocateData / FindNeedleFromEcx not found")
		} else {
			call := ld[0].(*ssa.Call)
			dat := eng.Arg(call, 2)
			okDat := false
			if bo, ok := dat.(*ssa.BinOp); ok && bo.Op == token.MUL {
				k, isK := eng.ConstInt(bo.X)
				other := bo.Y
				if !isK {
					k, isK = eng.ConstInt(bo.Y)
					other = bo.X
				}
				okDat = isK && k == dsc && eng.MentionsField(other, "EcVolumeShard.ecdFileSize")
			}
			c.Ob("PROV-ec-read", eng.FuncName(fn)+" dat-size", okDat, call.Pos(), "the locator is given DataShardsCount x shard file size as the data size")
			okOff := eng.MentionsCall(eng.Arg(call, 3), "types.Offset).ToActualOffset") && eng.MentionsValue(eng.Arg(call, 3), eng.ResultOf(find[0], 0))
			okSz := eng.MentionsCall(eng.Arg(call, 4), "needle.GetActualSize") && eng.MentionsValue(eng.Arg(call, 4), eng.ResultOf(find[0], 1))
			c.Ob("PROV-ec-read", eng.FuncName(fn)+" offset", okOff, call.Pos(), "the located range starts at the actual offset of the index entry")
			c.Ob("PROV-ec-read", eng.FuncName(fn)+" size", okSz, call.Pos(), "the located range covers the whole record (GetActualSize of the index size and version)")
			c.Guard("GUARD-ec-read", "locate-after-found", fn, eng.Entry(fn), ld, eng.PassEdges(fn, eng.ErrNil(eng.ErrOf(find[0]))), "only a needle found in the sorted index is located")
		}
	}
	if fn := c.NeedFunc("weed/storage", "(*Store).readEcShardIntervals"); fn != nil {
		one := eng.Find(fn, eng.PlainCallTo("storage.Store).readOneEcShardInterval"))
		c.ErrChecked("ERR-ec", "interval", fn, one, "a failed interval read fails the needle read")
	}
	if fn := c.NeedFunc("weed/storage", "(*Store).readOneEcShardInterval"); fn != nil {
		mk := eng.Find(fn, func(in ssa.Instruction) bool { _, ok := in.(*ssa.MakeSlice); return ok })
		okLen := len(mk) == 1 && eng.MentionsField(mk[0].(*ssa.MakeSlice).Len, "Interval.Size")
		c.Ob("PROV-ec-read", eng.FuncName(fn)+" buffer-size", okLen, fn.Pos(), "the interval buffer is exactly Interval.Size bytes")
		ra := eng.Find(fn, eng.PlainCallTo("erasure_coding.EcVolumeShard).ReadAt"))
		to := eng.Find(fn, eng.PlainCallTo("erasure_coding.Interval).ToShardIdAndOffset"))
		if len(ra) == 1 && len(to) == 1 {
			c.Ob("PROV-ec-read", eng.FuncName(fn)+" shard-offset", eng.SameVar(eng.Arg(ra[0].(*ssa.Call), 1), eng.ResultOf(to[0], 1)), ra[0].Pos(), "the local shard is read at the offset computed by ToShardIdAndOffset")
			c.ErrChecked("ERR-ec", "local-read", fn, ra, "a failed local shard read fails the interval")
		} else {
			c.Undecided("PROV-ec-read", eng.FuncName(fn)+" shard-offset", fn.Pos(), "local shard read not found")
		}
	}

	// ---------------------------------------------------------------- (6) ERR in the encoder
	if fn := c.NeedFunc("weed/storage/erasure_coding", "encodeDatFile"); fn != nil {
		enc := eng.Find(fn, eng.PlainCallTo("erasure_coding.encodeData"))
		if len(enc) != 2 {
			c.Undecided("ERR-ec", eng.FuncName(fn), fn.Pos(), "expected the large-row and the small-row encodeData calls")
		}
		c.ErrChecked("ERR-ec", "encode", fn, enc, "a failed row encoding fails the shard generation")
		// roles: the first loop encodes with the large block size, the second with the small one
		for i, e := range enc {
			want := []string{"largeBlockSize", "smallBlockSize"}[i%2]
			c.Ob("CONST-blocksizes", fmt.Sprintf("%s encodeData#%d block-size", eng.FuncName(fn), i), eng.IsParamLike(eng.Arg(e.(*ssa.Call), 3), want), e.Pos(), "row loop "+want)
		}
	}
	for _, name := range []string{"encodeData", "encodeDataOneBatch", "generateEcFiles", "generateMissingEcFiles"} {
		if fn := c.NeedFunc("weed/storage/erasure_coding", name); fn != nil {
			calls := eng.Find(fn, eng.PlainCallTo("erasure_coding.encodeDataOneBatch", "erasure_coding.encodeDatFile", "erasure_coding.rebuildEcFiles", "reedsolomon.Encoder).Encode", "os.File).Write", "os.File).ReadAt"))
			c.ErrChecked("ERR-ec", "step", fn, calls, "I/O and codec errors of shard generation reach the caller")
		}
	}

	// no error of a callee is dropped on the encode / rebuild / read paths
	errAll(c, "ERR-ec-paths", "weed/storage/erasure_coding", "an error of a callee on the EC encode / rebuild path reaches the caller", "WriteEcFiles", "RebuildEcFiles", "generateEcFiles", "encodeDatFile", "WriteSortedFileFromIdx")
	errAll(c, "ERR-ec-paths", "weed/storage", "an error of a callee on the EC read path reaches the caller", "(*Store).ReadEcShardNeedle", "(*Store).recoverOneRemoteEcShardInterval")
	c.Expect("ERR-ec-paths", 18)
}

func argConsts(call *ssa.Call) string {
	var out []string
	for _, a := range call.Call.Args {
		if k, ok := a.(*ssa.Const); ok {
			out = append(out, k.String())
		} else {
			out = append(out, "?")
		}
	}
	return strings.Join(out, ",")
}
