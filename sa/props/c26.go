package props

import (
	"fmt"
	"go/token"
	"go/types"
	"sort"
	"strings"

	"golang.org/x/tools/go/ssa"

	"verif/sa/eng"
)

func init() {
	register(&Prop{
		ID:  "C26",
		Run: runC26,
		Explanation: "Static decision of the S3 router / authentication matrix: (1) ROUTE-wrapped: every handler registered on the bucket routers is iam.Auth(handler, action) (the bucket-less ListBuckets authenticates itself); (2) ROUTE-action: no mutating method (PUT/POST/DELETE) is authorised by the Read or List action; (3) ROUTE-passthrough: for each request auth type that authRequest lets through without establishing an identity (found by analysing its returns), every handler reachable under that type's method precondition — taking route order into account — itself calls the type's verifier; " +
			"(4) GUARD-auth: Auth runs the handler only when authRequest answered ErrNone; authRequest answers ErrNone with an identity only past a successful signature check and canDo; the verifiers of the pass-through types (streaming seed signature, POST policy) refuse unknown keys, mismatching signatures and identities that may not write the bucket; (5) GUARD-iam: GetActions appends an action only under Effect == Allow, and a bucket-scoped action only for a resource of the exact form <bucket>/*; the two action-name tables are inverse. Signature mathematics is not decided. Also decided: canDo matches a grant by prefix only in its wildcard form and by equality otherwise.",
		Assumptions: []string{"gorilla/mux tries routes in registration order", "the HMAC comparison helpers compare what they are given"},
		Trusted:     append([]string{"gorilla/mux route matching"}, baseTrusted...),
	})
}

type s3Route struct {
	order   int
	method  string
	path    bool
	headers []string
	queries []string
	handler *ssa.Function
	hname   string
	action  string
	wrapped bool
	tracked bool // registered through the common track() wrapper
	pos     token.Pos
}

// boundMethod resolves a bound-method closure value (s3a.Handler) to the method's function.
func boundMethod(P *eng.Prog, v ssa.Value) *ssa.Function {
	v = eng.Unwrap(v)
	mc, ok := v.(*ssa.MakeClosure)
	if !ok {
		if f, isF := v.(*ssa.Function); isF {
			return f
		}
		return nil
	}
	fn := mc.Fn.(*ssa.Function)
	if obj, ok := fn.Object().(*types.Func); ok && obj != nil {
		if real := P.SSA.FuncValue(obj); real != nil {
			return real
		}
	}
	return fn
}

func constStrings(v ssa.Value) []string {
	var out []string
	for _, x := range eng.VarargValues(v) {
		if s, ok := eng.ConstString(eng.Unwrap(x)); ok {
			out = append(out, s)
		}
	}
	return out
}

func s3Routes(P *eng.Prog, reg *ssa.Function) []s3Route {
	var routes []s3Route
	n := 0
	for _, b := range reg.Blocks {
		for _, in := range b.Instrs {
			call, ok := in.(*ssa.Call)
			if !ok || !eng.CalleeIs(call, "mux.Route).HandlerFunc") {
				continue
			}
			r := s3Route{order: n, pos: call.Pos()}
			n++
			// handler argument
			h := eng.Unwrap(eng.Arg(call, 0))
			if tc, isCall := h.(*ssa.Call); isCall && eng.CalleeIs(tc, "s3api.track") {
				h = eng.Unwrap(tc.Call.Args[0])
				r.tracked = true
			}
			if ac, isCall := h.(*ssa.Call); isCall && eng.CalleeIs(ac, "s3api.IdentityAccessManagement).Auth") {
				r.wrapped = true
				r.handler = boundMethod(P, eng.Arg(ac, 0))
				if s, isS := eng.ConstString(eng.Unwrap(eng.Arg(ac, 1))); isS {
					r.action = s
				}
			} else {
				r.handler = boundMethod(P, h)
			}
			if r.handler != nil {
				r.hname = strings.TrimSuffix(r.handler.Name(), "$bound")
			}
			// matcher chain before HandlerFunc
			recv := eng.RecvOf(call)
			for d := 0; d < 8 && recv != nil; d++ {
				rc, isCall := eng.Unwrap(recv).(*ssa.Call)
				if !isCall {
					break
				}
				switch {
				case eng.CalleeIs(rc, "mux.Router).Methods", "mux.Route).Methods"):
					if ms := constStrings(rc.Call.Args[len(rc.Call.Args)-1]); len(ms) > 0 {
						r.method = ms[0]
					}
				case eng.CalleeIs(rc, "mux.Route).Path", "mux.Router).Path"):
					r.path = true
				case eng.CalleeIs(rc, "mux.Route).HeadersRegexp", "mux.Router).HeadersRegexp"):
					r.headers = append(r.headers, constStrings(rc.Call.Args[len(rc.Call.Args)-1])...)
				case eng.CalleeIs(rc, "mux.Route).Queries", "mux.Router).Queries"):
					r.queries = append(r.queries, constStrings(rc.Call.Args[len(rc.Call.Args)-1])...)
				}
				recv = eng.RecvOf(rc)
			}
			// matchers applied after HandlerFunc
			for _, ref := range *call.Referrers() {
				if qc, isCall := ref.(*ssa.Call); isCall && eng.CalleeIs(qc, "mux.Route).Queries") {
					r.queries = append(r.queries, constStrings(qc.Call.Args[len(qc.Call.Args)-1])...)
				}
			}
			routes = append(routes, r)
		}
	}
	return routes
}

func runC26(c *eng.Ctx) {
	P := c.P
	reg := c.NeedFunc("weed/s3api", "(*S3ApiServer).registerRouter")
	if reg == nil {
		return
	}
	routes := s3Routes(P, reg)
	if len(routes) < 22 {
		c.Undecided("ROUTE-wrapped", "discovery", reg.Pos(), fmt.Sprintf("only %d handler registrations found, expected >= 22", len(routes)))
	}
	// ---------------------------------------------------------------- (1) ROUTE-wrapped / (2) ROUTE-action
	ord := map[string]int{}
	keyOf := func(r s3Route) string {
		k := r.method + " " + r.hname
		ord[k]++
		if ord[k] > 1 {
			return fmt.Sprintf("%s#%d", k, ord[k])
		}
		return k
	}
	keys := map[int]string{}
	for _, r := range routes {
		keys[r.order] = keyOf(r)
	}
	for _, r := range routes {
		c.Sites++
		c.Touch(r.handler)
		if r.method == "" || r.handler == nil {
			c.Undecided("ROUTE-wrapped", keys[r.order], r.pos, "method / handler of the registration not recognised")
			continue
		}
		if !r.wrapped {
			// only acceptable for a handler that authenticates itself
			self := r.handler != nil && eng.Reaches(r.handler, eng.CallTo("s3api.IdentityAccessManagement).authUser", "s3api.IdentityAccessManagement).authRequest"), 1)
			c.Ob("ROUTE-wrapped", keys[r.order], self, r.pos, "a handler registered without iam.Auth authenticates the request itself")
			continue
		}
		c.Ob("ROUTE-wrapped", keys[r.order], r.action != "", r.pos, "registered as iam.Auth(handler, "+r.action+")")
		mutating := r.method == "PUT" || r.method == "POST" || r.method == "DELETE"
		weak := r.action == "Read" || r.action == "List"
		c.Ob("ROUTE-action", keys[r.order], !(mutating && weak), r.pos, fmt.Sprintf("%s route authorised by action %q", r.method, r.action))
	}
	c.Expect("ROUTE-wrapped", 22)

	// ---------------------------------------------------------------- (3) ROUTE-passthrough
	ar := c.NeedFunc("weed/s3api", "(*IdentityAccessManagement).authRequest")
	type passType struct {
		constName  string
		method     string
		verifier   []string
		formOnly   bool
		bucketOnly bool // authRequest passes the type through only for bucket-level requests
	}
	known := map[string]passType{
		"authTypeStreamingSigned": {"authTypeStreamingSigned", "PUT", []string{"s3api.IdentityAccessManagement).newSignV4ChunkedReader"}, false, false},
		"authTypePostPolicy":      {"authTypePostPolicy", "POST", []string{"s3api.IdentityAccessManagement).doesPolicySignatureMatch"}, true, false},
	}
	var passing []passType
	if ar != nil {
		canDo := eng.PassEdges(ar, eng.BoolCall(true, "s3api.Identity).canDo"))
		authTypeName := func(k int64) string {
			pk := P.Pkg("weed/s3api")
			for _, n := range pk.Types.Scope().Names() {
				if cst, ok := pk.Types.Scope().Lookup(n).(*types.Const); ok && strings.HasPrefix(n, "authType") {
					if v, exact := constInt64(cst); exact && v == k {
						return n
					}
				}
			}
			return fmt.Sprintf("authType(%d)", k)
		}
		// returns of ErrNone not behind canDo: which auth types lead there?
		for _, r := range eng.Find(ar, eng.IsReturn) {
			ret := r.(*ssa.Return)
			if len(ret.Results) != 2 {
				continue
			}
			k, isK := eng.ConstInt(ret.Results[1])
			if !isK || k != 0 {
				continue
			}
			if hit, _ := eng.Search(eng.Entry(ar), eng.Is(r), eng.SearchOpt{Cut: canDo}); hit == nil {
				continue // only reachable past canDo
			}
			// find the auth-type comparisons whose equal edge leads to this return without canDo
			for _, b := range ar.Blocks {
				iff, ok := b.Instrs[len(b.Instrs)-1].(*ssa.If)
				if !ok {
					continue
				}
				bo, ok := iff.Cond.(*ssa.BinOp)
				if !ok || bo.Op != token.EQL || !eng.MentionsCall(bo.X, "s3api.getRequestAuthType") {
					continue
				}
				tk, isT := eng.ConstInt(bo.Y)
				if !isT {
					continue
				}
				if hit, _ := eng.Search(eng.Loc{B: b.Succs[0], Idx: 0}, eng.Is(r), eng.SearchOpt{Cut: canDo, Barrier: func(in ssa.Instruction) bool {
					i2, isIf := in.(*ssa.If)
					if !isIf {
						return false
					}
					b2, isB := i2.Cond.(*ssa.BinOp)
					return isB && b2.Op == token.EQL && eng.MentionsCall(b2.X, "s3api.getRequestAuthType")
				}}); hit != nil {
					name := authTypeName(tk)
					if pt, isKnown := known[name]; isKnown {
						// is this pass-through limited to requests that address a bucket (no object in the path)?
						bucketLevel := eng.PassEdges(ar, func(cond ssa.Value) (bool, bool) {
							bo2, isB := cond.(*ssa.BinOp)
							if !isB || (bo2.Op != token.EQL && bo2.Op != token.NEQ) {
								return false, false
							}
							sv, isS := eng.ConstString(bo2.Y)
							if !isS || sv != "/" || !eng.MentionsCall(bo2.X, "s3api.getBucketAndObject") {
								return false, false
							}
							ex, isEx := eng.Unwrap(bo2.X).(*ssa.Extract)
							if !isEx || ex.Index != 1 {
								return false, false
							}
							return true, bo2.Op == token.EQL
						})
						if len(bucketLevel) > 0 {
							if h2, _ := eng.Search(eng.Loc{B: b.Succs[0], Idx: 0}, eng.Is(r), eng.SearchOpt{Cut: eng.MergeEdges(canDo, bucketLevel)}); h2 == nil {
								pt.bucketOnly = true
							}
						}
						passing = append(passing, pt)
					} else {
						c.Ob("ROUTE-passthrough", "authRequest lets "+name+" through", false, ret.Pos(), "authRequest answers ErrNone for auth type "+name+" without an identity and no verifier for that type is known to this check")
					}
				}
			}
		}
	}
	sort.Slice(passing, func(i, j int) bool { return passing[i].constName < passing[j].constName })
	c.Note("auth types passed through by authRequest without identity: %v", passing)
	for _, pt := range passing {
		shadowed := false
		for _, r := range routes {
			if r.method != pt.method || !r.wrapped || r.handler == nil {
				continue
			}
			verifies := eng.Reaches(r.handler, eng.CallTo(pt.verifier...), 2)
			key := fmt.Sprintf("%s under %s", keys[r.order], pt.constName)
			if pt.bucketOnly && r.path {
				c.Ob("ROUTE-passthrough", key, true, r.pos, "not reachable with this auth type: authRequest passes it through only for requests that address a bucket, this route addresses an object")
				continue
			}
			if shadowed {
				c.Ob("ROUTE-passthrough", key, true, r.pos, "not reachable with this auth type: an earlier route matching every form-encoded "+pt.method+" verifies it")
				continue
			}
			c.Ob("ROUTE-passthrough", key, verifies, r.pos, fmt.Sprintf("authRequest lets %s requests with auth type %s through without an identity, so the handler itself must call %s", pt.method, pt.constName, shortName(pt.verifier[0])))
			if pt.formOnly && verifies && !r.path && len(r.queries) == 0 {
				isForm := false
				for _, h := range r.headers {
					if strings.Contains(h, "multipart/form-data") {
						isForm = true
					}
				}
				if isForm {
					shadowed = true // this route catches every later form-encoded request of that method
				}
			}
		}
	}
	c.Expect("ROUTE-passthrough", 4)

	// ---------------------------------------------------------------- (3b) the form of a POST upload is judged for the bucket it is posted to
	// The signature verifiers authorise the signer for formValues["Bucket"] and the policy conditions on $bucket are
	// matched against it; the upload goes to the bucket of the URL. The handler therefore overwrites the form's Bucket
	// value with the URL's bucket, unconditionally, before either check.
	if fn := c.NeedFunc("weed/s3api", "(*S3ApiServer).PostPolicyBucketHandler"); fn != nil {
		fromURL := func(v ssa.Value) bool {
			return eng.Mentions(v, 12, func(x ssa.Value) bool {
				lk, ok := x.(*ssa.Lookup)
				if !ok {
					return false
				}
				k, isK := eng.ConstString(lk.Index)
				return isK && k == "bucket" && eng.MentionsCall(lk.X, "mux.Vars")
			})
		}
		force := func(in ssa.Instruction) bool {
			call, ok := in.(*ssa.Call)
			if !ok || !eng.CalleeIs(call, "http.Header).Set") || len(call.Call.Args) != 3 {
				return false
			}
			k, isK := eng.ConstString(call.Call.Args[1])
			return isK && k == "Bucket" && fromURL(call.Call.Args[2])
		}
		checks := eng.Find(fn, eng.PlainCallTo("s3api.IdentityAccessManagement).doesPolicySignatureMatch", "policy.CheckPostPolicy"))
		if len(checks) < 2 {
			c.Undecided("GUARD-post-bucket", eng.FuncName(fn), fn.Pos(), "signature / policy checks not found")
		}
		c.Before("GUARD-post-bucket", "form-bucket-is-url-bucket", fn, force, checks, "the form's Bucket value is overwritten with the bucket of the request URL before the signer is authorised for it and before the policy conditions are matched")
		for i, in := range eng.Find(fn, eng.PlainCallTo("s3api.S3ApiServer).putToFiler")) {
			c.Ob("GUARD-post-bucket", fmt.Sprintf("%s upload-target#%d", eng.FuncName(fn), i), fromURL(eng.Arg(in.(ssa.CallInstruction), 1)), in.Pos(), "the upload goes to the bucket of the request URL")
		}
		c.Expect("GUARD-post-bucket", 3)
	}

	// ---------------------------------------------------------------- (3c) credentials are looked up in the live configuration
	// loadS3ApiConfiguration replaces IdentityAccessManagement.identities as a whole; a lookup that answers "found" has
	// read that list in this very call (an answer remembered from before a reload would keep rotated secrets and
	// removed permissions alive), and the identity and credential it returns are elements of that list
	for _, name := range []string{"(*IdentityAccessManagement).lookupByAccessKey", "(*IdentityAccessManagement).lookupAnonymous"} {
		fn := c.NeedFunc("weed/s3api", name)
		if fn == nil {
			continue
		}
		readsList := func(in ssa.Instruction) bool {
			u, ok := in.(*ssa.UnOp)
			return ok && u.Op == token.MUL && eng.IsField(u, "IdentityAccessManagement.identities")
		}
		var founds []ssa.Instruction
		for _, r := range eng.Find(fn, eng.IsReturn) {
			ret := r.(*ssa.Return)
			last := ret.Results[len(ret.Results)-1]
			for _, v := range eng.ResolveFrom(last, ret) {
				if k, ok := eng.ConstBool(v); !ok || k {
					founds = append(founds, r)
					break
				}
			}
		}
		if len(founds) == 0 {
			c.Undecided("GUARD-live-config", eng.FuncName(fn), fn.Pos(), "no found=true return")
		}
		c.Before("GUARD-live-config", "found-only-after-reading-the-configured-identities", fn, readsList, founds, "an access key is answered as known only after the configured identity list was read in this call")
	}

	// ---------------------------------------------------------------- (4) GUARD-auth
	if auth := c.NeedFunc("weed/s3api", "(*IdentityAccessManagement).Auth"); auth != nil && len(auth.AnonFuncs) == 1 {
		w := auth.AnonFuncs[0]
		c.Touch(w)
		areq := eng.Find(w, eng.PlainCallTo("s3api.IdentityAccessManagement).authRequest"))
		var calls []ssa.Instruction
		for _, in := range eng.Find(w, func(in ssa.Instruction) bool { _, ok := in.(*ssa.Call); return ok }) {
			if eng.ParamName(in.(*ssa.Call).Call.Value) == "f" {
				calls = append(calls, in)
			}
		}
		if len(areq) != 1 || len(calls) != 1 {
			c.Undecided("GUARD-auth", eng.FuncName(auth), auth.Pos(), "authRequest / handler call not found in the wrapper")
		} else {
			code := eng.ResultOf(areq[0], 1)
			none := eng.Cmp(func(v ssa.Value) bool { return v == code }, func(v ssa.Value) bool { k, ok := eng.ConstInt(v); return ok && k == 0 }, token.EQL)
			c.Guard("GUARD-auth", "handler-only-on-ErrNone", w, eng.Entry(w), calls, eng.PassEdges(w, none), "the wrapped handler runs only when authRequest answered ErrNone")
			okAct := eng.ParamName(eng.Arg(areq[0].(*ssa.Call), 1)) == "action"
			c.Ob("GUARD-auth", eng.FuncName(auth)+" checks-registered-action", okAct, areq[0].Pos(), "the action checked is the action the route was registered with")
		}
	}
	if ar != nil {
		// the identity paths: ErrNone only past signature ok (s3Err == ErrNone) and canDo — decided above by construction: any other ErrNone return is a pass-through and was listed.
		sig := eng.Find(ar, eng.PlainCallTo("s3api.IdentityAccessManagement).isReqAuthenticatedV2", "s3api.IdentityAccessManagement).reqSignatureV4Verify"))
		c.Ob("GUARD-auth", eng.FuncName(ar)+" verifies-signatures", len(sig) == 2, ar.Pos(), "V2 and V4 (header / presigned) requests are handed to their signature verifiers")
		var okRets []ssa.Instruction
		canDo := eng.PassEdges(ar, eng.BoolCall(true, "s3api.Identity).canDo"))
		for _, r := range eng.Find(ar, eng.IsReturn) {
			ret := r.(*ssa.Return)
			if k, isK := eng.ConstInt(ret.Results[1]); isK && k == 0 {
				if hit, _ := eng.Search(eng.Entry(ar), eng.Is(r), eng.SearchOpt{Cut: canDo}); hit == nil {
					okRets = append(okRets, r)
				}
			}
		}
		sigOK := eng.PassEdges(ar, func(cond ssa.Value) (bool, bool) {
			b, ok := cond.(*ssa.BinOp)
			if !ok || (b.Op != token.EQL && b.Op != token.NEQ) {
				return false, false
			}
			k, isK := eng.ConstInt(b.Y)
			if !isK || k != 0 || eng.TypeName(b.X.Type()) != "ErrorCode" {
				return false, false
			}
			return true, b.Op == token.EQL
		})
		c.Guard("GUARD-auth", "identity-path-needs-signature-ok", ar, eng.Entry(ar), okRets, sigOK, "with an identity, ErrNone is answered only when the signature verifier answered ErrNone")
		for _, cd := range eng.Find(ar, eng.PlainCallTo("s3api.Identity).canDo")) {
			c.Ob("GUARD-auth", eng.FuncName(ar)+" canDo-arguments", eng.ParamName(eng.Arg(cd.(*ssa.Call), 0)) == "action" && eng.MentionsCall(eng.Arg(cd.(*ssa.Call), 1), "s3api.getBucketAndObject"), cd.Pos(), "permission is checked for the route's action on the request's bucket")
		}
	}
	// verifiers of the pass-through types
	type verifier struct {
		name     string
		needAuth bool
	}
	for _, v := range []verifier{{"(*IdentityAccessManagement).calculateSeedSignature", true}, {"(*IdentityAccessManagement).doesPolicySignatureV4Match", true}, {"(*IdentityAccessManagement).doesPolicySignatureV2Match", true}} {
		fn := c.NeedFunc("weed/s3api", v.name)
		if fn == nil {
			continue
		}
		var okRets []ssa.Instruction
		for _, r := range eng.Find(fn, eng.IsReturn) {
			ret := r.(*ssa.Return)
			if r.Block() == fn.Recover {
				continue
			}
			last := ret.Results[len(ret.Results)-1]
			if codeMayBeNone(fn, ret, last) {
				okRets = append(okRets, r)
			}
		}
		found := eng.PassEdges(fn, func(cond ssa.Value) (bool, bool) {
			ex, ok := cond.(*ssa.Extract)
			if !ok {
				return false, false
			}
			call, ok := ex.Tuple.(*ssa.Call)
			return ok && eng.CalleeIs(call, "s3api.IdentityAccessManagement).lookupByAccessKey") && ex.Index == 2, true
		})
		c.Guard("GUARD-auth", "known-access-key", fn, eng.Entry(fn), okRets, found, "succeeds only for a configured access key")
		sigMatch := eng.MergeEdges(eng.PassEdges(fn, eng.BoolCall(true, "s3api.compareSignatureV4", "s3api.compareSignatureV2")),
			eng.PassEdges(fn, func(cond ssa.Value) (bool, bool) {
				b, ok := cond.(*ssa.BinOp)
				if !ok || (b.Op != token.EQL && b.Op != token.NEQ) {
					return false, false
				}
				if eng.MentionsCall(b.X, "s3api.getSignature") || eng.MentionsCall(b.Y, "s3api.getSignature") || eng.MentionsCall(b.X, "s3api.calculateSignatureV2") || eng.MentionsCall(b.Y, "s3api.calculateSignatureV2") {
					return true, b.Op == token.EQL
				}
				return false, false
			}))
		c.Guard("GUARD-auth", "signature-matches", fn, eng.Entry(fn), okRets, sigMatch, "succeeds only when the recomputed signature equals the presented one")
		if v.needAuth {
			can := eng.PassEdges(fn, eng.BoolCall(true, "s3api.Identity).canDo"))
			c.Guard("GUARD-auth", "identity-may-write-bucket", fn, eng.Entry(fn), okRets, can, "succeeds only for an identity that may write the target bucket (authRequest did not check any permission for this auth type)")
		}
	}
	// canDo: a bucket-limited grant matches by prefix only in its wildcard form ("Read:buck*"); a plain grant
	// ("Read:bucket") authorises exactly that bucket
	if cd := c.NeedFunc("weed/s3api", "(*Identity).canDo"); cd != nil {
		wildcard := eng.PassEdges(cd, func(cond ssa.Value) (bool, bool) {
			call, ok := cond.(*ssa.Call)
			if !ok || !eng.CalleeIs(call, "strings.HasSuffix") {
				return false, false
			}
			sfx, isS := eng.ConstString(call.Call.Args[1])
			return isS && sfx == "*", true
		})
		var prefixGrants, exactGrants []ssa.Instruction
		grantOnMismatch, grantOther := false, false
		globalGrants := 0
		for _, r := range eng.Find(cd, eng.IsReturn) {
			if t, isT := eng.ConstBool(r.(*ssa.Return).Results[0]); !isT || !t {
				continue
			}
			// the test that leads to this grant
			for _, p := range r.Block().Preds {
				iff, isIf := p.Instrs[len(p.Instrs)-1].(*ssa.If)
				if !isIf {
					continue
				}
				onTrue := p.Succs[0] == r.Block() && p.Succs[1] != r.Block()
				if call, isCall := iff.Cond.(*ssa.Call); isCall && eng.CalleeIs(call, "strings.HasPrefix") {
					prefixGrants = append(prefixGrants, iff)
					if !onTrue {
						grantOnMismatch = true
					}
					continue
				}
				b, isB := iff.Cond.(*ssa.BinOp)
				if !isB || (b.Op != token.EQL && b.Op != token.NEQ) {
					grantOther = true // access granted on some other test
					continue
				}
				if (b.Op == token.EQL) != onTrue {
					grantOnMismatch = true // granted on the edge where the strings differ
				}
				if bt, isBasic := b.X.Type().Underlying().(*types.Basic); isBasic && bt.Kind() == types.String && eng.Mentions(b.Y, 4, func(v ssa.Value) bool { return eng.IsParamLike(v, "bucket") }) {
					exactGrants = append(exactGrants, iff)
				} else if eng.IsParamLike(b.Y, "action") || eng.IsParamLike(b.X, "action") {
					globalGrants++
				} else if call, isCall := b.X.(*ssa.Call); isCall && eng.CalleeIs(call, "s3api.Identity).isAdmin") {
					// if identity.isAdmin() compiles to a call condition, not a comparison
				}
			}
		}
		if len(prefixGrants) == 0 {
			c.Undecided("GUARD-auth", eng.FuncName(cd)+" wildcard", cd.Pos(), "prefix grants not found")
		} else {
			c.Guard("GUARD-auth", "prefix-match-only-for-wildcard-grants", cd, eng.Entry(cd), prefixGrants, wildcard, "a grant is matched by prefix only when it ends in '*'")
		}
		okExact := len(exactGrants) >= 2
		for _, g := range exactGrants {
			// exact comparisons are what a non-wildcard grant goes through
			if hit, _ := eng.Search(eng.Entry(cd), eng.Is(g), eng.SearchOpt{Cut: wildcard}); hit == nil {
				okExact = false
			}
		}
		c.Ob("GUARD-auth", eng.FuncName(cd)+" plain-grant-is-exact", okExact, cd.Pos(), "a grant without '*' authorises by string equality with <action>:<bucket> (and Admin:<bucket>)")
		c.Ob("GUARD-auth", eng.FuncName(cd)+" grants-only-on-matching-edges", !grantOnMismatch && globalGrants == 1, cd.Pos(), fmt.Sprintf("access is granted only on the edge where the compared strings are equal / the prefix matches (a global grant equals the requested action: %d site)", globalGrants))
		_ = grantOther
	}
	c.Expect("GUARD-auth", 16)

	// ---------------------------------------------------------------- (5) GUARD-iam
	if ga := c.NeedFunc("weed/iamapi", "GetActions"); ga != nil {
		apps := eng.Find(ga, func(in ssa.Instruction) bool {
			call, ok := in.(*ssa.Call)
			return ok && eng.CalleeIs(call, "builtin.append") && call.Type().String() == "[]string"
		})
		if len(apps) != 2 {
			c.Undecided("GUARD-iam", eng.FuncName(ga), ga.Pos(), fmt.Sprintf("expected the global and the bucket-scoped append, found %d", len(apps)))
		} else {
			allow := eng.PassEdges(ga, func(cond ssa.Value) (bool, bool) {
				b, ok := cond.(*ssa.BinOp)
				if !ok || (b.Op != token.EQL && b.Op != token.NEQ) || !eng.IsField(b.X, "Statement.Effect") {
					return false, false
				}
				s, isS := eng.ConstString(b.Y)
				return isS && s == "Allow", b.Op == token.EQL
			})
			c.Guard("GUARD-iam", "only-allow-statements", ga, eng.Entry(ga), apps, allow, "actions are granted only by statements whose Effect is Allow")
			// which append is bucket scoped: its value mentions fmt.Sprintf
			for i, a := range apps {
				scoped := false
				for _, v := range eng.VarargValues(a.(*ssa.Call).Call.Args[1]) {
					if eng.MentionsCall(v, "fmt.Sprintf") {
						scoped = true
					}
				}
				isSplitElem := func(v ssa.Value, idx int64, sep string) bool {
					ok := false
					eng.Walk(v, 5, func(x ssa.Value) bool {
						ia, isIA := x.(*ssa.IndexAddr)
						if !isIA {
							return true
						}
						k, isK := eng.ConstInt(ia.Index)
						if !isK || k != idx {
							return true
						}
						if call, isCall := eng.Unwrap(ia.X).(*ssa.Call); isCall && eng.CalleeIs(call, "strings.Split") {
							if s, isS := eng.ConstString(call.Call.Args[1]); isS && s == sep {
								ok = true
							}
						}
						return true
					})
					return ok
				}
				if scoped {
					star := eng.PassEdges(ga, func(cond ssa.Value) (bool, bool) {
						b, ok := cond.(*ssa.BinOp)
						if !ok || (b.Op != token.EQL && b.Op != token.NEQ) || !isSplitElem(b.X, 1, "/") {
							return false, false
						}
						s, isS := eng.ConstString(b.Y)
						return isS && s == "*", b.Op == token.EQL
					})
					two := eng.PassEdges(ga, func(cond ssa.Value) (bool, bool) {
						b, ok := cond.(*ssa.BinOp)
						if !ok || (b.Op != token.EQL && b.Op != token.NEQ) {
							return false, false
						}
						call, isCall := b.X.(*ssa.Call)
						if !isCall || !eng.CalleeIs(call, "builtin.len") {
							return false, false
						}
						sp, isSp := eng.Unwrap(call.Call.Args[0]).(*ssa.Call)
						if !isSp || !eng.CalleeIs(sp, "strings.Split") {
							return false, false
						}
						if s, isS := eng.ConstString(sp.Call.Args[1]); !isS || s != "/" {
							return false, false
						}
						k, isK := eng.ConstInt(b.Y)
						return isK && k == 2, b.Op == token.EQL
					})
					c.Guard("GUARD-iam", fmt.Sprintf("bucket-scope#%d exactly-bucket-slash-star", i), ga, eng.Entry(ga), []ssa.Instruction{a}, star, "a bucket-wide action is granted only for a resource whose part after the bucket is exactly \"*\" (a narrower resource such as bucket/prefix/* must not widen to the whole bucket)")
					c.Guard("GUARD-iam", fmt.Sprintf("bucket-scope#%d exactly-two-segments", i), ga, eng.Entry(ga), []ssa.Instruction{a}, two, "and only when the resource has exactly two segments")
				} else {
					any := eng.PassEdges(ga, func(cond ssa.Value) (bool, bool) {
						b, ok := cond.(*ssa.BinOp)
						if !ok || (b.Op != token.EQL && b.Op != token.NEQ) || !isSplitElem(b.X, 5, ":") {
							return false, false
						}
						s, isS := eng.ConstString(b.Y)
						return isS && s == "*", b.Op == token.EQL
					})
					c.Guard("GUARD-iam", fmt.Sprintf("global-scope#%d only-for-star-resource", i), ga, eng.Entry(ga), []ssa.Instruction{a}, any, "an action on all buckets is granted only for the resource \"*\"")
				}
			}
		}
	}
	// inverse tables
	if fd1, pk := P.FuncDecl("weed/iamapi", "MapToStatementAction"); fd1 != nil {
		fd2, _ := P.FuncDecl("weed/iamapi", "MapToIdentitiesAction")
		if fd2 != nil {
			t1, _ := switchTable(pk, fd1, false)
			t2, _ := switchTable(pk, fd2, false)
			ok := len(t1) >= 5 && len(t1) == len(t2)
			for k, v := range t1 {
				if t2[v] != k {
					ok = false
				}
			}
			c.Ob("GUARD-iam", "action-name-tables-inverse", ok, fd1.Pos(), fmt.Sprintf("MapToStatementAction %v and MapToIdentitiesAction %v are inverse", t1, t2))
		}
	}
	c.Expect("GUARD-iam", 5)
}

func constInt64(c *types.Const) (int64, bool) {
	if c == nil || c.Val() == nil {
		return 0, false
	}
	s := c.Val().ExactString()
	var v int64
	_, err := fmt.Sscanf(s, "%d", &v)
	return v, err == nil
}

// codeMayBeNone: the error-code operand of the return may be ErrNone (0): a zero constant, or a
// variable that is not known to be non-zero on every path to this return.
func codeMayBeNone(fn *ssa.Function, ret *ssa.Return, v ssa.Value) bool {
	if k, isK := eng.ConstInt(v); isK {
		return k == 0
	}
	nonZero := eng.PassEdges(fn, eng.Cmp(func(x ssa.Value) bool { return x == v || eng.SameVar(x, v) || sameLoadedVar(x, v) }, func(x ssa.Value) bool { k, ok := eng.ConstInt(x); return ok && k == 0 }, token.NEQ))
	if len(nonZero) > 0 {
		if hit, _ := eng.Search(eng.Entry(fn), eng.Is(ret), eng.SearchOpt{Cut: nonZero}); hit == nil {
			return false
		}
	}
	all := true
	for _, x := range eng.Resolve(v) {
		k, isK := eng.ConstInt(x)
		if !isK || k == 0 {
			all = false
		}
	}
	return !all
}
