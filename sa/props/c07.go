package props

import (
	"fmt"
	"go/token"

	"golang.org/x/tools/go/ssa"

	"verif/sa/eng"
)

func init() {
	register(&Prop{
		ID:      "C07",
		Configs: []string{"", tag5},
		Run:     runC07,
		Explanation: "Static decision, in both offset-width builds, of the EC / sorted-index deletion structure: (1) STRIDE: in SearchNeedleFromSortedIndex the offset handed to the mutator callback is the offset of the entry that was read (same index value, same stride constant = NeedleMapEntrySize); " +
			"(2) CODEC: MarkNeedleDeleted writes SizeSize bytes holding TombstoneFileSize at entry offset + NeedleIdSize + OffsetSize; (3) the three deleters (DeleteNeedleFromEcx, RebuildEcxFile, SortedFileNeedleMap.Delete) all mark through MarkNeedleDeleted; " +
			"(4) the deletion journal is appended exactly on the found-and-marked path, at the end of the journal file, with one NeedleIdSize record; (5) the journal replay (RebuildEcxFile, WriteIdxFileFromEcIndex) consumes NeedleIdSize records and emits one tombstone index entry per key. Binary-search correctness and readability of other needles are not decided. Also decided: once the key matched and a mutator was given, every path runs it, whatever the entry size (an empty blob is live).",
		Assumptions: []string{"the .ecx file is sorted by needle id (produced by the encoder)"},
		Trusted:     baseTrusted,
	})
}

func runC07(c *eng.Ctx) {
	indexFolderPaths(c, "PATH-index-folder")
	P := c.P
	entrySize, _ := namedConst(P, "weed/storage/types", "NeedleMapEntrySize")
	idSize, _ := namedConst(P, "weed/storage/types", "NeedleIdSize")
	offSize, _ := namedConst(P, "weed/storage/types", "OffsetSize")
	sizeSize, _ := namedConst(P, "weed/storage/types", "SizeSize")

	// (1) STRIDE
	if fn := c.NeedFunc("weed/storage/erasure_coding", "SearchNeedleFromSortedIndex"); fn != nil {
		reads := eng.Find(fn, eng.PlainCallTo("os.File).ReadAt"))
		var cbs []ssa.Instruction
		for _, in := range eng.Find(fn, func(in ssa.Instruction) bool {
			cl, ok := in.(*ssa.Call)
			return ok && eng.IsParamLike(cl.Call.Value, "processNeedleFn")
		}) {
			cbs = append(cbs, in)
		}
		if len(reads) != 1 || len(cbs) != 1 {
			c.Undecided("STRIDE-ecx", eng.FuncName(fn), fn.Pos(), "expected one ReadAt and one callback call")
		} else {
			ro := eng.Arg(reads[0].(*ssa.Call), 1)
			co := cbs[0].(*ssa.Call).Call.Args[1]
			rb, ok1 := ro.(*ssa.BinOp)
			cb, ok2 := co.(*ssa.BinOp)
			same := false
			detail := "offset expressions are not index*constant"
			if ok1 && ok2 && rb.Op == token.MUL && cb.Op == token.MUL {
				rk, _ := eng.ConstInt(rb.Y)
				ck, _ := eng.ConstInt(cb.Y)
				same = rb.X == cb.X && rk == ck && rk == entrySize
				detail = fmt.Sprintf("read at index*%d, callback gets index*%d, NeedleMapEntrySize=%d", rk, ck, entrySize)
			} else if ro == co {
				same, detail = true, "same value"
			}
			c.Ob("STRIDE-ecx", eng.FuncName(fn)+" callback-offset", same, cbs[0].Pos(), "the offset handed to the mutator is the offset of the matched entry: "+detail)
			// callback only on key == needleId
			keyEq := eng.Cmp(func(v ssa.Value) bool { return eng.MentionsCall(v, "idx.IdxFileEntry") }, func(v ssa.Value) bool { return eng.IsParam(v, "needleId") }, token.EQL)
			c.Guard("STRIDE-ecx", "only-matching-key", fn, eng.Entry(fn), cbs, eng.PassEdges(fn, keyEq), "the mutator runs only for the entry whose key equals the requested needle id")
			// ... and for every such entry, whatever its size (an empty blob has size 0 and is live): once the key matched
			// and a mutator was given, no path returns without running it
			noFn := eng.PassEdges(fn, func(cond ssa.Value) (bool, bool) {
				b, ok := cond.(*ssa.BinOp)
				if !ok || (b.Op != token.EQL && b.Op != token.NEQ) || !eng.IsNilConst(b.Y) || !eng.IsParamLike(b.X, "processNeedleFn") {
					return false, false
				}
				return true, b.Op == token.EQL
			})
			okAll := len(eng.PassEdges(fn, keyEq)) > 0
			for _, st := range startsOf(eng.PassEdges(fn, keyEq)) {
				if hit, _ := eng.Search(st, eng.IsReturn, eng.SearchOpt{Cut: noFn, Barrier: eng.AnyOf(cbs)}); hit != nil {
					okAll = false
				}
			}
			c.Ob("STRIDE-ecx", eng.FuncName(fn)+" every-matching-entry", okAll, cbs[0].Pos(), "the mutator runs for every entry whose key matches, independent of the entry's size (an entry of an empty blob is live)")
		}
		// buffer is one index entry
		for i, k := range eng.ByteBufLens(fn) {
			c.Ob("STRIDE-ecx", fmt.Sprintf("%s entry-buffer#%d", eng.FuncName(fn), i), k == entrySize, fn.Pos(), fmt.Sprintf("entry buffer has NeedleMapEntrySize=%d bytes (found %d)", entrySize, k))
		}
	}

	// (2) CODEC tombstone
	if sp := P.SSAPkg("weed/storage/erasure_coding"); sp != nil {
		var mark *ssa.Function
		for _, f := range P.SrcFuncs("weed/storage/erasure_coding") {
			if f.Parent() != nil && f.Parent().Name() == "init" && len(eng.Find(f, eng.PlainCallTo("os.File).WriteAt"))) > 0 {
				mark = f
			}
		}
		if mark == nil {
			c.Undecided("CODEC-tombstone", "MarkNeedleDeleted", 0, "the MarkNeedleDeleted function literal was not found")
		} else {
			c.Touch(mark)
			w := eng.Find(mark, eng.PlainCallTo("os.File).WriteAt"))[0].(*ssa.Call)
			off := eng.Arg(w, 1)
			okOff := false
			if b, ok := off.(*ssa.BinOp); ok && b.Op == token.ADD {
				// offset + NeedleIdSize + OffsetSize (folded or chained)
				sum := int64(0)
				var walk func(v ssa.Value) bool
				walk = func(v ssa.Value) bool {
					if k, isC := eng.ConstInt(v); isC {
						sum += k
						return true
					}
					if bb, isB := v.(*ssa.BinOp); isB && bb.Op == token.ADD {
						return walk(bb.X) && walk(bb.Y)
					}
					return eng.IsParam(v, "offset")
				}
				okOff = walk(b) && sum == idSize+offSize
			}
			c.Ob("CODEC-tombstone", "MarkNeedleDeleted write-offset", okOff, w.Pos(), fmt.Sprintf("the tombstone is written at entry offset + NeedleIdSize + OffsetSize (= +%d)", idSize+offSize))
			okLen := eng.BufLenOf(eng.Arg(w, 0)) == sizeSize
			c.Ob("CODEC-tombstone", "MarkNeedleDeleted write-width", okLen, w.Pos(), "exactly SizeSize bytes are written")
			okVal := false
			for _, in := range eng.Find(mark, eng.PlainCallTo("types.SizeToBytes")) {
				if k, isC := eng.ConstInt(eng.Arg(in.(*ssa.Call), 1)); isC && k == -1 {
					okVal = true
				}
			}
			c.Ob("CODEC-tombstone", "MarkNeedleDeleted write-value", okVal, w.Pos(), "the value written is TombstoneFileSize (-1)")
			c.ErrChecked("ERR-ecx", "WriteAt", mark, []ssa.Instruction{w}, "a failed tombstone write is reported")
		}
	}

	// (3) siblings mark through MarkNeedleDeleted
	isMarkGlobal := func(v ssa.Value) bool {
		u, ok := v.(*ssa.UnOp)
		if !ok || u.Op != token.MUL {
			return false
		}
		g, ok := u.X.(*ssa.Global)
		return ok && g.Name() == "MarkNeedleDeleted"
	}
	for _, s := range []struct{ pkg, name string }{
		{"weed/storage/erasure_coding", "(*EcVolume).DeleteNeedleFromEcx"},
		{"weed/storage/erasure_coding", "RebuildEcxFile"},
		{"weed/storage", "(*SortedFileNeedleMap).Delete"},
	} {
		fn := c.NeedFunc(s.pkg, s.name)
		if fn == nil {
			continue
		}
		ok := false
		for _, call := range eng.Find(fn, eng.PlainCallTo("erasure_coding.SearchNeedleFromSortedIndex")) {
			if isMarkGlobal(eng.Arg(call.(*ssa.Call), 3)) {
				ok = true
				c.ErrChecked("ERR-ecx", "mark", fn, []ssa.Instruction{call}, "a failed mark is reported")
			}
		}
		c.Ob("SIB-mark", eng.FuncName(fn)+" marks-via-MarkNeedleDeleted", ok, fn.Pos(), "the deleter marks the sorted index entry through the shared MarkNeedleDeleted")
	}

	// (3b) a delete on a sorted-index volume is recorded in the .idx first and marked in the sorted index only when that
	// succeeded: a delete that reports an error leaves both files saying "live", and the index rebuilt from the .idx
	// agrees with the sorted index
	if fn := c.NeedFunc("weed/storage", "(*SortedFileNeedleMap).Delete"); fn != nil {
		app := eng.Find(fn, eng.PlainCallTo("storage.baseNeedleMapper).appendToIndexFile", "storage.SortedFileNeedleMap).appendToIndexFile"))
		var marks []ssa.Instruction
		for _, call := range eng.Find(fn, eng.PlainCallTo("erasure_coding.SearchNeedleFromSortedIndex")) {
			if isMarkGlobal(eng.Arg(call.(*ssa.Call), 3)) {
				marks = append(marks, call)
			}
		}
		if len(app) != 1 || len(marks) == 0 {
			c.Undecided("ORDER-journal", eng.FuncName(fn), fn.Pos(), "index append / mark not found")
		} else {
			c.Guard("ORDER-journal", "mark-only-after-idx-append", fn, eng.Entry(fn), marks, eng.PassEdges(fn, eng.ErrNil(eng.ErrOf(app[0]))),
				"the sorted index entry is marked deleted only after the tombstone was appended to the .idx successfully")
		}
	}

	// (4) journal append
	if fn := c.NeedFunc("weed/storage/erasure_coding", "(*EcVolume).DeleteNeedleFromEcx"); fn != nil {
		search := eng.Find(fn, eng.PlainCallTo("erasure_coding.SearchNeedleFromSortedIndex"))
		writes := eng.Find(fn, eng.PlainCallTo("os.File).Write"))
		if len(search) != 1 || len(writes) != 1 {
			c.Undecided("ORDER-journal", eng.FuncName(fn), fn.Pos(), "search / journal write not found")
		} else {
			e := eng.ErrOf(search[0])
			c.Guard("ORDER-journal", "append-only-when-marked", fn, eng.Entry(fn), writes, eng.PassEdges(fn, eng.ErrNil(e)), "the journal is appended only when the needle was found and marked")
			for i, st := range startsOf(eng.PassEdges(fn, eng.ErrNil(e))) {
				if ahead, _ := eng.Search(st, eng.AnyOf(writes), eng.SearchOpt{}); ahead == nil {
					continue // a test of the (reused) error variable behind the journal write
				}
				hit, path := eng.Search(st, func(in ssa.Instruction) bool {
					r, ok := in.(*ssa.Return)
					return ok && eng.ReturnMaySucceed(fn, r)
				}, eng.SearchOpt{Barrier: eng.AnyOf(writes)})
				c.Ob("ORDER-journal", fmt.Sprintf("%s every-marked-delete-is-journaled#%d", eng.FuncName(fn), i), hit == nil, fn.Pos(), "every found-and-marked deletion that is acknowledged is recorded in the journal"+pathNote(P, fn, hit, path))
			}
			seekEnd := func(in ssa.Instruction) bool {
				cl, ok := in.(*ssa.Call)
				if !ok || !eng.CalleeIs(cl, "os.File).Seek") {
					return false
				}
				off, ok1 := eng.ConstInt(eng.Arg(cl, 0))
				wh, ok2 := eng.ConstInt(eng.Arg(cl, 1))
				return ok1 && ok2 && off == 0 && wh == 2
			}
			c.Before("ORDER-journal", "seek-end-before-append", fn, seekEnd, writes, "the journal record is appended at the end of the journal file (Seek(0, SeekEnd) precedes the write)")
			wb := eng.Arg(writes[0].(*ssa.Call), 0)
			okLen := eng.BufLenOf(wb) == idSize
			c.Ob("ORDER-journal", eng.FuncName(fn)+" record-width", okLen, writes[0].Pos(), "a journal record is NeedleIdSize bytes")
			// the write happens under the journal lock
			c.Before("ORDER-journal", "append-under-lock", fn, eng.CallTo("sync.Mutex).Lock", "sync.RWMutex).Lock"), writes, "the journal append happens under ecjFileAccessLock")
		}
	}
	// the journal append and the rebuilt index of a decoded volume report their write errors
	errAll(c, "ERR-journal", "weed/storage/erasure_coding", "a failed journal / index write fails the operation", "(*EcVolume).DeleteNeedleFromEcx", "WriteIdxFileFromEcIndex")
	c.Expect("ERR-journal", 6)
	c.Expect("ORDER-journal", 5)

	// (5) replay
	if fn := c.NeedFunc("weed/storage/erasure_coding", "RebuildEcxFile"); fn != nil {
		okBuf := false
		for _, rd := range eng.Find(fn, eng.PlainCallTo("os.File).Read")) {
			if eng.BufLenOf(eng.Arg(rd.(*ssa.Call), 0)) == idSize {
				okBuf = true
			}
		}
		c.Ob("CODEC-journal-replay", eng.FuncName(fn)+" record-width", okBuf, fn.Pos(), "the replay reads NeedleIdSize-byte records")
		inLoop := false
		for _, call := range eng.Find(fn, eng.PlainCallTo("erasure_coding.SearchNeedleFromSortedIndex")) {
			if eng.InCycle(call.Block()) && eng.MentionsCall(eng.Arg(call.(*ssa.Call), 2), "types.BytesToNeedleId") {
				inLoop = true
			}
		}
		c.Ob("CODEC-journal-replay", eng.FuncName(fn)+" marks-each-key", inLoop, fn.Pos(), "every journal key is looked up and marked")
	}
	if fn := c.NeedFunc("weed/storage/erasure_coding", "WriteIdxFileFromEcIndex"); fn != nil {
		ok := false
		for _, cl := range fn.AnonFuncs {
			for _, call := range eng.Find(cl, eng.PlainCallTo("needle_map.ToBytes")) {
				cc := call.(*ssa.Call)
				k, isC := eng.ConstInt(eng.Arg(cc, 2))
				if eng.IsParam(eng.Arg(cc, 0), "key") && isC && k == -1 {
					// and it is written to the idx file
					for _, w := range eng.Find(cl, eng.PlainCallTo("os.File).Write")) {
						if eng.MentionsValue(eng.Arg(w.(*ssa.Call), 0), cc) {
							ok = true
						}
					}
				}
			}
		}
		c.Ob("CODEC-journal-replay", eng.FuncName(fn)+" tombstone-per-journal-key", ok, fn.Pos(), "one tombstone index entry (size -1) is appended per journal key")
		c.ErrChecked("ERR-ecx", "iterate", fn, eng.Find(fn, eng.PlainCallTo("erasure_coding.iterateEcjFile")), "a failed journal iteration is reported")
	}
	c.Expect("CODEC-journal-replay", 3)
}
