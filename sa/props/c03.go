package props

import (
	"fmt"
	"go/constant"
	"go/token"

	"golang.org/x/tools/go/ssa"

	"verif/sa/eng"
)

func init() {
	register(&Prop{
		ID:      "C03",
		Configs: []string{"", tag5},
		Run:     runC03,
		Explanation: "Static decision of the recovery structure: (1) Volume.load runs the data/index integrity check before any needle-map constructor and, on its error edge, marks the volume noWriteOrDelete before loading a map; " +
			"(2) Append and WriteNeedleBlob register, before WriteAt, a deferred roll-back that truncates the data file when the returned error is non-nil; (3) needle map Put/Delete happen only on the nil-error edge of the append (shared with C01); " +
			"(4) verifyNeedleIntegrity / verifyDeletedNeedleIntegrity return success only past size and id comparisons; their errors are not swallowed by doCheckAndFixVolumeData; " +
			"(5) CheckAndFixVolumeDataIntegrity shrinks the index only on the io.EOF classification, guards the truncation by healthy < size and strides by NeedleMapEntrySize in both offset-width builds. " +
			"Does NOT decide that every truncation point is survivable (record arithmetic and file contents). Also decided: only an index entry with a negative size is verified as the end-of-file tombstone; entries with size >= 0 (empty blobs included) are verified at their offset.",
		Assumptions: []string{"crash = the data and index files keep a prefix; the static rules only decide the shape of the recovery code"},
		Trusted:     baseTrusted,
	})
}

// namedConst returns the integer value of a package-level constant.
func namedConst(P *eng.Prog, rel, name string) (int64, bool) {
	pk := P.Pkg(rel)
	if pk == nil {
		return 0, false
	}
	o := pk.Types.Scope().Lookup(name)
	if o == nil {
		return 0, false
	}
	k, ok := o.(interface{ Val() constant.Value })
	if !ok {
		return 0, false
	}
	return constant.Int64Val(constant.ToInt(k.Val()))
}

func startsOf(edges map[eng.Edge]bool) []eng.Loc {
	var out []eng.Loc
	for e := range edges {
		out = append(out, eng.Loc{B: e.B.Succs[e.I], Idx: 0})
	}
	// deterministic order
	for i := 0; i < len(out); i++ {
		for j := i + 1; j < len(out); j++ {
			if out[j].B.Index < out[i].B.Index {
				out[i], out[j] = out[j], out[i]
			}
		}
	}
	return out
}

func runC03(c *eng.Ctx) {
	P := c.P
	ctor := eng.PlainCallTo("weed/storage.LoadCompactNeedleMap", "weed/storage.NewLevelDbNeedleMap", "weed/storage.NewSortedFileNeedleMap")
	check := eng.PlainCallTo("weed/storage.CheckAndFixVolumeDataIntegrity")

	// (1) load
	if fn := c.NeedFunc("weed/storage", "(*Volume).load"); fn != nil {
		ctors := eng.Find(fn, ctor)
		c.Before("ORDER-load", "check-before-map", fn, check, ctors, "the integrity check runs before every needle map constructor")
		c.Expect("ORDER-load", 5)
		for _, ck := range eng.Find(fn, check) {
			e := eng.ErrOf(ck)
			if e == nil {
				c.Undecided("ORDER-load-readonly", eng.FuncName(fn), eng.InstrPos(ck), "integrity check error result not found")
				continue
			}
			setRO := func(in ssa.Instruction) bool {
				s, ok := in.(*ssa.Store)
				if !ok || !eng.IsField(s.Addr, "Volume.noWriteOrDelete") {
					return false
				}
				b, isC := eng.ConstBool(s.Val)
				return isC && b
			}
			fails := startsOf(eng.FailEdges(fn, eng.ErrNil(e)))
			if len(fails) == 0 {
				c.Ob("ORDER-load-readonly", eng.FuncName(fn)+" check-error-edge", false, eng.InstrPos(ck), "the error of the integrity check is never tested")
			}
			for i, st := range fails {
				hit, path := eng.Search(st, ctor, eng.SearchOpt{Barrier: setRO})
				k := fmt.Sprintf("%s check-failed edge#%d", eng.FuncName(fn), i)
				if hit != nil {
					c.Ob("ORDER-load-readonly", k, false, eng.InstrPos(hit), "a needle map is loaded after a failed integrity check without marking the volume noWriteOrDelete; path "+eng.DescribePath(P, fn, path))
				} else {
					c.Ob("ORDER-load-readonly", k, true, eng.InstrPos(ck), "failed integrity check => noWriteOrDelete=true before any map is loaded")
				}
			}
		}
	}

	// (2) truncate on error
	for _, name := range []string{"(*Needle).Append", "WriteNeedleBlob"} {
		fn := c.NeedFunc("weed/storage/needle", name)
		if fn == nil {
			continue
		}
		writes := eng.Find(fn, eng.PlainCallTo("io.WriterAt).WriteAt"))
		if len(writes) == 0 {
			c.Undecided("ORDER-truncate-on-error", eng.FuncName(fn), fn.Pos(), "no WriteAt found")
			continue
		}
		// the deferred rollback closure
		var rollback []ssa.Instruction
		for _, d := range eng.Find(fn, func(in ssa.Instruction) bool { _, ok := in.(*ssa.Defer); return ok }) {
			cl := eng.StaticFn(d.(*ssa.Defer))
			if cl == nil || cl.Parent() != fn {
				continue
			}
			tr := eng.Find(cl, eng.PlainCallTo("backend.BackendStorageFile).Truncate"))
			if len(tr) == 0 {
				continue
			}
			c.Touch(cl)
			// inside the closure: Truncate only when the captured named error is non-nil
			errNotNil := eng.Cmp(func(v ssa.Value) bool {
				u, ok := v.(*ssa.UnOp)
				if !ok || u.Op != token.MUL {
					return false
				}
				fv, ok := u.X.(*ssa.FreeVar)
				return ok && eng.IsErrorType(eng.Deref(fv.Type()))
			}, eng.IsNilConst, token.NEQ)
			pe := eng.PassEdges(cl, errNotNil)
			// rollback must happen on *every* path where err != nil: the fail edge is the only way to skip it
			okAll := len(pe) > 0
			if okAll {
				hit, _ := eng.Search(eng.Entry(cl), eng.IsReturn, eng.SearchOpt{Barrier: eng.AnyOf(tr), Cut: eng.FailEdges(cl, errNotNil)})
				okAll = hit == nil
			}
			c.Ob("ORDER-truncate-on-error", eng.FuncName(fn)+" rollback-closure", okAll, eng.InstrPos(d),
				"the deferred closure truncates the file back whenever the named error result is non-nil")
			// truncation target is the pre-append size (a value captured before the write: GetStat result)
			tgtOK := true
			for _, t := range tr {
				a := eng.Arg(t.(*ssa.Call), 0)
				if !(eng.Mentions(a, 6, func(v ssa.Value) bool { _, isFV := v.(*ssa.FreeVar); _, isP := v.(*ssa.Parameter); return isFV || isP })) {
					tgtOK = false
				}
			}
			c.Ob("ORDER-truncate-on-error", eng.FuncName(fn)+" rollback-target", tgtOK, eng.InstrPos(d), "rollback truncates to the size captured before the write")
			rollback = append(rollback, d)
		}
		if len(rollback) == 0 {
			c.Ob("ORDER-truncate-on-error", eng.FuncName(fn)+" rollback-defer", false, fn.Pos(), "no deferred Truncate-on-error found")
			continue
		}
		c.Before("ORDER-truncate-on-error", "defer-before-write", fn, eng.AnyOf(rollback), writes, "the roll-back is registered before the data is written")
		// the WriteAt error must reach the named result (so that the deferred closure sees it)
		c.ErrChecked("ERR-write", "WriteAt", fn, writes, "the WriteAt error is returned (and seen by the deferred roll-back)")
	}

	// (3) shared with C01: index update after successful append only
	appendCall := eng.PlainCallTo("needle.Needle).Append", "needle.WriteNeedleBlob")
	idxCall := eng.PlainCallTo("storage.NeedleMapper).Put", "storage.NeedleMapper).Delete")
	for _, fn := range P.SrcFuncs("weed/storage") {
		apps := eng.Find(fn, appendCall)
		idx := eng.Find(fn, idxCall)
		if len(apps) == 0 || len(idx) == 0 {
			continue
		}
		for i, a := range apps {
			e := eng.ErrOf(a)
			if e == nil {
				c.Undecided("ORDER-append-then-index", fmt.Sprintf("%s append#%d", eng.FuncName(fn), i), eng.InstrPos(a), "append error result not found")
				continue
			}
			var after []ssa.Instruction
			for _, x := range idx {
				if h, _ := eng.Search(eng.After(a), eng.Is(x), eng.SearchOpt{}); h != nil {
					after = append(after, x)
				}
			}
			c.Guard("ORDER-append-then-index", fmt.Sprintf("append#%d->index", i), fn, eng.After(a), after, eng.PassEdges(fn, eng.ErrNil(e)),
				"needle map Put/Delete only on the err==nil edge of the preceding append")
		}
	}
	c.Expect("ORDER-append-then-index", 3)

	// (4) verify functions
	sizeEq := eng.Cmp(func(v ssa.Value) bool { return eng.IsField(v, "Needle.Size") }, func(v ssa.Value) bool { return eng.IsParam(v, "size") }, token.EQL)
	idEq := eng.Cmp(func(v ssa.Value) bool { return eng.IsField(v, "Needle.Id") }, func(v ssa.Value) bool { return eng.IsParam(v, "key") }, token.EQL)
	okReturns := func(fn *ssa.Function) []ssa.Instruction {
		var out []ssa.Instruction
		for _, r := range eng.Find(fn, eng.IsReturn) {
			if eng.ReturnMaySucceed(fn, r.(*ssa.Return)) {
				if h, _ := eng.Search(eng.Entry(fn), eng.Is(r), eng.SearchOpt{}); h != nil {
					out = append(out, r)
				}
			}
		}
		return out
	}
	if fn := c.NeedFunc("weed/storage", "verifyNeedleIntegrity"); fn != nil {
		rets := okReturns(fn)
		c.Guard("GUARD-verify", "size-match", fn, eng.Entry(fn), rets, eng.PassEdges(fn, sizeEq), "success only when the header size equals the index size")
		// returns after ReadData also need id == key
		var afterRead []ssa.Instruction
		for _, rd := range eng.Find(fn, eng.PlainCallTo("needle.Needle).ReadData")) {
			for _, r := range rets {
				if h, _ := eng.Search(eng.After(rd), eng.Is(r), eng.SearchOpt{}); h != nil {
					afterRead = append(afterRead, r)
				}
			}
			c.ErrChecked("ERR-verify", "ReadData", fn, []ssa.Instruction{rd}, "a failed record read (CRC, short file) fails the verification")
		}
		c.Guard("GUARD-verify", "id-match", fn, eng.Entry(fn), afterRead, eng.PassEdges(fn, idEq), "success after reading the record only when its id equals the index key")
		c.ErrChecked("ERR-verify", "ReadNeedleHeader", fn, eng.Find(fn, eng.PlainCallTo("needle.ReadNeedleHeader")), "a failed header read fails the verification")
	}
	if fn := c.NeedFunc("weed/storage", "verifyDeletedNeedleIntegrity"); fn != nil {
		rets := okReturns(fn)
		c.Guard("GUARD-verify", "id-match", fn, eng.Entry(fn), rets, eng.PassEdges(fn, idEq), "success only when the tombstone record's id equals the index key")
		c.ErrChecked("ERR-verify", "ReadData", fn, eng.Find(fn, eng.PlainCallTo("needle.Needle).ReadData")), "a failed tombstone read fails the verification")
	}
	c.Expect("GUARD-verify", 6)
	if fn := c.NeedFunc("weed/storage", "doCheckAndFixVolumeData"); fn != nil {
		vs := eng.Find(fn, eng.PlainCallTo("weed/storage.verifyNeedleIntegrity", "weed/storage.verifyDeletedNeedleIntegrity"))
		if len(vs) < 2 {
			c.Ob("ERR-verify", eng.FuncName(fn)+" verify-calls", false, fn.Pos(), "live and deleted index entries are not both verified")
		}
		c.ErrChecked("ERR-verify", "verify", fn, vs, "verification errors are returned")
		c.ErrChecked("ERR-verify", "readIndexEntry", fn, eng.Find(fn, eng.PlainCallTo("weed/storage.readIndexEntryAtOffset")), "index read errors are returned")
		// only a tombstone entry (negative size) is verified as "the last record of the data file"; an entry of an
		// empty blob (size 0) is a live record and is located by its offset, which is what cuts a torn tail behind it
		tomb := func(cond ssa.Value) (bool, bool) {
			if b, ok := cond.(*ssa.BinOp); ok && isZero(b.Y) && eng.MentionsCall(b.X, "idx.IdxFileEntry") {
				switch b.Op {
				case token.LSS:
					return true, true
				case token.GEQ:
					return true, false
				}
			}
			if call, ok := cond.(*ssa.Call); ok && eng.CalleeIs(call, "types.Size).IsDeleted") && eng.MentionsCall(call.Call.Args[0], "idx.IdxFileEntry") {
				return true, true
			}
			return false, false
		}
		del := eng.Find(fn, eng.PlainCallTo("weed/storage.verifyDeletedNeedleIntegrity"))
		live := eng.Find(fn, eng.PlainCallTo("weed/storage.verifyNeedleIntegrity"))
		c.Guard("GUARD-verify", "tombstone-check-only-for-negative-size", fn, eng.Entry(fn), del, eng.PassEdges(fn, tomb), "the end-of-file tombstone verification is used only for entries with a negative size")
		c.Guard("GUARD-verify", "offset-check-for-other-sizes", fn, eng.Entry(fn), live, eng.FailEdges(fn, tomb), "entries with size >= 0 (empty blobs included) are verified at their offset")
	}

	entryJudgedByData(c, "ERR-verify")
	// the integrity check and the scanner recognise a data file that ends inside (or before) a record header by the
	// io.EOF of the header read: ReadNeedleHeader hands the backend's read error up as it is, never a description of it
	if fn := c.NeedFunc("weed/storage/needle", "ReadNeedleHeader"); fn != nil {
		reads := eng.Find(fn, eng.CallTo("backend.BackendStorageFile).ReadAt", "io.ReaderAt).ReadAt"))
		if len(reads) != 1 {
			c.Undecided("ERR-verify", eng.FuncName(fn)+" header-read", fn.Pos(), "header read not found")
		} else {
			e := eng.ErrOf(reads[0])
			for i, r := range eng.Find(fn, eng.IsReturn) {
				ret := r.(*ssa.Return)
				op := eng.ReturnErrOperand(ret)
				ok := op != nil
				if ok {
					for _, v := range eng.ResolveFrom(op, ret) {
						if v == eng.Zero || eng.IsNilConst(v) || v == e || eng.SameVar(v, e) {
							continue
						}
						ok = false
					}
				}
				c.Ob("ERR-verify", fmt.Sprintf("%s read-error-unchanged#%d", eng.FuncName(fn), i), ok, r.Pos(),
					"the error of the header read reaches the callers unchanged (they compare it with io.EOF to tell a torn tail from a failure)")
			}
		}
	}

	// (4b) the torn tail is cut at the END of the last indexed record
	if fn := c.NeedFunc("weed/storage", "verifyNeedleIntegrity"); fn != nil {
		for i, tr := range eng.Find(fn, eng.PlainCallTo("backend.BackendStorageFile).Truncate")) {
			arg := eng.Arg(tr.(*ssa.Call), 0)
			okEnd := eng.MentionsCall(arg, "needle.GetActualSize") && eng.MentionsParam(arg, "offset")
			c.Ob("PROV-truncate", fmt.Sprintf("%s truncate-target#%d", eng.FuncName(fn), i), okEnd, tr.Pos(), "the data file is truncated to offset + GetActualSize(size) (the end of the last indexed record), never into the record")
			bigger := eng.Cmp(func(v ssa.Value) bool { return eng.MentionsCall(v, "backend.BackendStorageFile).GetStat") }, func(v ssa.Value) bool { return v == arg }, token.GTR)
			c.Guard("PROV-truncate", fmt.Sprintf("only-when-longer#%d", i), fn, eng.Entry(fn), []ssa.Instruction{tr}, eng.PassEdges(fn, bigger), "the truncation happens only when the file is longer than the end of the last indexed record")
		}
	}
	// (4c) a data file opened after a crash starts appending at an 8-byte aligned position
	if fn := c.NeedFunc("weed/storage/backend", "NewDiskFile"); fn != nil {
		pad, _ := namedConst(P, "weed/storage/types", "NeedlePaddingSize")
		stores := eng.Find(fn, eng.StoreToField("DiskFile.fileSize"))
		if len(stores) == 0 {
			c.Undecided("ALIGN-open", eng.FuncName(fn), fn.Pos(), "initialisation of DiskFile.fileSize not found")
		}
		for i, st := range stores {
			val := st.(*ssa.Store).Val
			aligned := false
			for _, v := range eng.Resolve(val) {
				if eng.Mentions(v, 6, func(x ssa.Value) bool {
					b, ok := x.(*ssa.BinOp)
					if !ok || b.Op != token.REM {
						return false
					}
					k, isC := eng.ConstInt(b.Y)
					return isC && k == pad
				}) {
					aligned = true
				}
			}
			remZero := eng.Cmp(func(v ssa.Value) bool { b, ok := v.(*ssa.BinOp); return ok && b.Op == token.REM }, func(v ssa.Value) bool { k, ok := eng.ConstInt(v); return ok && k == 0 }, token.EQL)
			c.Ob("ALIGN-open", fmt.Sprintf("%s fileSize-init#%d", eng.FuncName(fn), i), aligned && len(eng.PassEdges(fn, remZero)) > 0, st.Pos(),
				"the append position of a freshly opened data file is rounded up to NeedlePaddingSize (a torn, unaligned tail must not shift later records off the 8-byte grid that index offsets assume)")
		}
	}

	// (4d) the position appends are computed from (GetStat) and the position Write writes at are both that rounded value
	if fn := c.NeedFunc("weed/storage/backend", "(*DiskFile).GetStat"); fn != nil {
		rets := eng.Find(fn, eng.IsReturn)
		for i, r := range rets {
			ret := r.(*ssa.Return)
			ok := len(ret.Results) == 3
			if ok {
				vals := eng.ResolveFrom(ret.Results[0], ret)
				for _, v := range vals {
					if !eng.IsField(eng.Unwrap(v), "DiskFile.fileSize") {
						ok = false
					}
				}
				ok = ok && len(vals) > 0
			}
			c.Ob("ALIGN-open", fmt.Sprintf("%s reports-append-position#%d", eng.FuncName(fn), i), ok, r.Pos(),
				"the size a disk-backed data file reports (the offset the next record is indexed at) is the aligned append position DiskFile maintains, not the raw file length")
		}
	}
	if fn := c.NeedFunc("weed/storage/backend", "(*DiskFile).Write"); fn != nil {
		for i, in := range eng.Find(fn, eng.PlainCallTo("backend.DiskFile).WriteAt")) {
			c.Ob("ALIGN-open", fmt.Sprintf("%s appends-at-position#%d", eng.FuncName(fn), i), eng.IsField(eng.Unwrap(eng.Arg(in.(*ssa.Call), 1)), "DiskFile.fileSize"), in.Pos(),
				"an append writes at the aligned append position DiskFile maintains")
		}
	}
	c.Expect("ALIGN-open", 3)

	// (5) CheckAndFixVolumeDataIntegrity
	if fn := c.NeedFunc("weed/storage", "CheckAndFixVolumeDataIntegrity"); fn != nil {
		entry, ok := namedConst(P, "weed/storage/types", "NeedleMapEntrySize")
		if !ok {
			c.Undecided("STRIDE-idx", "NeedleMapEntrySize", fn.Pos(), "constant not found")
		}
		// every multiplication by a constant strides by NeedleMapEntrySize
		n := 0
		for _, in := range eng.Find(fn, func(in ssa.Instruction) bool { b, ok := in.(*ssa.BinOp); return ok && b.Op == token.MUL }) {
			b := in.(*ssa.BinOp)
			k, isC := eng.ConstInt(b.Y)
			if !isC {
				k, isC = eng.ConstInt(b.X)
			}
			if !isC {
				continue
			}
			n++
			c.Ob("STRIDE-idx", fmt.Sprintf("%s mul#%d", eng.FuncName(fn), n), k == entry, b.Pos(), fmt.Sprintf("index offsets stride by NeedleMapEntrySize (%d), found %d", entry, k))
		}
		c.Expect("STRIDE-idx", 2)
		isEOF := func(v ssa.Value) bool {
			u, ok := v.(*ssa.UnOp)
			if !ok || u.Op != token.MUL {
				return false
			}
			g, ok := u.X.(*ssa.Global)
			return ok && g.Name() == "EOF" && g.Pkg.Pkg.Path() == "io"
		}
		var checkErr ssa.Value
		for _, d := range eng.Find(fn, eng.PlainCallTo("weed/storage.doCheckAndFixVolumeData")) {
			checkErr = eng.ErrOf(d)
		}
		trunc := eng.Find(fn, eng.PlainCallTo("os.File).Truncate"))
		if checkErr == nil || len(trunc) != 1 {
			c.Undecided("GUARD-idx-truncate", eng.FuncName(fn), fn.Pos(), "per-entry check call or index truncation not found")
		} else {
			eofEdge := eng.PassEdges(fn, eng.Cmp(func(v ssa.Value) bool { return eng.SameVar(v, checkErr) }, isEOF, token.EQL))
			arg := eng.Arg(trunc[0].(*ssa.Call), 0)
			nShr := 0
			for _, v := range eng.Resolve(arg) {
				b, ok := v.(*ssa.BinOp)
				if !ok {
					continue // the initial value (index size itself)
				}
				nShr++
				c.Guard("GUARD-idx-truncate", fmt.Sprintf("shrink#%d", nShr), fn, eng.Entry(fn), []ssa.Instruction{b}, eofEdge,
					"the healthy index size shrinks only when the entry's record lies beyond the end of the data file (io.EOF)")
			}
			if nShr == 0 {
				c.Ob("GUARD-idx-truncate", eng.FuncName(fn)+" shrink", false, trunc[0].Pos(), "the truncation size is never reduced from the index size")
			}
			lt := eng.Cmp(func(v ssa.Value) bool { return eng.SameVar(v, arg) || v == arg }, func(v ssa.Value) bool { return eng.MentionsCall(v, "weed/storage.verifyIndexFileIntegrity") }, token.LSS)
			c.Guard("GUARD-idx-truncate", "only-when-smaller", fn, eng.Entry(fn), trunc, eng.PassEdges(fn, lt), "the index is truncated only when healthy size < index size")
		}
		c.ErrChecked("ERR-verify", "verifyIndexFileIntegrity", fn, eng.Find(fn, eng.PlainCallTo("weed/storage.verifyIndexFileIntegrity")), "a corrupt index size fails the check")
	}
}

// entryJudgedByData: the per-entry check of the index tail calls an entry "not backed by data" (any error, io.EOF in
// particular, which makes the caller cut the index) only on the word of a read of the index or of the data file: every
// error it returns is nil, wraps such a read's error, or is that error. An entry without a data position (offset 0:
// the tombstones replayed at a compaction commit) is never judged.
func entryJudgedByData(c *eng.Ctx, rule string) {
	fn := c.NeedFunc("weed/storage", "doCheckAndFixVolumeData")
	if fn == nil {
		return
	}
	for i, r := range eng.Find(fn, eng.IsReturn) {
		ret := r.(*ssa.Return)
		op := eng.ReturnErrOperand(ret)
		ok := op != nil
		bad := ""
		if ok {
			for _, v := range eng.ResolveFrom(op, ret) {
				// the caller acts on the sentinels io.EOF (cut the index here) and ErrorSizeMismatch (look further back):
				// a sentinel returned directly, not handed up from a read or a verification, is a judgement without data
				if u, isLoad := eng.Unwrap(v).(*ssa.UnOp); isLoad && u.Op == token.MUL {
					if g, isG := u.X.(*ssa.Global); isG {
						ok, bad = false, "(returns "+g.Name()+" itself)"
					}
				}
			}
		}
		c.Ob(rule, fmt.Sprintf("%s judged-by-data return#%d", eng.FuncName(fn), i), ok, r.Pos(),
			"an index entry is reported as bad only with an error that comes from reading the index or verifying the data file (an entry with no data position is never judged) "+bad)
	}
}
