package props

import (
	"fmt"
	"go/token"

	"golang.org/x/tools/go/ssa"

	"verif/sa/eng"
)

func init() {
	register(&Prop{
		ID:  "C39",
		Run: runC39,
		Explanation: "Static decision of the structure of the mount's path-to-node cache: (1) LOCK: the tree root is reached only with the cache lock held (exported methods take it, helpers are checked at every caller), mutating methods hold it exclusively; (2) ORDER-move: a move first finds the source (and changes nothing when it does not exist), detaches it from its old parent, then detaches and clears whatever occupied the destination, renames the source to the destination's name and attaches it under the destination's parent — in that order on every path; " +
			"(3) ORDER-delete: a delete detaches the found node from its parent and clears its whole subtree; clearing recurses into every child; detaching removes the parent's entry under the child's name and forgets the parent; attaching records the node under its own name in the new parent and sets its parent. Equality with a reference tree over operation histories is not decided. Also decided: the source is unlinked from its old parent before the destination subtree is cleared.",
		Assumptions: []string{"the per-node children locks are subordinate to the cache lock"},
		Trusted:     baseTrusted,
	})
}

func runC39(c *eng.Ctx) {
	// ---------------------------------------------------------------- (1) LOCK
	c.CheckLocks("LOCK-fscache", &eng.LockSpec{
		Mutex:  "FsCache.RWMutex",
		Fields: []string{"FsCache.root"},
		Pkg:    "weed/filesys",
		Exempt: map[string]string{"weed/filesys.newFsCache": "constructor: the value is not shared yet"},
	})
	c.CheckLockPairs("PAIR-fscache", "weed/filesys", "FsCache.RWMutex", nil)
	c.Expect("PAIR-fscache", 5)
	c.Expect("LOCK-fscache", 6)
	// mutators take the write side
	for _, m := range []string{"SetFsNode", "EnsureFsNode", "DeleteFsNode", "Move"} {
		fn := c.NeedFunc("weed/filesys", "(*FsCache)."+m)
		if fn == nil {
			continue
		}
		l := eng.Find(fn, eng.PlainCallTo("sync.RWMutex).Lock"))
		first := len(l) == 1 && l[0].Block() == fn.Blocks[0]
		c.Ob("LOCK-fscache", eng.FuncName(fn)+" exclusive", first, fn.Pos(), "a mutating cache operation holds the cache lock exclusively from its start")
	}

	// ---------------------------------------------------------------- (2) ORDER-move
	if fn := c.NeedFunc("weed/filesys", "(*FsCache).Move"); fn != nil {
		find := eng.Find(fn, eng.PlainCallTo("filesys.FsNode).findChild"))
		ensure := eng.Find(fn, eng.PlainCallTo("filesys.FsNode).ensureChild"))
		disc := eng.Find(fn, eng.PlainCallTo("filesys.FsNode).disconnectChild"))
		del := eng.Find(fn, eng.PlainCallTo("filesys.FsNode).deleteSelf"))
		conn := eng.Find(fn, eng.PlainCallTo("filesys.FsNode).connectToParent"))
		if len(find) != 1 || len(ensure) != 1 || len(disc) != 2 || len(del) != 1 || len(conn) != 1 {
			c.Undecided("ORDER-move", eng.FuncName(fn), fn.Pos(), fmt.Sprintf("steps not recognised: find %d ensure %d disconnect %d delete %d connect %d", len(find), len(ensure), len(disc), len(del), len(conn)))
		} else {
			// which disconnect detaches the source (argument is the found source), which the displaced target
			var discSrc, discDst ssa.Instruction
			for _, d := range disc {
				arg := eng.Arg(d.(*ssa.Call), 0)
				if eng.Mentions(arg, 6, func(x ssa.Value) bool { return x == ssa.Value(find[0].(*ssa.Call)) }) {
					discSrc = d
				} else if eng.Mentions(arg, 6, func(x ssa.Value) bool { return x == ssa.Value(ensure[0].(*ssa.Call)) }) {
					discDst = d
				}
			}
			ok := discSrc != nil && discDst != nil
			c.Ob("ORDER-move", eng.FuncName(fn)+" steps-identified", ok, fn.Pos(), "the move detaches the source and detaches the node occupying the destination")
			if ok {
				missing := func(cond ssa.Value) (bool, bool) {
					b, isB := cond.(*ssa.BinOp)
					if !isB || !eng.IsNilConst(b.Y) || b.X != ssa.Value(find[0].(*ssa.Call)) {
						return false, false
					}
					return true, b.Op.String() == "=="
				}
				// nothing is changed when the source does not exist
				okNoop := true
				for _, st := range startsOf(eng.PassEdges(fn, missing)) {
					if hit, _ := eng.Search(st, eng.Or(eng.AnyOf(ensure), eng.AnyOf(disc), eng.AnyOf(del), eng.AnyOf(conn)), eng.SearchOpt{Barrier: eng.Is(find[0])}); hit != nil {
						okNoop = false
					}
				}
				c.Ob("ORDER-move", eng.FuncName(fn)+" missing-source-is-noop", okNoop && len(eng.PassEdges(fn, missing)) > 0, find[0].Pos(), "moving a path that is not cached changes nothing")
				srcHasParent := eng.PassEdges(fn, func(cond ssa.Value) (bool, bool) {
					b, isB := cond.(*ssa.BinOp)
					if !isB || !eng.IsNilConst(b.Y) || !eng.IsField(b.X, "FsNode.parent") {
						return false, false
					}
					if !eng.Mentions(eng.FieldBase(b.X), 4, func(x ssa.Value) bool { return x == ssa.Value(find[0].(*ssa.Call)) }) {
						return false, false
					}
					return true, b.Op.String() == "!="
				})
				okDet := len(srcHasParent) > 0
				for _, st := range startsOf(srcHasParent) {
					if hit, _ := eng.Search(st, eng.AnyOf(conn), eng.SearchOpt{Barrier: eng.Is(discSrc)}); hit != nil {
						okDet = false
					}
				}
				c.Ob("ORDER-move", eng.FuncName(fn)+" source-detached-before-attach", okDet, discSrc.Pos(), "a source that has a parent leaves it before it is attached to the new one (otherwise it stays reachable under the old path)")
				// ... and before the destination's subtree is cleared: clearing walks everything still linked under the
				// destination, which includes the source when the destination is the source itself or one of its ancestors
				okFirst := len(srcHasParent) > 0
				noParent := map[eng.Edge]bool{}
				for e := range srcHasParent {
					noParent[eng.Edge{B: e.B, I: 1 - e.I}] = true
				}
				if hit, _ := eng.Search(eng.After(find[0]), eng.AnyOf(del), eng.SearchOpt{Barrier: eng.Is(discSrc), Cut: noParent}); hit != nil {
					okFirst = false
				}
				c.Ob("ORDER-move", eng.FuncName(fn)+" source-detached-before-destination-cleared", okFirst, discSrc.Pos(), "the source is unlinked from its old parent before the destination subtree is cleared (a destination that is an ancestor of the source, or the source itself, would otherwise clear the moved subtree)")
				c.Before("ORDER-move", "destination-detached-before-attach", fn, eng.Is(discDst), conn, "whatever occupied the destination is detached before the source takes its place")
				c.Before("ORDER-move", "destination-cleared-before-attach", fn, eng.AnyOf(del), conn, "and its subtree is cleared")
				okDel := eng.Mentions(eng.RecvOf(del[0].(*ssa.Call)), 4, func(x ssa.Value) bool { return x == ssa.Value(ensure[0].(*ssa.Call)) })
				c.Ob("ORDER-move", eng.FuncName(fn)+" clears-the-displaced-node", okDel, del[0].Pos(), "the node cleared is the one that occupied the destination, not the source")
				// rename before attach: store to src.name of target.name
				var ren []ssa.Instruction
				for _, st := range eng.Find(fn, eng.StoreToField("FsNode.name")) {
					if eng.MentionsField(st.(*ssa.Store).Val, "FsNode.name") {
						ren = append(ren, st)
					}
				}
				okRen := len(ren) == 1 && eng.Dominates(ren[0], conn[0])
				c.Ob("ORDER-move", eng.FuncName(fn)+" renamed-before-attach", okRen, fn.Pos(), "the source takes the destination's name before it is attached (it is filed under its name)")
				cc := conn[0].(*ssa.Call)
				okArgs := eng.Mentions(eng.RecvOf(cc), 6, func(x ssa.Value) bool { return x == ssa.Value(find[0].(*ssa.Call)) }) && eng.MentionsField(eng.Arg(cc, 0), "FsNode.parent")
				c.Ob("ORDER-move", eng.FuncName(fn)+" attaches-source-to-destination-parent", okArgs, cc.Pos(), "the node attached is the source, under the parent of the destination")
				// the parent is read before the destination node is cleared (clearing forgets it)
				var parentLoad ssa.Instruction
				eng.Walk(eng.Arg(cc, 0), 4, func(x ssa.Value) bool {
					if u, isU := x.(*ssa.UnOp); isU && eng.IsField(u, "FsNode.parent") {
						parentLoad = u
					}
					return true
				})
				c.Ob("ORDER-move", eng.FuncName(fn)+" parent-read-before-clear", parentLoad != nil && eng.Dominates(parentLoad, del[0]) && eng.Dominates(parentLoad, discDst), cc.Pos(), "the destination's parent is read before the destination node is detached and cleared (both forget the parent)")
			}
		}
	}
	c.Expect("ORDER-move", 9)

	// ---------------------------------------------------------------- (3) ORDER-delete and node primitives
	if fn := c.NeedFunc("weed/filesys", "(*FsCache).DeleteFsNode"); fn != nil {
		find := eng.Find(fn, eng.PlainCallTo("filesys.FsNode).findChild"))
		disc := eng.Find(fn, eng.PlainCallTo("filesys.FsNode).disconnectChild"))
		del := eng.Find(fn, eng.PlainCallTo("filesys.FsNode).deleteSelf"))
		if len(find) != 1 || len(disc) != 1 || len(del) != 1 {
			c.Undecided("ORDER-delete", eng.FuncName(fn), fn.Pos(), "find / detach / clear not found")
		} else {
			hitRev, _ := eng.Search(eng.After(del[0]), eng.Is(disc[0]), eng.SearchOpt{})
			c.Ob("ORDER-delete", eng.FuncName(fn)+" never-cleared-before-detached", hitRev == nil, del[0].Pos(), "the node is never cleared before it is taken out of its parent's children (clearing drops the parent pointer the detach needs)")
			// every exit on which the node was found passes the clear
			found := eng.FailEdges(fn, func(cond ssa.Value) (bool, bool) {
				b, isB := cond.(*ssa.BinOp)
				if !isB || !eng.IsNilConst(b.Y) || b.X != ssa.Value(find[0].(*ssa.Call)) {
					return false, false
				}
				return true, b.Op.String() == "=="
			})
			okClear := len(found) > 0
			// loop exit (all segments found) -> return must pass deleteSelf
			for _, b := range fn.Blocks {
				for si, s := range b.Succs {
					_ = si
					if len(eng.CycleOf(b)) > 0 && len(eng.CycleOf(s)) == 0 && !isReturnBlock(s) {
						if hit, _ := eng.Search(eng.Loc{B: s, Idx: 0}, eng.IsReturn, eng.SearchOpt{Barrier: eng.Is(del[0])}); hit != nil {
							okClear = false
						}
					}
				}
			}
			c.Ob("ORDER-delete", eng.FuncName(fn)+" found-node-is-cleared", okClear, del[0].Pos(), "a cached path that is deleted has its node and whole subtree cleared")
			hasParent := eng.PassEdges(fn, func(cond ssa.Value) (bool, bool) {
				b, isB := cond.(*ssa.BinOp)
				if !isB || !eng.IsNilConst(b.Y) || !eng.IsField(b.X, "FsNode.parent") {
					return false, false
				}
				return true, b.Op.String() == "!="
			})
			okDet := len(hasParent) > 0
			for _, st := range startsOf(hasParent) {
				if hit, _ := eng.Search(st, eng.Is(del[0]), eng.SearchOpt{Barrier: eng.Is(disc[0])}); hit != nil {
					okDet = false
				}
			}
			c.Ob("ORDER-delete", eng.FuncName(fn)+" detached-from-parent", okDet, disc[0].Pos(), "the node is removed from its parent's children before it is cleared (clearing forgets the parent)")
		}
	}
	if fn := c.NeedFunc("weed/filesys", "(*FsNode).deleteSelf"); fn != nil {
		rec := eng.Find(fn, eng.PlainCallTo("filesys.FsNode).deleteSelf"))
		okRec := len(rec) == 1 && len(eng.CycleOf(rec[0].Block())) > 0
		c.Ob("ORDER-delete", eng.FuncName(fn)+" recurses-into-children", okRec, fn.Pos(), "clearing a node clears every child")
		okNil := true
		for _, f := range []string{"FsNode.children", "FsNode.node", "FsNode.parent"} {
			found := false
			for _, st := range eng.Find(fn, eng.StoreToField(f)) {
				if eng.IsNilConst(st.(*ssa.Store).Val) {
					found = true
				}
			}
			if !found {
				okNil = false
			}
		}
		c.Ob("ORDER-delete", eng.FuncName(fn)+" forgets-everything", okNil, fn.Pos(), "a cleared node forgets its children, its file-system node and its parent")
	}
	if fn := c.NeedFunc("weed/filesys", "(*FsNode).disconnectChild"); fn != nil {
		dels := eng.Find(fn, func(in ssa.Instruction) bool {
			call, ok := in.(*ssa.Call)
			return ok && eng.CalleeIs(call, "builtin.delete") && eng.IsField(call.Call.Args[0], "FsNode.children")
		})
		okKey := len(dels) == 1 && eng.IsField(dels[0].(*ssa.Call).Call.Args[1], "FsNode.name") && eng.IsParamLike(eng.FieldBase(dels[0].(*ssa.Call).Call.Args[1]), "child")
		okPar := false
		for _, st := range eng.Find(fn, eng.StoreToField("FsNode.parent")) {
			if eng.IsNilConst(st.(*ssa.Store).Val) && eng.IsParamLike(eng.FieldBase(st.(*ssa.Store).Addr), "child") {
				okPar = true
			}
		}
		c.Ob("ORDER-delete", eng.FuncName(fn)+" removes-child-entry", okKey && okPar, fn.Pos(), "detaching removes the parent's entry under the child's name and makes the child forget the parent")
	}
	if fn := c.NeedFunc("weed/filesys", "(*FsNode).connectToParent"); fn != nil {
		upd := eng.Find(fn, func(in ssa.Instruction) bool {
			mu, ok := in.(*ssa.MapUpdate)
			return ok && eng.IsField(mu.Map, "FsNode.children")
		})
		ok := len(upd) == 1
		if ok {
			mu := upd[0].(*ssa.MapUpdate)
			ok = eng.IsParamLike(eng.FieldBase(mu.Map), "parent") && eng.IsField(mu.Key, "FsNode.name") && eng.IsParamLike(mu.Value, "n")
		}
		okPar := false
		for _, st := range eng.Find(fn, eng.StoreToField("FsNode.parent")) {
			if eng.IsParamLike(st.(*ssa.Store).Val, "parent") {
				okPar = true
			}
		}
		c.Ob("ORDER-delete", eng.FuncName(fn)+" files-under-own-name", ok && okPar, fn.Pos(), "attaching records the node in the new parent's children under the node's own name and sets its parent")
	}
	c.Expect("ORDER-delete", 6)

	// ---------------------------------------------------------------- SET-GET
	// the lookup walks the path with findChild and answers the node of the last element, nil as soon as an element
	// is missing; the store walks with ensureChild and files the given node at the last element; ensure answers the
	// cached node when there is one and otherwise files and answers the freshly generated one
	if fn := c.NeedFunc("weed/filesys", "(*FsCache).doGetFsNode"); fn != nil {
		missing := eng.PassEdges(fn, func(cond ssa.Value) (bool, bool) {
			b, ok := cond.(*ssa.BinOp)
			if !ok || (b.Op != token.EQL && b.Op != token.NEQ) || !eng.IsNilConst(b.Y) || !eng.MentionsCall(b.X, "filesys.FsNode).findChild") {
				return false, false
			}
			return true, b.Op == token.EQL
		})
		okMiss := len(missing) > 0
		for _, st := range startsOf(missing) {
			if hit, _ := eng.Search(st, func(in ssa.Instruction) bool {
				r, ok := in.(*ssa.Return)
				return ok && !eng.IsNilConst(r.Results[0])
			}, eng.SearchOpt{}); hit != nil {
				okMiss = false
			}
		}
		c.Ob("SET-GET", eng.FuncName(fn)+" missing-element-is-nil", okMiss, fn.Pos(), "a path with an element that is not cached answers nil")
		okNode := false
		for _, r := range eng.Find(fn, eng.IsReturn) {
			if eng.IsField(r.(*ssa.Return).Results[0], "FsNode.node") {
				okNode = true
			}
		}
		c.Ob("SET-GET", eng.FuncName(fn)+" answers-the-filed-node", okNode, fn.Pos(), "a cached path answers the node filed at its last element")
	}
	if fn := c.NeedFunc("weed/filesys", "(*FsCache).doSetFsNode"); fn != nil {
		sts := eng.Find(fn, eng.StoreToField("FsNode.node"))
		ok := len(sts) == 1 && eng.IsParamLike(sts[0].(*ssa.Store).Val, "node") && len(eng.Find(fn, eng.PlainCallTo("filesys.FsNode).ensureChild"))) == 1
		if ok {
			if hit, _ := eng.Search(eng.Entry(fn), eng.IsReturn, eng.SearchOpt{Barrier: eng.Is(sts[0])}); hit != nil {
				ok = false
			}
		}
		c.Ob("SET-GET", eng.FuncName(fn)+" files-the-given-node", ok, fn.Pos(), "the given node is filed at the element the path leads to (created on the way), on every path")
	}
	if fn := c.NeedFunc("weed/filesys", "(*FsCache).SetFsNode"); fn != nil {
		calls := eng.Find(fn, eng.PlainCallTo("filesys.FsCache).doSetFsNode"))
		ok := len(calls) == 1 && eng.IsParamLike(eng.Arg(calls[0].(*ssa.Call), 0), "path") && eng.IsParamLike(eng.Arg(calls[0].(*ssa.Call), 1), "node")
		c.Ob("SET-GET", eng.FuncName(fn)+" stores-its-arguments", ok, fn.Pos(), "SetFsNode files its node under its path")
	}
	if fn := c.NeedFunc("weed/filesys", "(*FsCache).EnsureFsNode"); fn != nil {
		get := eng.Find(fn, eng.PlainCallTo("filesys.FsCache).doGetFsNode"))
		set := eng.Find(fn, eng.PlainCallTo("filesys.FsCache).doSetFsNode"))
		ok := len(get) == 1 && len(set) == 1
		if ok {
			got := ssa.Value(get[0].(*ssa.Call))
			cached := eng.PassEdges(fn, func(cond ssa.Value) (bool, bool) {
				b, isB := cond.(*ssa.BinOp)
				if !isB || (b.Op != token.EQL && b.Op != token.NEQ) || b.X != got || !eng.IsNilConst(b.Y) {
					return false, false
				}
				return true, b.Op == token.NEQ
			})
			// with a cached node nothing is generated or stored, and the cached node is the answer
			ok = len(cached) > 0
			for _, st := range startsOf(cached) {
				if hit, _ := eng.Search(st, eng.AnyOf(set), eng.SearchOpt{}); hit != nil {
					ok = false
				}
				if hit, _ := eng.Search(st, func(in ssa.Instruction) bool {
					r, isR := in.(*ssa.Return)
					if !isR {
						return false
					}
					for _, v := range eng.Resolve(r.Results[0]) {
						if v != got {
							return true
						}
					}
					return false
				}, eng.SearchOpt{}); hit != nil {
					ok = false
				}
			}
			// without one, the generated node is stored under the path and answered
			gen := eng.Arg(set[0].(*ssa.Call), 1)
			if call, isCall := eng.Unwrap(gen).(*ssa.Call); !isCall || eng.ParamName(call.Call.Value) != "genNodeFn" || !eng.IsParamLike(eng.Arg(set[0].(*ssa.Call), 0), "path") {
				ok = false
			}
			if hit, _ := eng.Search(eng.Entry(fn), eng.AnyOf(set), eng.SearchOpt{Cut: cached}); hit == nil {
				ok = false
			}
		}
		c.Ob("SET-GET", eng.FuncName(fn)+" cached-or-generated", ok, fn.Pos(), "EnsureFsNode answers the cached node when there is one (generating and storing nothing) and otherwise stores and answers the generated node")
	}
	c.Expect("SET-GET", 5)
}

func isReturnBlock(b *ssa.BasicBlock) bool {
	if len(b.Instrs) == 0 {
		return false
	}
	_, ok := b.Instrs[len(b.Instrs)-1].(*ssa.Return)
	return ok && len(b.Instrs) <= 3
}
