package props

import (
	"fmt"
	"go/token"
	"strings"

	"golang.org/x/tools/go/ssa"

	"verif/sa/eng"
)

func init() {
	register(&Prop{
		ID:  "C40",
		Run: runC40,
		Explanation: "Static decision of the structure of replicated writes and deletes: (1) FIELDS-forward: the per-replica upload forwards every content-bearing part of the needle — data, name, mime, pairs, last-modified time, TTL, the compressed flag and the chunk-manifest flag — to the same path on the replica's host, marked as a replicate request (so the replica does not fan out again); (2) GUARD-fanout: the fan-out is decided only for requests that are not themselves replicate requests, a failed local write returns before it, and between a successful local write and the fan-out decision there is no return (a success must not skip the replicas); " +
			"(3) WAIT-all: the distributed operation starts one goroutine per location that receives its location as an argument (not through a variable shared by the loop), collects exactly as many results as locations and returns their aggregated error; (4) ERR: the aggregated replica error becomes the error of the write and of the delete, and the volume server's handlers answer an error for it. That the replicas decode to equal content is not decided.",
		Assumptions: []string{"the module is compiled with per-loop (not per-iteration) range variables (go 1.16 in go.mod)"},
		Trusted:     baseTrusted,
	})
}

func runC40(c *eng.Ctx) {

	// the upload a replica write goes through: when every attempt fails the failure reaches the caller
	for _, spec := range [][2]string{{"retriedUploadData", "operation.doUploadData"}, {"UploadData", "operation.retriedUploadData"}} {
		if fn := c.NeedFunc("weed/operation", spec[0]); fn != nil {
			calls := eng.Find(fn, eng.PlainCallTo(spec[1]))
			if len(calls) == 0 {
				c.Undecided("ERR-replica", eng.FuncName(fn)+" upload-attempt", fn.Pos(), spec[1]+" call not found")
			}
			c.ErrChecked("ERR-replica", "upload-attempt", fn, calls, "an upload whose attempts all fail returns the error")
		}
	}

	// CODEC-filename: the name of the blob travels to the replicas as the filename parameter of the multipart
	// Content-Disposition header; the receiving side (mime.ParseMediaType) undoes exactly two escapes in a quoted
	// string: \\ and \". The sender must produce exactly those (the repo's Replacer) between plain quotes, not Go
	// syntax (%q), or a name with other special bytes is stored differently on the replica.
	if fn := c.NeedFunc("weed/operation", "upload_content"); fn != nil {
		n := 0
		for _, in := range eng.Find(fn, eng.PlainCallTo("textproto.MIMEHeader).Set")) {
			call := in.(*ssa.Call)
			if k, ok := eng.ConstString(call.Call.Args[1]); !ok || k != "Content-Disposition" {
				continue
			}
			n++
			sp, isSp := eng.Unwrap(call.Call.Args[2]).(*ssa.Call)
			okFmt, okEsc, why := false, false, ""
			if isSp && eng.CalleeIs(sp, "fmt.Sprintf") {
				format, _ := eng.ConstString(sp.Call.Args[0])
				okFmt = strings.Contains(format, `filename="%s"`) && !strings.Contains(format, "%q") && !strings.Contains(format, "%v") && !strings.Contains(format, "%x")
				for _, a := range eng.VarargValues(sp.Call.Args[1]) {
					if mi, ok := a.(*ssa.MakeInterface); ok {
						a = mi.X
					}
					if !eng.Mentions(a, 6, func(v ssa.Value) bool { return eng.IsParam(v, "filename") }) {
						continue
					}
					rc, isCall := eng.Unwrap(a).(*ssa.Call)
					if isCall && eng.CalleeIs(rc, "strings.Replacer).Replace") && eng.IsParam(eng.Unwrap(rc.Call.Args[1]), "filename") {
						okEsc = replacerPairs(c.P, rc.Call.Args[0]) == `\|\\|"|\"`
						if !okEsc {
							why = "the replacer does not escape exactly backslash and double quote: " + replacerPairs(c.P, rc.Call.Args[0])
						}
					} else {
						why = "the file name reaches the header without passing the escaper"
					}
				}
			} else if isSp && eng.CalleeIs(sp, "mime.FormatMediaType") {
				okFmt, okEsc = true, true
			}
			c.Ob("CODEC-filename", fmt.Sprintf("%s content-disposition#%d", eng.FuncName(fn), n), okFmt && okEsc, call.Pos(),
				"the file name is sent as a MIME quoted string with exactly the escapes the receiver undoes (backslash and double quote)"+ifs(why != "", ": "+why)+ifs(!okFmt, ": unexpected format"))
		}
		if n == 0 {
			c.Undecided("CODEC-filename", eng.FuncName(fn), fn.Pos(), "Content-Disposition header not found")
		}
	}
	P := c.P
	rw := c.NeedFunc("weed/topology", "ReplicatedWrite")
	if rw != nil {
		dist := eng.Find(rw, eng.PlainCallTo("topology.distributedOperation"))
		local := eng.Find(rw, eng.PlainCallTo("storage.Store).WriteVolumeNeedle"))
		if len(dist) != 1 || len(local) != 1 {
			c.Undecided("GUARD-fanout", eng.FuncName(rw), rw.Pos(), "local write / fan-out not found")
		} else {
			// ---------------------------------------------------------------- (1) FIELDS-forward
			var op *ssa.Function
			if mc, ok := eng.Unwrap(eng.Arg(dist[0].(*ssa.Call), 2)).(*ssa.MakeClosure); ok {
				op = mc.Fn.(*ssa.Function)
			}
			if op == nil {
				c.Undecided("FIELDS-forward", eng.FuncName(rw), dist[0].Pos(), "per-replica operation is not a function literal")
			} else {
				c.Touch(op)
				up := eng.Find(op, eng.PlainCallTo("operation.UploadData"))
				if len(up) != 1 {
					c.Undecided("FIELDS-forward", eng.FuncName(op), op.Pos(), "upload call not found")
				} else {
					call := up[0].(*ssa.Call)
					type fwd struct {
						name string
						ok   bool
					}
					urlArg, nameArg, dataArg, compArg, mimeArg, pairArg := call.Call.Args[0], call.Call.Args[1], call.Call.Args[3], call.Call.Args[4], call.Call.Args[5], call.Call.Args[6]
					inQuery := func(pred func(ssa.Value) bool) bool {
						// value flows into the url.Values literal / q.Set calls of the closure
						found := false
						for _, b := range op.Blocks {
							for _, in := range b.Instrs {
								switch x := in.(type) {
								case *ssa.MapUpdate:
									if eng.Mentions(x.Value, 8, pred) {
										found = true
									}
								case *ssa.Call:
									if eng.CalleeIs(x, "url.Values).Set") {
										for _, a := range x.Call.Args {
											if eng.Mentions(a, 8, pred) {
												found = true
											}
										}
									}
								}
							}
						}
						return found
					}
					guardedBy := func(pred eng.InstrPred, callee string) bool {
						// a q.Set("cm"/"ts") executed under the needle's predicate
						for _, in := range eng.Find(op, pred) {
							cut := eng.PassEdges(op, eng.BoolCall(true, callee))
							if len(cut) > 0 {
								if hit, _ := eng.Search(eng.Entry(op), eng.Is(in), eng.SearchOpt{Cut: cut}); hit == nil {
									return true
								}
							}
						}
						return false
					}
					setKey := func(key string) eng.InstrPred {
						return func(in ssa.Instruction) bool {
							x, ok := in.(*ssa.Call)
							if !ok || !eng.CalleeIs(x, "url.Values).Set") {
								return false
							}
							s, isS := eng.ConstString(x.Call.Args[1])
							return isS && s == key
						}
					}
					checks := []fwd{
						{"Data", eng.MentionsField(dataArg, "Needle.Data")},
						{"Name", eng.MentionsField(nameArg, "Needle.Name")},
						{"Mime", eng.MentionsField(mimeArg, "Needle.Mime")},
						{"compressed-flag", eng.MentionsCall(compArg, "needle.Needle).IsCompressed")},
						{"Pairs", eng.Mentions(pairArg, 8, func(x ssa.Value) bool { _, isMk := x.(*ssa.MakeMap); return isMk }) && len(eng.Find(op, func(in ssa.Instruction) bool {
							x, ok := in.(*ssa.Call)
							return ok && eng.CalleeIs(x, "json.Unmarshal") && eng.MentionsField(x.Call.Args[0], "Needle.Pairs")
						})) == 1},
						{"Ttl", inQuery(func(x ssa.Value) bool { return eng.IsField(x, "Needle.Ttl") })},
						{"LastModified", inQuery(func(x ssa.Value) bool { return eng.IsField(x, "Needle.LastModified") })},
						{"chunk-manifest-flag", guardedBy(setKey("cm"), "needle.Needle).IsChunkedManifest")},
						{"replicate-marker", inQuery(func(x ssa.Value) bool { s, ok := eng.ConstString(x); return ok && s == "replicate" })},
						{"same-path-on-replica", eng.MentionsField(urlArg, "URL.Path") || urlFrom(op, "URL.Path")},
						{"replica-host", urlFrom(op, "Location.Url")},
					}
					// the pairs travel as headers under the prefix the receiving parser keeps
					prefix := ""
					if pu := c.NeedFunc("weed/storage/needle", "ParseUpload"); pu != nil {
						for _, in := range eng.Find(pu, eng.PlainCallTo("strings.HasPrefix")) {
							if sfx, isS := eng.ConstString(in.(*ssa.Call).Call.Args[1]); isS {
								prefix = sfx
							}
						}
					}
					okPrefix := false
					for _, in := range eng.Find(op, func(in ssa.Instruction) bool { _, ok := in.(*ssa.MapUpdate); return ok }) {
						mu := in.(*ssa.MapUpdate)
						if b, isB := mu.Key.(*ssa.BinOp); isB && b.Op == token.ADD && mu.Map == eng.Unwrap(pairArg) {
							if sfx, isS := eng.ConstString(b.X); isS && sfx == prefix && prefix != "" {
								okPrefix = true
							}
						}
					}
					checks = append(checks, fwd{"pair-prefix", okPrefix})
					// the pairs are decoded exactly when the needle has pairs
					hasPairs := eng.PassEdges(op, eng.BoolCall(true, "needle.Needle).HasPairs"))
					okWhen := len(hasPairs) > 0
					for _, un := range eng.Find(op, eng.PlainCallTo("json.Unmarshal")) {
						for _, st := range startsOf(hasPairs) {
							if hit, _ := eng.Search(st, eng.Is(un), eng.SearchOpt{}); hit == nil {
								okWhen = false
							}
						}
					}
					checks = append(checks, fwd{"pairs-when-present", okWhen})
					for _, f := range checks {
						c.Ob("FIELDS-forward", eng.FuncName(rw)+" "+f.name, f.ok, call.Pos(), "the replica upload carries the needle's "+f.name)
					}
					c.ErrChecked("ERR-replica", "upload-error", op, up, "a failed replica upload is the operation's error")
				}
			}
			// ---------------------------------------------------------------- (2) GUARD-fanout
			e := eng.ErrOf(local[0])
			c.Guard("GUARD-fanout", "after-local-write", rw, eng.After(local[0]), dist, eng.PassEdges(rw, eng.ErrNil(e)), "the replicas are written only when the local write succeeded")
			decide := eng.Find(rw, func(in ssa.Instruction) bool {
				iff, ok := in.(*ssa.If)
				if !ok {
					return false
				}
				b, isB := iff.Cond.(*ssa.BinOp)
				if !isB {
					return false
				}
				call, isCall := b.X.(*ssa.Call)
				return isCall && eng.CalleeIs(call, "builtin.len") && b.Op == token.GTR
			})
			okNoSkip := len(decide) == 1
			if okNoSkip {
				for _, st := range startsOf(eng.PassEdges(rw, eng.ErrNil(e))) {
					if hit, _ := eng.Search(st, eng.IsReturn, eng.SearchOpt{Barrier: eng.Is(decide[0])}); hit != nil {
						okNoSkip = false
					}
				}
			}
			c.Ob("GUARD-fanout", eng.FuncName(rw)+" success-reaches-fanout-decision", okNoSkip, local[0].Pos(), "after a successful local write every path reaches the decision to write the replicas (an 'unchanged' local result says nothing about the replicas)")
			// remote locations are looked up only for non-replicate requests
			look := eng.Find(rw, eng.PlainCallTo("topology.getWritableRemoteReplications"))
			notRepl := eng.PassEdges(rw, func(cond ssa.Value) (bool, bool) {
				b, ok := cond.(*ssa.BinOp)
				if !ok || (b.Op != token.NEQ && b.Op != token.EQL) || !eng.MentionsCall(b.X, "http.Request).FormValue") {
					return false, false
				}
				s, isS := eng.ConstString(b.Y)
				return isS && s == "replicate", b.Op == token.NEQ
			})
			c.Guard("GUARD-fanout", "only-initial-request", rw, eng.Entry(rw), look, notRepl, "only the initial request (not one that is itself a replicate request) looks up and writes the other replicas")
			okLookW := len(notRepl) > 0 && len(look) == 1
			for _, st := range startsOf(notRepl) {
				if hit, _ := eng.Search(st, eng.AnyOf(look), eng.SearchOpt{}); hit == nil {
					okLookW = false
				}
			}
			c.Ob("GUARD-fanout", eng.FuncName(rw)+" initial-request-looks-up-replicas", okLookW, rw.Pos(), "an initial write request looks up the other replicas")
			c.ErrChecked("ERR-replica", "lookup-error", rw, look, "an unknown replica set fails the write")
			c.ErrChecked("ERR-replica", "fanout-error", rw, dist, "a failed replica fails the write")
			c.ErrChecked("ERR-replica", "local-error", rw, local, "a failed local write fails the write")
		}
	}
	if rd := c.NeedFunc("weed/topology", "ReplicatedDelete"); rd != nil {
		dist := eng.Find(rd, eng.PlainCallTo("topology.distributedOperation"))
		local := eng.Find(rd, eng.PlainCallTo("storage.Store).DeleteVolumeNeedle"))
		if len(dist) == 1 && len(local) == 1 {
			c.Guard("GUARD-fanout", "delete-after-local-delete", rd, eng.Entry(rd), dist, eng.PassEdges(rd, eng.ErrNil(eng.ErrOf(local[0]))), "the replicas are asked to delete only when the local delete succeeded")
			lookD := eng.Find(rd, eng.PlainCallTo("topology.getWritableRemoteReplications"))
			notReplD := eng.PassEdges(rd, func(cond ssa.Value) (bool, bool) {
				b, ok := cond.(*ssa.BinOp)
				if !ok || (b.Op != token.NEQ && b.Op != token.EQL) || !eng.MentionsCall(b.X, "http.Request).FormValue") {
					return false, false
				}
				sv, isS := eng.ConstString(b.Y)
				return isS && sv == "replicate", b.Op == token.NEQ
			})
			c.Guard("GUARD-fanout", "delete-only-initial-request", rd, eng.Entry(rd), lookD, notReplD, "only the initial delete request (not one that is itself a replicate request) looks up and asks the other replicas")
			// ... and it does look them up: on the initial-request edge the lookup is reached
			okLook := len(notReplD) > 0 && len(lookD) == 1
			for _, st := range startsOf(notReplD) {
				if hit, _ := eng.Search(st, eng.AnyOf(lookD), eng.SearchOpt{}); hit == nil {
					okLook = false
				}
			}
			c.Ob("GUARD-fanout", eng.FuncName(rd)+" initial-request-looks-up-replicas", okLook, rd.Pos(), "an initial delete request looks up the other replicas")
			c.ErrChecked("ERR-replica", "delete-lookup-error", rd, lookD, "an unknown replica set fails the delete")
			c.ErrChecked("ERR-replica", "delete-fanout-error", rd, dist, "a failed replica delete fails the delete")
			c.ErrChecked("ERR-replica", "delete-local-error", rd, local, "a failed local delete fails the delete")
			if mc, ok := eng.Unwrap(eng.Arg(dist[0].(*ssa.Call), 2)).(*ssa.MakeClosure); ok {
				op := mc.Fn.(*ssa.Function)
				c.Touch(op)
				del := eng.Find(op, eng.PlainCallTo("util.Delete"))
				okUrl := len(del) == 1 && eng.MentionsField(del[0].(*ssa.Call).Call.Args[0], "Location.Url") && eng.MentionsField(del[0].(*ssa.Call).Call.Args[0], "URL.Path") && eng.Mentions(del[0].(*ssa.Call).Call.Args[0], 8, func(x ssa.Value) bool {
					s, isS := eng.ConstString(x)
					return isS && s == "?type=replicate"
				})
				c.Ob("FIELDS-forward", eng.FuncName(rd)+" delete-url", okUrl, op.Pos(), "the replica is asked to delete the same path, marked as a replicate request")
			}
		} else {
			c.Undecided("GUARD-fanout", eng.FuncName(rd), rd.Pos(), "local delete / fan-out not found")
		}
	}
	c.Expect("FIELDS-forward", 14)
	c.Expect("GUARD-fanout", 7)
	c.Expect("ERR-replica", 7)

	// ---------------------------------------------------------------- (3) WAIT-all
	if do := c.NeedFunc("weed/topology", "distributedOperation"); do != nil {
		gos := eng.Find(do, func(in ssa.Instruction) bool { _, ok := in.(*ssa.Go); return ok })
		if len(gos) != 1 || len(eng.CycleOf(gos[0].Block())) == 0 {
			c.Undecided("WAIT-all", eng.FuncName(do), do.Pos(), "one goroutine per location not found")
		} else {
			g := gos[0].(*ssa.Go)
			cyc := eng.CycleOf(g.Block())
			// no binding of the goroutine's closure is a cell that the loop re-assigns
			okCap := true
			why := ""
			if mc, ok := g.Call.Value.(*ssa.MakeClosure); ok {
				for _, b := range mc.Bindings {
					if al, isAl := b.(*ssa.Alloc); isAl && !cyc[al.Block()] {
						for _, r := range *al.Referrers() {
							if st, isSt := r.(*ssa.Store); isSt && st.Addr == ssa.Value(al) && cyc[st.Block()] {
								okCap = false
								why = fmt.Sprintf("captures the loop's variable %q, which every iteration overwrites", al.Comment)
							}
						}
					}
				}
			}
			c.Ob("WAIT-all", eng.FuncName(do)+" goroutine-gets-its-own-location", okCap, g.Pos(), "each goroutine works on the location of its own iteration"+ifs(why != "", ": "+why))
			// the location argument is the ranged element
			okArg := false
			for _, a := range g.Call.Args {
				if eng.Mentions(a, 5, func(x ssa.Value) bool {
					ia, ok := x.(*ssa.IndexAddr)
					return ok && eng.IsParamLike(ia.X, "locations")
				}) {
					okArg = true
				}
			}
			var worker *ssa.Function
			if f := eng.StaticFn(g); f != nil {
				worker = f
			}
			usesParam := false
			if worker != nil {
				c.Touch(worker)
				for _, call := range eng.Find(worker, func(in ssa.Instruction) bool {
					x, ok := in.(*ssa.Call)
					if !ok {
						return false
					}
					u, isU := x.Call.Value.(*ssa.UnOp)
					if isU {
						if fv, isFV := u.X.(*ssa.FreeVar); isFV && fv.Name() == "op" {
							return true
						}
					}
					return eng.ParamName(x.Call.Value) == "op"
				}) {
					if a := call.(*ssa.Call).Call.Args[0]; eng.IsParamLike(a, "location") && worker.Params != nil {
						for _, p := range worker.Params {
							if p.Name() == "location" {
								usesParam = true
							}
						}
					}
				}
			}
			c.Ob("WAIT-all", eng.FuncName(do)+" location-passed-as-argument", okArg && usesParam, g.Pos(), "the operation runs on the location handed to the goroutine as an argument")
			// results collected: a receive loop bounded by len(locations)
			var recv []ssa.Instruction
			for _, in := range eng.Find(do, func(in ssa.Instruction) bool {
				u, ok := in.(*ssa.UnOp)
				return ok && u.Op == token.ARROW
			}) {
				recv = append(recv, in)
			}
			okCount := len(recv) == 1 && len(eng.CycleOf(recv[0].Block())) > 0
			if okCount {
				bound := false
				for b := range eng.CycleOf(recv[0].Block()) {
					if iff, ok := b.Instrs[len(b.Instrs)-1].(*ssa.If); ok {
						if bo, isB := iff.Cond.(*ssa.BinOp); isB && bo.Op == token.LSS {
							// i < len(locations), i counting from 0 by 1
							lc, isLen := bo.Y.(*ssa.Call)
							phi, isPhi := bo.X.(*ssa.Phi)
							if isLen && isPhi && eng.CalleeIs(lc, "builtin.len") && eng.IsParamLike(lc.Call.Args[0], "locations") && len(phi.Edges) == 2 {
								from0, by1 := false, false
								for _, ev := range phi.Edges {
									if isZero(ev) {
										from0 = true
									}
									if inc, isInc := ev.(*ssa.BinOp); isInc && inc.Op == token.ADD && inc.X == ssa.Value(phi) {
										if k, isK := eng.ConstInt(inc.Y); isK && k == 1 {
											by1 = true
										}
									}
								}
								bound = from0 && by1
							}
						}
					}
				}
				okCount = bound
			}
			c.Ob("WAIT-all", eng.FuncName(do)+" waits-for-every-location", okCount, do.Pos(), "exactly one result per location is awaited before the operation returns")
			// the returned error is the aggregate
			okRet := true
			for _, r := range eng.Find(do, eng.IsReturn) {
				if !eng.MentionsCall(r.(*ssa.Return).Results[0], "topology.DistributedOperationResult).Error") {
					okRet = false
				}
			}
			c.Ob("WAIT-all", eng.FuncName(do)+" returns-aggregate", okRet, do.Pos(), "the result is the aggregate of every location's error")
		}
	}
	if ag := c.NeedFunc("weed/topology", "(DistributedOperationResult).Error"); ag != nil {
		// nil only when no location reported an error
		var nils []ssa.Instruction
		for _, r := range eng.Find(ag, eng.IsReturn) {
			if eng.IsNilConst(r.(*ssa.Return).Results[0]) {
				nils = append(nils, r)
			}
		}
		app := eng.Find(ag, eng.PlainCallTo("builtin.append"))
		nonNil := eng.PassEdges(ag, func(cond ssa.Value) (bool, bool) {
			b, ok := cond.(*ssa.BinOp)
			if !ok || (b.Op != token.NEQ && b.Op != token.EQL) || !eng.IsNilConst(b.Y) || !eng.IsErrorType(b.X.Type()) {
				return false, false
			}
			return true, b.Op == token.NEQ
		})
		okAgg := len(nils) == 1 && len(app) == 1 && len(nonNil) > 0
		if okAgg {
			for _, st := range startsOf(nonNil) {
				if hit, _ := eng.Search(st, eng.AnyOf(nils), eng.SearchOpt{Barrier: eng.AnyOf(app)}); hit != nil {
					okAgg = false
				}
			}
		}
		if okAgg {
			// the nil answer sits behind "no error was collected"
			none := eng.PassEdges(ag, func(cond ssa.Value) (bool, bool) {
				b, ok := cond.(*ssa.BinOp)
				if !ok || !isZero(b.Y) || !eng.MentionsCall(b.X, "builtin.len") {
					return false, false
				}
				switch b.Op {
				case token.EQL:
					return true, true
				case token.NEQ, token.GTR:
					return true, false
				}
				return false, false
			})
			if len(none) == 0 {
				okAgg = false
			} else if hit, _ := eng.Search(eng.Entry(ag), eng.AnyOf(nils), eng.SearchOpt{Cut: none}); hit != nil {
				okAgg = false
			}
		}
		c.Ob("WAIT-all", eng.FuncName(ag)+" any-error-is-an-error", okAgg, ag.Pos(), "the aggregate is nil only when no location reported an error")
	}
	c.Expect("WAIT-all", 5)

	// ---------------------------------------------------------------- (4) handlers
	for _, h := range []struct{ name, callee string }{{"(*VolumeServer).PostHandler", "topology.ReplicatedWrite"}, {"(*VolumeServer).DeleteHandler", "topology.ReplicatedDelete"}} {
		fn := c.NeedFunc("weed/server", h.name)
		if fn == nil {
			continue
		}
		calls := eng.Find(fn, eng.PlainCallTo(h.callee))
		if len(calls) == 0 {
			c.Undecided("ERR-replica", eng.FuncName(fn), fn.Pos(), "replicated operation not found")
			continue
		}
		for i, call := range calls {
			ok, why := answersError(c, fn, eng.ErrOf(call), eng.After(call), 2)
			c.Ob("ERR-replica", fmt.Sprintf("%s answers-error#%d", eng.FuncName(fn), i), ok, call.Pos(), "a failed replicated operation is answered with an error status, never with success"+ifs(why != "", ": "+why))
		}
	}
	_ = P
}

// urlFrom: some store into a url.URL literal in fn takes its value from the given field.
func urlFrom(fn *ssa.Function, field string) bool {
	for _, b := range fn.Blocks {
		for _, in := range b.Instrs {
			if st, ok := in.(*ssa.Store); ok {
				if spec := eng.FieldSpec(st.Addr); spec == "URL.Host" || spec == "URL.Path" {
					if eng.MentionsField(st.Val, field) {
						return true
					}
				}
			}
		}
	}
	return false
}

// answersError: in fn, when the error value e is not nil, every response written
// carries an error status: each path from a non-nil test of e to a return passes
// an error response (writeJsonError / http.Error) or a JSON response whose status
// on that path is >= 400; when fn does not test e itself it must hand e, on every
// path from `from`, to a function for whose parameter the same holds.
func answersError(c *eng.Ctx, fn *ssa.Function, e ssa.Value, from eng.Loc, depth int) (bool, string) {
	if e == nil {
		return false, "no error result"
	}
	c.Touch(fn)
	errResp := eng.PlainCallTo("server.writeJsonError", "http.Error")
	nonNil := eng.PassEdges(fn, eng.ErrNotNil(e))
	isNil := eng.PassEdges(fn, eng.ErrNil(e))
	if len(nonNil) > 0 {
		// before the error is examined nothing is answered: a success written on a path that never looked at the
		// error is written for failed operations too
		examined := eng.MergeEdges(nonNil, isNil)
		if hit, _ := eng.Search(from, func(in ssa.Instruction) bool {
			x, isC := in.(*ssa.Call)
			if !isC {
				return false
			}
			if eng.CalleeIs(x, "http.ResponseWriter).WriteHeader") {
				k, isK := eng.ConstInt(x.Call.Args[0])
				return !isK || k < 400
			}
			return eng.CalleeIs(x, "server.writeJsonQuiet")
		}, eng.SearchOpt{Cut: examined}); hit != nil {
			return false, "a response is written at " + c.P.Pos(eng.InstrPos(hit)) + " before the error was examined"
		}
		// blocks reachable while e is known non-nil
		reach := map[*ssa.BasicBlock]bool{}
		for _, st := range startsOf(nonNil) {
			reach[st.B] = true
			for _, in := range eng.ReachableInstrs(st, isNil) {
				reach[in.Block()] = true
			}
		}
		quiet := eng.Find(fn, eng.PlainCallTo("server.writeJsonQuiet"))
		var okStatus []ssa.Instruction
		for _, q := range quiet {
			if !reach[q.Block()] {
				continue
			}
			good := true
			var visit func(v ssa.Value, seen map[ssa.Value]bool)
			visit = func(v ssa.Value, seen map[ssa.Value]bool) {
				if seen[v] {
					return
				}
				seen[v] = true
				switch x := v.(type) {
				case *ssa.Const:
					if k, isK := eng.ConstInt(x); !isK || k < 400 {
						good = false
					}
				case *ssa.Phi:
					for i, ev := range x.Edges {
						pred := x.Block().Preds[i]
						if !reach[pred] {
							continue
						}
						cutEdge := false
						for si, s := range pred.Succs {
							if s == x.Block() && isNil[eng.Edge{B: pred, I: si}] {
								cutEdge = true
							}
						}
						if cutEdge && len(pred.Succs) == 2 && pred.Succs[0] != pred.Succs[1] {
							continue
						}
						visit(ev, seen)
					}
				default:
					good = false
				}
			}
			visit(q.(*ssa.Call).Call.Args[2], map[ssa.Value]bool{})
			if good {
				okStatus = append(okStatus, q)
			}
		}
		for _, st := range startsOf(nonNil) {
			if hit, _ := eng.Search(st, eng.IsReturn, eng.SearchOpt{Cut: isNil, Barrier: eng.Or(errResp, eng.AnyOf(okStatus))}); hit != nil {
				return false, "a path with the error set returns without an error response in " + eng.FuncName(fn)
			}
			// and no success response is written on the way
			if hit, _ := eng.Search(st, func(in ssa.Instruction) bool {
				for _, q := range quiet {
					if q == in {
						for _, o := range okStatus {
							if o == in {
								return false
							}
						}
						return true
					}
				}
				x, isC := in.(*ssa.Call)
				return isC && eng.CalleeIs(x, "http.ResponseWriter).WriteHeader") && func() bool { k, isK := eng.ConstInt(x.Call.Args[0]); return !isK || k < 400 }()
			}, eng.SearchOpt{Cut: isNil}); hit != nil {
				return false, "a success status is written although the error is set in " + eng.FuncName(fn)
			}
		}
		return true, ""
	}
	if depth == 0 {
		return false, "the error is not tested"
	}
	// handed to a callee on every path
	var hand []ssa.Instruction
	for _, in := range eng.Find(fn, func(in ssa.Instruction) bool {
		x, ok := in.(*ssa.Call)
		if !ok || eng.StaticFn(x) == nil {
			return false
		}
		for _, a := range x.Call.Args {
			if eng.SameVar(a, e) {
				return true
			}
		}
		return false
	}) {
		x := in.(*ssa.Call)
		callee := eng.StaticFn(x)
		for ai, a := range x.Call.Args {
			if eng.SameVar(a, e) && ai < len(callee.Params) {
				if ok, _ := answersError(c, callee, callee.Params[ai], eng.Entry(callee), depth-1); ok {
					hand = append(hand, in)
				}
			}
		}
	}
	if len(hand) == 0 {
		return false, "the error is neither tested nor handed to a function that answers it"
	}
	if hit, _ := eng.Search(from, eng.IsReturn, eng.SearchOpt{Barrier: eng.AnyOf(hand)}); hit != nil {
		return false, "a path returns without handing the error to the function that answers it"
	}
	return true, ""
}

// replacerPairs renders the constant arguments strings.NewReplacer was called with for the package-level replacer v is
// loaded from, joined by "|" ("" when it cannot be determined).
func replacerPairs(P *eng.Prog, v ssa.Value) string {
	u, ok := eng.Unwrap(v).(*ssa.UnOp)
	if !ok {
		return ""
	}
	g, ok := u.X.(*ssa.Global)
	if !ok || g.Pkg == nil {
		return ""
	}
	initFn := g.Pkg.Func("init")
	if initFn == nil {
		return ""
	}
	for _, b := range initFn.Blocks {
		for _, in := range b.Instrs {
			st, ok := in.(*ssa.Store)
			if !ok || st.Addr != ssa.Value(g) {
				continue
			}
			call, ok := st.Val.(*ssa.Call)
			if !ok || !eng.CalleeIs(call, "strings.NewReplacer") {
				return ""
			}
			var parts []string
			for _, a := range eng.VarargValues(call.Call.Args[0]) {
				k, isK := eng.ConstString(a)
				if !isK {
					return ""
				}
				parts = append(parts, k)
			}
			return strings.Join(parts, "|")
		}
	}
	return ""
}
