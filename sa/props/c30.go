package props

import (
	"fmt"
	"go/token"
	"sort"
	"strings"

	"golang.org/x/tools/go/ssa"

	"verif/sa/eng"
)

func init() {
	register(&Prop{
		ID:  "C30",
		Run: runC30,
		Explanation: "Static decision of the asynchronous structure of mount write buffering, for both dirty-page implementations: (1) ASYNC-flush: FlushData hands every buffered page to storage, then waits for all uploads, then inspects the shared error and only then answers nil; (2) ASYNC-save: saveToStorage registers the upload with the wait group before it is started, fixes the chunk's modification time (which orders overlapping chunks) before the upload is started and stamps the chunk with that captured value, limits the reader to the chunk size, records a failed upload in the shared error and adds the chunk under the chunk lock — the two implementations must agree on all of these; " +
			"(3) GUARD-commit: the file handle writes metadata only after a successful FlushData, reports a failed metadata write, and a write marks the metadata dirty and grows the file size to cover the written range. The interval algebra and byte-level POSIX semantics are not decided. Also decided (SIB-intervals): the in-memory and temp-file interval lists branch on the same conditions in every shared method; the tail-append shortcut that skips the overlap pass is taken only with exactly one list; a cut node's backing position advances by what was cut from its front (sum compared term-wise).",
		Assumptions: []string{"concurrentWriters.Execute eventually runs the function it is given"},
		Trusted:     baseTrusted,
	})
}

func runC30(c *eng.Ctx) {

	// PARAM-section: a section reader is described by (temp offset, data offset, size); the callers work with
	// [start, stop) windows. The size handed over is stop - start for the very start that is handed over as data offset,
	// and the temp offset is that start shifted by the interval's (TempOffset - DataOffset).
	if fn := c.NeedFunc("weed/filesys", "(*WrittenIntervalLinkedList).ToReader"); fn != nil {
		calls := eng.Find(fn, eng.PlainCallTo("filesys.newFileSectionReader"))
		if len(calls) == 0 {
			c.Undecided("PARAM-section", eng.FuncName(fn), fn.Pos(), "newFileSectionReader call not found")
		}
		for i, in := range calls {
			call := in.(*ssa.Call)
			dataOff, size, tempOff := eng.Arg(call, 2), eng.Arg(call, 3), eng.Arg(call, 1)
			sub, ok := eng.Unwrap(size).(*ssa.BinOp)
			okSize := ok && sub.Op == token.SUB && sub.Y == dataOff && sub.X != dataOff
			c.Ob("PARAM-section", fmt.Sprintf("%s size-is-stop-minus-start#%d", eng.FuncName(fn), i), okSize, call.Pos(),
				"the size of a section is the clipped stop minus the clipped start (the start being the data offset of the same section), not the stop itself")
			terms := strings.Join(eng.LinearTerms(tempOff), " ")
			okTemp := eng.Mentions(tempOff, 4, func(v ssa.Value) bool { return v == dataOff }) && strings.Contains(terms, "-.DataOffset") && strings.Contains(terms, "+.TempOffset")
			c.Ob("PARAM-section", fmt.Sprintf("%s temp-offset-shifted#%d", eng.FuncName(fn), i), okTemp, call.Pos(),
				"the position in the temp file is the section's start shifted by TempOffset - DataOffset of the interval ("+terms+")")
		}
	}
	if fn := c.NeedFunc("weed/filesys", "newFileSectionReader"); fn != nil {
		okStop := false
		for _, in := range eng.Find(fn, eng.StoreToField("FileSectionReader.dataStop")) {
			if b, ok := in.(*ssa.Store).Val.(*ssa.BinOp); ok && b.Op == token.ADD && (eng.IsParam(b.X, "dataOffset") && eng.IsParam(b.Y, "size") || eng.IsParam(b.Y, "dataOffset") && eng.IsParam(b.X, "size")) {
				okStop = true
			}
		}
		c.Ob("PARAM-section", eng.FuncName(fn)+" stop-is-offset-plus-size", okStop, fn.Pos(), "the reader's end is data offset + size (its last parameter is a size)")
	}
	c.Expect("PARAM-section", 3)
	impls := []string{"ContinuousDirtyPages", "TempFileDirtyPages"}
	sigs := map[string]string{}
	for _, im := range impls {
		// ---------------------------------------------------------------- (1) ASYNC-flush
		if fn := c.NeedFunc("weed/filesys", "(*"+im+").FlushData"); fn != nil {
			save := eng.Find(fn, eng.PlainCallTo("filesys."+im+").saveExistingPagesToStorage"))
			wait := eng.Find(fn, eng.PlainCallTo("sync.WaitGroup).Wait"))
			if len(save) != 1 || len(wait) != 1 {
				c.Undecided("ASYNC-flush", eng.FuncName(fn), fn.Pos(), "save / wait calls not found")
			} else {
				c.Ob("ASYNC-flush", eng.FuncName(fn)+" save-before-wait", eng.Dominates(save[0], wait[0]), wait[0].Pos(), "buffered pages are handed to storage before the flush waits for the uploads")
				okRecv := eng.MentionsField(eng.RecvOf(wait[0].(*ssa.Call)), im+".writeWaitGroup")
				c.Ob("ASYNC-flush", eng.FuncName(fn)+" waits-on-upload-group", okRecv, wait[0].Pos(), "the flush waits on the wait group the uploads are registered with")
				succ := successReturns(fn)
				c.Before("ASYNC-flush", "wait-before-success", fn, eng.Is(wait[0]), succ, "the flush answers only after every started upload finished")
				noErr := eng.PassEdges(fn, eng.Cmp(func(v ssa.Value) bool { return eng.IsField(v, im+".lastErr") }, eng.IsNilConst, token.EQL))
				okErr := len(noErr) > 0
				for _, r := range succ {
					if hit, _ := eng.Search(eng.After(wait[0]), eng.Is(r), eng.SearchOpt{Cut: noErr}); hit != nil {
						okErr = false
					}
				}
				// and the error is read after the wait, not before
				for e := range noErr {
					if !eng.Dominates(wait[0], e.B.Instrs[len(e.B.Instrs)-1]) {
						okErr = false
					}
				}
				c.Ob("ASYNC-flush", eng.FuncName(fn)+" error-inspected-after-wait", okErr, wait[0].Pos(), "success is answered only when, after the wait, no upload recorded an error")
			}
		}
		// ---------------------------------------------------------------- (2) ASYNC-save
		fn := c.NeedFunc("weed/filesys", "(*"+im+").saveToStorage")
		if fn == nil {
			continue
		}
		var feats []string
		add := eng.Find(fn, eng.PlainCallTo("sync.WaitGroup).Add"))
		var spawns []ssa.Instruction
		for _, in := range eng.Find(fn, func(in ssa.Instruction) bool {
			if _, isGo := in.(*ssa.Go); isGo {
				return true
			}
			call, ok := in.(*ssa.Call)
			return ok && eng.CalleeIs(call, "util.LimitedConcurrentExecutor).Execute")
		}) {
			spawns = append(spawns, in)
		}
		var worker *ssa.Function
		for _, a := range fn.AnonFuncs {
			if len(eng.Find(a, eng.CallTo("sync.WaitGroup).Done"))) > 0 || len(eng.Find(a, func(in ssa.Instruction) bool { _, ok := in.(*ssa.Defer); return ok })) > 0 {
				worker = a
			}
		}
		if len(add) != 1 || len(spawns) == 0 || worker == nil {
			c.Undecided("ASYNC-save", eng.FuncName(fn), fn.Pos(), "wait-group registration / spawn / worker closure not found")
			continue
		}
		c.Touch(worker)
		okAdd := true
		for _, s := range spawns {
			if !eng.Dominates(add[0], s) {
				okAdd = false
			}
		}
		c.Ob("ASYNC-save", eng.FuncName(fn)+" registered-before-start", okAdd, add[0].Pos(), "the upload is registered with the wait group before it is started (a flush cannot slip past it)")
		feats = append(feats, fmt.Sprintf("add-before-spawn=%v", okAdd))
		// mtime: computed in the outer function before the spawn, captured by the worker, stored into the chunk
		now := eng.Find(fn, eng.PlainCallTo("time.Now"))
		okNow := len(now) == 1
		for _, s := range spawns {
			if okNow && !eng.Dominates(now[0], s) {
				okNow = false
			}
		}
		okStamp := false
		for _, st := range eng.Find(worker, eng.StoreToField("FileChunk.Mtime")) {
			if eng.Mentions(st.(*ssa.Store).Val, 3, func(x ssa.Value) bool {
				fv, ok := x.(*ssa.FreeVar)
				return ok && fv.Name() == "mtime"
			}) {
				okStamp = true
			}
		}
		nowInWorker := len(eng.Find(worker, eng.PlainCallTo("time.Now"))) > 0
		c.Ob("ASYNC-save", eng.FuncName(fn)+" mtime-fixed-before-start", okNow && okStamp && !nowInWorker, fn.Pos(), "the chunk's modification time — which decides which of two overlapping chunks wins — is taken when the page is handed over, not when its upload happens to finish")
		feats = append(feats, fmt.Sprintf("mtime-outside=%v", okNow && okStamp && !nowInWorker))
		// limit reader
		lim := eng.Find(worker, eng.PlainCallTo("io.LimitReader"))
		okLim := len(lim) == 1 && eng.Mentions(lim[0].(*ssa.Call).Call.Args[1], 3, func(x ssa.Value) bool {
			fv, ok := x.(*ssa.FreeVar)
			return ok && fv.Name() == "size"
		})
		c.Ob("ASYNC-save", eng.FuncName(fn)+" reader-limited-to-size", okLim, fn.Pos(), "at most the page's size is uploaded")
		feats = append(feats, fmt.Sprintf("limit=%v", okLim))
		// error recorded, chunk added only on success and under the lock
		up := eng.Find(worker, func(in ssa.Instruction) bool {
			call, ok := in.(*ssa.Call)
			if !ok || eng.StaticFn(call) != nil || call.Call.IsInvoke() {
				return false
			}
			return eng.MentionsCall(call.Call.Value, "filesys.WFS).saveDataAsChunk")
		})
		addc := eng.Find(worker, eng.PlainCallTo("filesys.File).addChunks"))
		if len(up) != 1 || len(addc) != 1 {
			c.Undecided("ASYNC-save", eng.FuncName(fn)+" upload", worker.Pos(), "upload call / addChunks not found in the worker")
		} else {
			e := eng.ErrOf(up[0])
			var rec []ssa.Instruction
			for _, st := range eng.Find(worker, eng.StoreToField(im+".lastErr")) {
				if eng.SameVar(st.(*ssa.Store).Val, e) {
					rec = append(rec, st)
				}
			}
			okRec := len(rec) == 1
			if okRec {
				for _, st := range startsOf(eng.PassEdges(worker, eng.ErrNotNil(e))) {
					if hit, _ := eng.Search(st, eng.IsReturn, eng.SearchOpt{Barrier: eng.Is(rec[0])}); hit != nil {
						okRec = false
					}
				}
			}
			c.Ob("ASYNC-save", eng.FuncName(fn)+" error-recorded", okRec, up[0].Pos(), "a failed upload is recorded in the shared error the flush inspects")
			c.Guard("ASYNC-save", "chunk-added-on-success", worker, eng.Entry(worker), addc, eng.PassEdges(worker, eng.ErrNil(e)), "a chunk joins the file only when its upload succeeded")
			lock := eng.Find(worker, eng.PlainCallTo("sync.Mutex).Lock"))
			okLock := len(lock) == 1 && eng.Dominates(lock[0], addc[0]) && eng.MentionsField(eng.RecvOf(lock[0].(*ssa.Call)), im+".chunkAddLock")
			c.Ob("ASYNC-save", eng.FuncName(fn)+" chunk-added-under-lock", okLock, addc[0].Pos(), "chunks are added under the chunk lock (uploads finish concurrently)")
			okOff := eng.Mentions(up[0].(*ssa.Call).Call.Args[2], 3, func(x ssa.Value) bool {
				fv, ok := x.(*ssa.FreeVar)
				return ok && fv.Name() == "offset"
			})
			c.Ob("ASYNC-save", eng.FuncName(fn)+" chunk-at-page-offset", okOff, up[0].Pos(), "the chunk is recorded at the page's file offset")
			feats = append(feats, fmt.Sprintf("err=%v lock=%v offset=%v", okRec, okLock, okOff))
		}
		done := eng.Find(worker, func(in ssa.Instruction) bool {
			d, ok := in.(*ssa.Defer)
			return ok && eng.CalleeIs(d, "sync.WaitGroup).Done")
		})
		okDone := len(done) == 1 && done[0].Block() == worker.Blocks[0]
		c.Ob("ASYNC-save", eng.FuncName(fn)+" done-on-every-exit", okDone, worker.Pos(), "the wait group is released on every exit of the upload (deferred at its start)")
		feats = append(feats, fmt.Sprintf("done=%v", okDone))
		sort.Strings(feats)
		sigs[im] = strings.Join(feats, " ")
	}
	c.Ob("SIB-dirty-pages", "saveToStorage twins", len(sigs) == 2 && sigs[impls[0]] == sigs[impls[1]], token.NoPos, fmt.Sprintf("the two dirty-page buffers upload pages the same way: %v", sigs))
	// ---------------------------------------------------------------- INTERVAL twins
	// the in-memory and the temp-file interval lists are the same algorithm over different node types: every method
	// they share branches on the same conditions (after renaming DataOffset -> Offset)
	rename := func(t string) string {
		t = strings.ReplaceAll(t, "DataOffset", "Offset")
		t = strings.ReplaceAll(t, "param:dataOffset", "param:offset")
		t = strings.ReplaceAll(t, "Written", "")
		return t
	}
	twins := [][2]string{
		{"(*ContinuousIntervals).AddInterval", "(*WrittenContinuousIntervals).AddInterval"},
		{"subList", "(*WrittenIntervalLinkedList).subList"},
		{"(*ContinuousIntervals).RemoveLargestIntervalLinkedList", "(*WrittenContinuousIntervals).RemoveLargestIntervalLinkedList"},
		{"(*ContinuousIntervals).removeList", "(*WrittenContinuousIntervals).removeList"},
		{"(*ContinuousIntervals).ReadDataAt", "(*WrittenContinuousIntervals).ReadDataAt"},
		{"(*IntervalLinkedList).ReadData", "(*WrittenIntervalLinkedList).ReadData"},
	}
	for _, tw := range twins {
		a, b := c.NeedFunc("weed/filesys", tw[0]), c.NeedFunc("weed/filesys", tw[1])
		if a == nil || b == nil {
			continue
		}
		sa, sb := condShapes(a, rename), condShapes(b, rename)
		onlyA, onlyB := diffStrings(sa, sb), diffStrings(sb, sa)
		c.Ob("SIB-intervals", tw[0]+" vs "+tw[1], len(onlyA) == 0 && len(onlyB) == 0 && len(sa) > 0, a.Pos(), fmt.Sprintf("the twins branch on the same %d conditions", len(sa))+ifs(len(onlyA)+len(onlyB) > 0, fmt.Sprintf("; only in the first: %v; only in the second: %v", onlyA, onlyB)))
	}
	// the shortcut that appends to the tail and skips the overlap pass is taken only when there is exactly one list
	// (with several lists the appended range may run into another list, which the overlap pass would have trimmed)
	for _, name := range []string{"(*ContinuousIntervals).AddInterval", "(*WrittenContinuousIntervals).AddInterval"} {
		fn := c.NeedFunc("weed/filesys", name)
		if fn == nil {
			continue
		}
		one := eng.PassEdges(fn, func(cond ssa.Value) (bool, bool) {
			b, ok := cond.(*ssa.BinOp)
			if !ok || (b.Op != token.EQL && b.Op != token.NEQ) {
				return false, false
			}
			k, isK := eng.ConstInt(b.Y)
			call, isCall := b.X.(*ssa.Call)
			if !isK || k != 1 || !isCall || !eng.CalleeIs(call, "builtin.len") || !strings.HasSuffix(eng.FieldSpec(eng.Unwrap(call.Call.Args[0])), ".lists") {
				return false, false
			}
			return true, b.Op == token.EQL
		})
		// early returns: returns reachable without passing the store that installs the rebuilt lists
		rebuilt := eng.StoreToField(strings.TrimSuffix(strings.TrimPrefix(name, "(*"), ").AddInterval") + ".lists")
		var early []ssa.Instruction
		for _, r := range eng.Find(fn, eng.IsReturn) {
			if hit, _ := eng.Search(eng.Entry(fn), eng.Is(r), eng.SearchOpt{Barrier: rebuilt}); hit != nil {
				early = append(early, r)
			}
		}
		if len(early) == 0 || len(one) == 0 {
			c.Undecided("SIB-intervals", eng.FuncName(fn)+" shortcut", fn.Pos(), "tail shortcut / single-list test not found")
			continue
		}
		c.Guard("SIB-intervals", "tail-shortcut-only-with-one-list", fn, eng.Entry(fn), early, one, "the write is appended without the overlap pass only when exactly one list exists")
	}
	// a node cut by a later write keeps the part [nodeStart, nodeStop): its backing position advances by what was cut
	// from its front
	if fn := c.NeedFunc("weed/filesys", "(*WrittenIntervalLinkedList).subList"); fn != nil {
		var tOff, dOff, size []string
		for _, in := range eng.Find(fn, eng.StoreToField("WrittenIntervalNode.TempOffset")) {
			tOff = eng.LinearTerms(in.(*ssa.Store).Val)
		}
		for _, in := range eng.Find(fn, eng.StoreToField("WrittenIntervalNode.DataOffset")) {
			dOff = eng.LinearTerms(in.(*ssa.Store).Val)
		}
		for _, in := range eng.Find(fn, eng.StoreToField("WrittenIntervalNode.Size")) {
			size = eng.LinearTerms(in.(*ssa.Store).Val)
		}
		// position = old position + new start - old start ; size = stop - new start
		want := append([]string{"+.TempOffset", "-.DataOffset"}, dOff...)
		sort.Strings(want)
		okSize := len(dOff) == 1 && len(size) == 2 && diffLen(size, []string{"-" + strings.TrimPrefix(dOff[0], "+")}) == 1
		c.Ob("SIB-intervals", eng.FuncName(fn)+" cut-node-position", len(dOff) == 1 && strings.Join(tOff, " ") == strings.Join(want, " ") && okSize, fn.Pos(), fmt.Sprintf("the cut node's temp-file position is the old position plus what was cut from its front: %v (want %v)", tOff, want))
	}
	if fn := c.NeedFunc("weed/filesys", "subList"); fn != nil {
		var off, size, low, high []string
		for _, in := range eng.Find(fn, eng.StoreToField("IntervalNode.Offset")) {
			off = eng.LinearTerms(in.(*ssa.Store).Val)
		}
		for _, in := range eng.Find(fn, eng.StoreToField("IntervalNode.Size")) {
			size = eng.LinearTerms(in.(*ssa.Store).Val)
		}
		for _, in := range eng.Find(fn, eng.StoreToField("IntervalNode.Data")) {
			if sl, ok := in.(*ssa.Store).Val.(*ssa.Slice); ok && eng.IsField(sl.X, "IntervalNode.Data") {
				low, high = eng.LinearTerms(sl.Low), eng.LinearTerms(sl.High)
			}
		}
		// bytes [start - old offset, stop - old offset) ; size = stop - start
		wantLow := append([]string{"-.Offset"}, off...)
		sort.Strings(wantLow)
		okCut := len(off) == 1 && strings.Join(low, " ") == strings.Join(wantLow, " ") && len(high) == 2 && diffLen(high, []string{"-.Offset"}) == 1
		if okCut {
			stop := diffStrings(high, []string{"-.Offset"})
			wantSize := append([]string{"-" + strings.TrimPrefix(off[0], "+")}, stop...)
			sort.Strings(wantSize)
			okCut = strings.Join(size, " ") == strings.Join(wantSize, " ")
		}
		c.Ob("SIB-intervals", eng.FuncName(fn)+" cut-node-position", okCut, fn.Pos(), fmt.Sprintf("the cut node's bytes are the old bytes from (start - old offset): low=%v high=%v offset=%v size=%v", low, high, off, size))
	}
	c.Expect("SIB-intervals", 10)
	c.Expect("ASYNC-flush", 8)
	c.Expect("ASYNC-save", 14)

	// ---------------------------------------------------------------- (3) GUARD-commit
	if fn := c.NeedFunc("weed/filesys", "(*FileHandle).doFlush"); fn != nil {
		fl := eng.Find(fn, func(in ssa.Instruction) bool {
			call, ok := in.(*ssa.Call)
			return ok && call.Call.IsInvoke() && call.Call.Method.Name() == "FlushData"
		})
		meta := eng.Find(fn, eng.PlainCallTo("filesys.WFS).WithFilerClient"))
		if len(fl) != 1 || len(meta) != 1 {
			c.Undecided("GUARD-commit", eng.FuncName(fn), fn.Pos(), "FlushData / metadata write not found")
		} else {
			c.Guard("GUARD-commit", "metadata-after-data", fn, eng.Entry(fn), meta, eng.PassEdges(fn, eng.ErrNil(eng.ErrOf(fl[0]))), "the entry (with its chunk list) is written only after every buffered page was stored successfully")
			c.ErrChecked("GUARD-commit", "flush-error", fn, fl, "a failed data flush fails the flush")
			c.ErrChecked("GUARD-commit", "metadata-error", fn, meta, "a failed metadata write fails the flush")
			// dirtyMetadata cleared only on success
			clr := eng.Find(fn, func(in ssa.Instruction) bool {
				st, ok := in.(*ssa.Store)
				if !ok || eng.FieldSpec(st.Addr) != "File.dirtyMetadata" {
					return false
				}
				t, isT := eng.ConstBool(st.Val)
				return isT && !t
			})
			c.Guard("GUARD-commit", "dirty-cleared-on-success", fn, eng.Entry(fn), clr, eng.PassEdges(fn, eng.ErrNil(eng.ErrOf(meta[0]))), "the file stops being dirty only when its metadata was written")
		}
		for _, a := range fn.AnonFuncs {
			ce := eng.Find(a, eng.PlainCallTo("filer_pb.CreateEntry"))
			if len(ce) == 1 {
				c.Touch(a)
				c.ErrChecked("GUARD-commit", "create-entry-error", a, ce, "a refused entry write is reported")
			}
		}
	}
	if fn := c.NeedFunc("weed/filesys", "(*FileHandle).Write"); fn != nil {
		addp := eng.Find(fn, func(in ssa.Instruction) bool {
			call, ok := in.(*ssa.Call)
			return ok && call.Call.IsInvoke() && call.Call.Method.Name() == "AddPage"
		})
		okArgs := len(addp) == 1
		if okArgs {
			call := addp[0].(*ssa.Call)
			okArgs = eng.MentionsField(call.Call.Args[0], "WriteRequest.Offset") && (eng.MentionsField(call.Call.Args[1], "WriteRequest.Data") || eng.Mentions(call.Call.Args[1], 6, func(x ssa.Value) bool { _, isMk := x.(*ssa.MakeSlice); return isMk }))
		}
		c.Ob("GUARD-commit", eng.FuncName(fn)+" buffers-request-range", okArgs, fn.Pos(), "the written bytes are buffered at the request's offset")
		dirty := eng.Find(fn, func(in ssa.Instruction) bool {
			st, ok := in.(*ssa.Store)
			if !ok || eng.FieldSpec(st.Addr) != "File.dirtyMetadata" {
				return false
			}
			t, isT := eng.ConstBool(st.Val)
			return isT && t
		})
		okDirty := false
		for _, r := range successReturns(fn) {
			hit, _ := eng.Search(eng.Entry(fn), eng.Is(r), eng.SearchOpt{Barrier: eng.AnyOf(dirty)})
			okDirty = hit == nil && len(dirty) > 0
		}
		c.Ob("GUARD-commit", eng.FuncName(fn)+" marks-dirty", okDirty, fn.Pos(), "every accepted write marks the file's metadata dirty (so the next flush writes the new chunk list)")
		okSize := false
		for _, st := range eng.Find(fn, eng.StoreToField("FuseAttributes.FileSize")) {
			v := st.(*ssa.Store).Val
			if eng.MentionsCall(v, "filesys.max") && eng.MentionsField(v, "WriteRequest.Offset") && eng.MentionsField(v, "FuseAttributes.FileSize") {
				okSize = true
			}
		}
		c.Ob("GUARD-commit", eng.FuncName(fn)+" grows-size", okSize, fn.Pos(), "the file size becomes max(old size, offset + length)")
	}
	c.Expect("GUARD-commit", 8)
}

// condShapes: the multiset of branch conditions of fn, rendered as terms over field names (twins on different
// node types compare equal after renaming their fields).
func condShapes(fn *ssa.Function, rename func(string) string) []string {
	var out []string
	for _, b := range fn.Blocks {
		if iff, ok := b.Instrs[len(b.Instrs)-1].(*ssa.If); ok {
			out = append(out, rename(eng.ExprShape(iff.Cond)))
		}
	}
	sort.Strings(out)
	return out
}

// diffStrings: the elements of a (with multiplicity) that are not in b.
func diffStrings(a, b []string) []string {
	cnt := map[string]int{}
	for _, x := range b {
		cnt[x]++
	}
	var out []string
	for _, x := range a {
		if cnt[x] > 0 {
			cnt[x]--
			continue
		}
		out = append(out, x)
	}
	return out
}

func diffLen(a, b []string) int { return len(diffStrings(a, b)) }
