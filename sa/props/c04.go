package props

import (
	"fmt"
	"go/constant"
	"go/token"
	"go/types"
	"sort"
	"strings"

	"golang.org/x/tools/go/ssa"

	"verif/sa/eng"
)

func init() {
	register(&Prop{
		ID:      "C04",
		Configs: []string{"", tag5},
		Run:     runC04,
		Explanation: "Static decision of the compaction structure: (1) ABS-liveness: the truth table of 'index entry is live' over {offset zero/non-zero} x {size < -1, = -1, = 0, > 0} is computed (by cutting CFG edges under each abstract point) for the reader and for every site that filters or replays index entries during compaction and reload; all must classify like the reader, and loaders must reach a delete action on non-live points; " +
			"(2) SIB-expiry: the TTL-expiry test of the reader and of the two compaction filters consult the same timestamp field and TTL source; (3) ORDER-commit: the compacted files are renamed over the volume only on the success edge of makeupDiff, the index offset / revision snapshot is taken before the copy starts, makeupDiff aborts on a revision mismatch; " +
			"(4) CODEC-idx-literal: literal slice bounds on an index entry in makeupDiff equal the entry's field ranges in both offset-width builds. Byte-identical contents and interleavings of writes with the copy are not decided. Also decided: the leveldb index derived from the old index file is removed before the reload that follows the swap; the replay of entries appended during compaction lets the newest change of a key win (walk direction and the seen-key guard are decided together).",
		Assumptions: []string{"the reference classification is the reader's (readNeedle): what a read would still return"},
		Trusted:     baseTrusted,
	})
}

type absPoint struct {
	offZero bool
	size    int // -2: < -1, -1: tombstone, 0, +1: > 0
}

func (p absPoint) String() string {
	o := "offset!=0"
	if p.offZero {
		o = "offset==0"
	}
	s := map[int]string{-2: "size<-1", -1: "size==-1", 0: "size==0", 1: "size>0"}[p.size]
	return o + "," + s
}

var absPoints = func() []absPoint {
	var out []absPoint
	for _, z := range []bool{false, true} {
		for _, s := range []int{-2, -1, 0, 1} {
			out = append(out, absPoint{z, s})
		}
	}
	return out
}()

func sizeTypeVal(v ssa.Value) bool { return eng.TypeName(v.Type()) == "Size" }

// livenessOracle answers the comparison-only leaves of the liveness predicates.
func livenessOracle(p absPoint, extra func(ssa.Value) (bool, bool)) eng.AbsOracle {
	return func(v ssa.Value) (bool, bool) {
		if extra != nil {
			if r, ok := extra(v); ok {
				return r, true
			}
		}
		switch x := v.(type) {
		case *ssa.Call:
			switch {
			case eng.CalleeIs(x, "types.Offset).IsZero"):
				return p.offZero, true
			case eng.CalleeIs(x, "types.Size).IsValid"):
				return p.size > 0, true
			case eng.CalleeIs(x, "types.Size).IsDeleted"):
				return p.size < 0, true
			}
		case *ssa.BinOp:
			if !sizeTypeVal(x.X) {
				return false, false
			}
			k, ok := eng.ConstInt(x.Y)
			if !ok {
				return false, false
			}
			val := map[int]int64{-2: -5, -1: -1, 0: 0, 1: 7}[p.size]
			switch x.Op {
			case token.EQL:
				return val == k, true
			case token.NEQ:
				return val != k, true
			case token.LSS:
				return val < k, true
			case token.LEQ:
				return val <= k, true
			case token.GTR:
				return val > k, true
			case token.GEQ:
				return val >= k, true
			}
		}
		return false, false
	}
}

func reachTable(fn *ssa.Function, sinks []ssa.Instruction, extra func(ssa.Value) (bool, bool)) map[absPoint]bool {
	out := map[absPoint]bool{}
	for _, p := range absPoints {
		cut := eng.CutUnder(fn, livenessOracle(p, extra))
		hit, _ := eng.Search(eng.Entry(fn), eng.AnyOf(sinks), eng.SearchOpt{Cut: cut})
		out[p] = hit != nil
	}
	return out
}

func tableString(t map[absPoint]bool) string {
	var live []string
	for _, p := range absPoints {
		if t[p] {
			live = append(live, "{"+p.String()+"}")
		}
	}
	sort.Strings(live)
	return strings.Join(live, " ")
}

type liveSite struct {
	name    string
	fn      *ssa.Function
	live    eng.InstrPred // the action taken for a live entry
	del     eng.InstrPred // the action taken for a non-live entry (nil: none required)
	extra   func(ssa.Value) (bool, bool)
	isLoad  bool
	missing string
}

func closureWith(fn *ssa.Function, pred eng.InstrPred) *ssa.Function {
	if fn == nil {
		return nil
	}
	for _, f := range eng.WithAnon(fn) {
		if len(eng.Find(f, pred)) > 0 {
			return f
		}
	}
	return nil
}

func runC04(c *eng.Ctx) {
	P := c.P
	readDeletedFalse := func(v ssa.Value) (bool, bool) {
		if eng.IsField(v, "ReadOption.ReadDeleted") {
			return false, true
		}
		return false, false
	}
	// ---------------- (1) liveness tables
	reader := c.NeedFunc("weed/storage", "(*Volume).readNeedle")
	if reader == nil {
		return
	}
	readData := eng.PlainCallTo("needle.Needle).ReadData")
	ref := reachTable(reader, eng.Find(reader, readData), readDeletedFalse)
	c.Note("reference liveness (readNeedle reaches ReadData): %s", tableString(ref))
	// the reference itself must be sane: nothing live at offset==0 or negative size, something live at size>0
	sane := ref[absPoint{false, 1}] && !ref[absPoint{true, 1}] && !ref[absPoint{false, -1}] && !ref[absPoint{false, -2}]
	c.Ob("ABS-liveness", "reader reference table", sane, reader.Pos(), "the reader serves offset!=0,size>0 and refuses offset==0 and negative sizes; table: "+tableString(ref))

	var sites []liveSite
	add := func(name string, root *ssa.Function, live, del eng.InstrPred, isLoad bool) {
		s := liveSite{name: name, live: live, del: del, isLoad: isLoad}
		s.fn = closureWith(root, live)
		if s.fn == nil {
			s.missing = "live action not found"
		}
		sites = append(sites, s)
	}
	add("doLoading", c.NeedFunc("weed/storage", "doLoading"), eng.PlainCallTo("needle_map.NeedleValueMap).Set"), eng.PlainCallTo("needle_map.NeedleValueMap).Delete"), true)
	add("generateLevelDbFile", c.NeedFunc("weed/storage", "generateLevelDbFile"), eng.PlainCallTo("weed/storage.levelDbWrite"), eng.PlainCallTo("weed/storage.levelDbDelete"), true)
	add("MemDb.LoadFromReaderAt", c.NeedFunc("weed/storage/needle_map", "(*MemDb).LoadFromReaderAt"), eng.PlainCallTo("needle_map.MemDb).Set"), eng.PlainCallTo("needle_map.MemDb).Delete"), true)
	add("MemDb.SaveToIdx", c.NeedFunc("weed/storage/needle_map", "(*MemDb).SaveToIdx"), eng.PlainCallTo("os.File).Write"), nil, false)
	add("copyDataBasedOnIndexFile", c.NeedFunc("weed/storage", "copyDataBasedOnIndexFile"), readData, nil, false)
	add("VolumeFileScanner4Vacuum.VisitNeedle", c.NeedFunc("weed/storage", "(*VolumeFileScanner4Vacuum).VisitNeedle"), eng.PlainCallTo("needle_map.MemDb).Set"), nil, false)
	add("makeupDiff", c.NeedFunc("weed/storage", "(*Volume).makeupDiff"), eng.PlainCallTo("needle.ReadNeedleBlob"), eng.PlainCallTo("needle.Needle).Append"), false)

	for _, s := range sites {
		if s.fn == nil {
			c.Undecided("ABS-liveness", s.name, 0, s.missing)
			continue
		}
		c.Touch(s.fn)
		t := reachTable(s.fn, eng.Find(s.fn, s.live), nil)
		for _, p := range absPoints {
			if p.offZero && s.name == "VolumeFileScanner4Vacuum.VisitNeedle" {
				continue // the scanner compares the stored offset with the scan position instead of testing for zero
			}
			c.Ob("ABS-liveness", fmt.Sprintf("%s %s", s.name, p.String()), t[p] == ref[p], s.fn.Pos(),
				fmt.Sprintf("site treats the entry as live=%v, a read would serve it=%v", t[p], ref[p]))
		}
		if s.del != nil {
			dt := reachTable(s.fn, eng.Find(s.fn, s.del), nil)
			for _, p := range absPoints {
				if t[p] {
					continue
				}
				c.Ob("ABS-liveness-delete", fmt.Sprintf("%s %s", s.name, p.String()), dt[p], s.fn.Pos(), "an entry that is not live is replayed as a deletion (otherwise a deleted needle is resurrected on reload)")
			}
		}
	}
	c.Expect("ABS-liveness", 50)

	// ---------------- (2) expiry predicate siblings
	refExp, _ := expiryFeatures(reader)
	for _, s := range []struct {
		name string
		fn   *ssa.Function
	}{
		{"VolumeFileScanner4Vacuum.VisitNeedle", c.NeedFunc("weed/storage", "(*VolumeFileScanner4Vacuum).VisitNeedle")},
		{"copyDataBasedOnIndexFile", closureWith(c.NeedFunc("weed/storage", "copyDataBasedOnIndexFile"), readData)},
	} {
		if s.fn == nil {
			continue
		}
		f, pos := expiryFeatures(s.fn)
		c.Ob("SIB-expiry", s.name+" vs readNeedle", f == refExp && f != "", pos, fmt.Sprintf("the compaction filter decides expiry from {%s}, a read decides it from {%s}", f, refExp))
	}

	// ---------------- (3) commit ordering
	if fn := c.NeedFunc("weed/storage", "(*Volume).CommitCompact"); fn != nil {
		mk := eng.Find(fn, eng.PlainCallTo("storage.Volume).makeupDiff"))
		ren := eng.Find(fn, eng.PlainCallTo("os.Rename"))
		if len(mk) != 1 || len(ren) < 2 {
			c.Undecided("ORDER-commit", eng.FuncName(fn), fn.Pos(), "makeupDiff / rename calls not found")
		} else {
			c.Guard("ORDER-commit", "rename-after-makeupDiff-ok", fn, eng.Entry(fn), ren, eng.PassEdges(fn, eng.ErrNil(eng.ErrOf(mk[0]))), "the compacted files replace the volume only when the changes made during compaction were replayed successfully")
			// the volume is reloaded after the swap
			c.AfterAll("ORDER-commit", "reload-after-rename", fn, ren[len(ren)-1:], eng.PlainCallTo("storage.Volume).load"), eng.FailEdges(fn, eng.ErrNil(eng.ErrOf(ren[len(ren)-1]))), "the volume is reloaded from the swapped files")
			// under the data file lock
			c.Before("ORDER-commit", "under-lock", fn, eng.CallTo("sync.RWMutex).Lock"), mk, "the swap happens under dataFileAccessLock")
			// the derived on-disk index (leveldb) is discarded before the reload: its freshness test compares
			// modification times, and the renamed index file keeps the time of the compaction, so a kept leveldb
			// would be reused with the offsets of the old data file
			loads := eng.Find(fn, eng.PlainCallTo("storage.Volume).load"))
			drop := func(in ssa.Instruction) bool {
				x, ok := in.(*ssa.Call)
				// a leveldb store is a directory (leveldb.OpenFile), so os.Remove would leave it in place
				if !ok || !eng.CalleeIs(x, "os.RemoveAll") {
					return false
				}
				return eng.Mentions(x.Call.Args[0], 4, func(v ssa.Value) bool { sfx, isS := eng.ConstString(v); return isS && sfx == ".ldb" })
			}
			c.Before("ORDER-commit", "derived-index-dropped-before-reload", fn, drop, loads, "the leveldb needle map derived from the old index is removed before the volume is reloaded from the swapped files")
		}
	}
	snapshotBeforeCopy(c, "ORDER-commit")
	// the compacted copy is written from position 0 of a file created for it: the create truncates whatever an
	// earlier, abandoned compaction left under the same name (the index records offsets counted from the super block)
	if fn := c.NeedFunc("weed/storage/backend", "CreateVolumeFile"); fn != nil {
		var trunc int64
		if pk := c.P.Pkg("weed/storage/backend"); pk != nil {
			for _, imp := range pk.Types.Imports() {
				if imp.Path() == "os" {
					if o, ok := imp.Scope().Lookup("O_TRUNC").(*types.Const); ok {
						trunc, _ = constant.Int64Val(constant.ToInt(o.Val()))
					}
				}
			}
		}
		opens := eng.Find(fn, eng.PlainCallTo("os.OpenFile"))
		if len(opens) == 0 {
			c.Undecided("ORDER-commit", eng.FuncName(fn)+" creates-empty", fn.Pos(), "os.OpenFile not found")
		}
		for i, in := range opens {
			k, ok := eng.ConstInt(eng.Arg(in.(ssa.CallInstruction), 1))
			c.Ob("ORDER-commit", fmt.Sprintf("%s creates-empty#%d", eng.FuncName(fn), i), ok && trunc != 0 && k&trunc != 0, in.Pos(), "a volume file is created truncated (O_TRUNC)")
		}
	}
	if fn := c.NeedFunc("weed/storage", "(*Volume).makeupDiff"); fn != nil {
		revEq := eng.Cmp(func(v ssa.Value) bool { return eng.MentionsCall(v, "weed/storage.fetchCompactRevisionFromDatFile") }, func(v ssa.Value) bool { return eng.IsField(v, "Volume.lastCompactRevision") }, token.EQL)
		returnsNonNilErr(c, "ORDER-commit", "revision-mismatch-aborts", fn, startsOf(eng.FailEdges(fn, revEq)), "a data file that was compacted by someone else meanwhile aborts the commit")
		// the compacted file must be exactly one revision ahead of the file it was made from
		nextRev := func(cond ssa.Value) (bool, bool) {
			b, ok := cond.(*ssa.BinOp)
			if !ok || (b.Op != token.EQL && b.Op != token.NEQ) {
				return false, false
			}
			inc, isInc := b.X.(*ssa.BinOp)
			if !isInc || inc.Op != token.ADD || !eng.MentionsCall(inc.X, "weed/storage.fetchCompactRevisionFromDatFile") || !eng.MentionsCall(b.Y, "weed/storage.fetchCompactRevisionFromDatFile") {
				return false, false
			}
			if k, isK := eng.ConstInt(inc.Y); !isK || k != 1 {
				return false, false
			}
			return true, b.Op == token.EQL
		}
		returnsNonNilErr(c, "ORDER-commit", "new-file-is-next-revision", fn, startsOf(eng.FailEdges(fn, nextRev)), "changes are replayed only onto a compacted file that is exactly one revision ahead of the old one")
		// entries newer than the snapshot are the ones replayed: the loop bound mentions lastCompactIndexOffset
		bound := false
		for _, b := range fn.Blocks {
			if iff, ok := b.Instrs[len(b.Instrs)-1].(*ssa.If); ok && eng.InCycle(b) && eng.MentionsField(iff.Cond, "Volume.lastCompactIndexOffset") {
				bound = true
			}
		}
		c.Ob("ORDER-commit", eng.FuncName(fn)+" replays-entries-after-snapshot", bound, fn.Pos(), "the replay loop is bounded by the index offset recorded when the compaction started")
		newestEntryWins(c, "ORDER-commit", fn)
		// the reload that follows the swap keeps the replayed entries (tombstones replayed with offset 0 included)
		entryJudgedByData(c, "ORDER-commit")

		// ---------------- (4) literal bounds on the index entry
		idSize, _ := namedConst(P, "weed/storage/types", "NeedleIdSize")
		offSize, _ := namedConst(P, "weed/storage/types", "OffsetSize")
		n := 0
		for _, in := range eng.Find(fn, func(in ssa.Instruction) bool { _, ok := in.(*ssa.Slice); return ok }) {
			s := in.(*ssa.Slice)
			if !eng.MentionsCall(s.X, "needle_map.ToBytes") || s.Low == nil || s.High == nil {
				continue
			}
			lo, ok1 := eng.ConstInt(s.Low)
			hi, ok2 := eng.ConstInt(s.High)
			if !ok1 || !ok2 {
				continue
			}
			n++
			c.Ob("CODEC-idx-literal", fmt.Sprintf("%s entry-slice#%d", eng.FuncName(fn), n), lo == idSize && hi == idSize+offSize, s.Pos(),
				fmt.Sprintf("the offset field of an index entry is bytes [%d:%d] in this build; the code patches [%d:%d]", idSize, idSize+offSize, lo, hi))
		}
	}
}

// expiryFeatures names the needle/volume fields the clock-dependent (TTL expiry) branches of fn consult.
func expiryFeatures(fn *ssa.Function) (string, token.Pos) {
	set := map[string]bool{}
	var pos token.Pos
	for _, b := range fn.Blocks {
		iff, ok := b.Instrs[len(b.Instrs)-1].(*ssa.If)
		if !ok {
			continue
		}
		// conditions that involve the clock
		usesNow := eng.Mentions(iff.Cond, 8, func(v ssa.Value) bool {
			if call, ok := v.(*ssa.Call); ok && eng.CalleeIs(call, "time.Now", "time.Time).Before", "time.Time).After") {
				return true
			}
			if fv, ok := v.(*ssa.FreeVar); ok && fv.Name() == "now" {
				return true
			}
			return eng.IsField(v, "VolumeFileScanner4Vacuum.now")
		})
		if !usesNow {
			continue
		}
		pos = iff.Pos()
		eng.Walk(iff.Cond, 10, func(v ssa.Value) bool {
			switch f := eng.FieldSpec(v); f {
			case "Needle.AppendAtNs", "Needle.LastModified", "Needle.Ttl", "Volume.Ttl", "SuperBlock.Ttl":
				if f == "Volume.Ttl" || f == "SuperBlock.Ttl" {
					f = "volume TTL"
				}
				set[f] = true
			}
			return true
		})
		// the TTL minutes used in the comparison may have been computed before the branch
		eng.Walk(iff.Cond, 10, func(v ssa.Value) bool {
			if call, ok := v.(*ssa.Call); ok && eng.CalleeIs(call, "needle.TTL).Minutes") {
				eng.Walk(call.Call.Args[0], 6, func(w ssa.Value) bool {
					switch f := eng.FieldSpec(w); f {
					case "Needle.Ttl":
						set[f] = true
					case "Volume.Ttl", "SuperBlock.Ttl":
						set["volume TTL"] = true
					}
					return true
				})
			}
			return true
		})
	}
	var ks []string
	for k := range set {
		ks = append(ks, k)
	}
	sort.Strings(ks)
	return strings.Join(ks, "+"), pos
}

// newestEntryWins decides, for the replay of the index entries appended during a compaction (makeupDiff), that the
// newest change of a key wins: walking from the newest entry to the oldest an entry is recorded only for keys not
// seen yet; walking from the oldest to the newest every entry overwrites.
func newestEntryWins(c *eng.Ctx, rule string, fn *ssa.Function) {
	// the newest entry per key wins: walking backwards, a key already seen is not overwritten
	if mu := eng.Find(fn, func(in ssa.Instruction) bool { _, ok := in.(*ssa.MapUpdate); return ok }); len(mu) > 0 {
		notFound := eng.BoolVal(false, func(v ssa.Value) bool {
			ex, ok := v.(*ssa.Extract)
			if !ok || ex.Index != 1 {
				return false
			}
			_, isLookup := ex.Tuple.(*ssa.Lookup)
			return isLookup
		})
		// the newest change of a key wins: walking from the newest entry to the oldest an entry is recorded only
		// for keys not seen yet; walking from the oldest to the newest every entry overwrites
		guarded := true
		for _, m := range mu {
			if hit, _ := eng.Search(eng.Entry(fn), eng.Is(m), eng.SearchOpt{Cut: eng.PassEdges(fn, notFound)}); hit != nil {
				guarded = false
			}
		}
		backwards, forwards := false, false
		for _, rd := range eng.Find(fn, eng.PlainCallTo("weed/storage.readIndexEntryAtOffset")) {
			if len(eng.CycleOf(rd.Block())) == 0 {
				continue
			}
			if phi, ok := eng.Arg(rd.(*ssa.Call), 1).(*ssa.Phi); ok {
				for i, ev := range phi.Edges {
					if !phi.Block().Dominates(phi.Block().Preds[i]) {
						continue
					}
					if step, isB := ev.(*ssa.BinOp); isB && step.X == ssa.Value(phi) {
						backwards = backwards || step.Op == token.SUB
						forwards = forwards || step.Op == token.ADD
					}
				}
			}
		}
		okNewest := (backwards && !forwards && guarded) || (forwards && !backwards && !guarded && len(eng.PassEdges(fn, notFound)) == 0)
		dir := "an undetermined direction"
		if backwards && !forwards {
			dir = "newest to oldest"
		} else if forwards && !backwards {
			dir = "oldest to newest"
		}
		c.Ob(rule, eng.FuncName(fn)+" newest-entry-wins", okNewest, fn.Pos(), fmt.Sprintf("the newest change of a key made during the compaction wins (walk: %s; recorded only for unseen keys: %v)", dir, guarded))
	}

}

// snapshotBeforeCopy: the index size and revision a compaction starts from are recorded before the copy starts; the
// commit replays exactly the index entries behind that snapshot, so a snapshot taken later loses the writes and deletes
// that arrive while the copy runs.
func snapshotBeforeCopy(c *eng.Ctx, rule string) {
	for _, name := range []string{"(*Volume).Compact", "(*Volume).Compact2"} {
		fn := c.NeedFunc("weed/storage", name)
		if fn == nil {
			continue
		}
		copyCall := eng.Find(fn, eng.PlainCallTo("storage.Volume).copyDataAndGenerateIndexFile", "weed/storage.copyDataBasedOnIndexFile"))
		if len(copyCall) == 0 {
			c.Undecided(rule, eng.FuncName(fn), fn.Pos(), "copy call not found")
			continue
		}
		c.Before(rule, "snapshot-index-offset", fn, eng.StoreToField("Volume.lastCompactIndexOffset"), copyCall, "the index size at the start of the compaction is recorded before the copy starts")
		c.Before(rule, "snapshot-revision", fn, eng.StoreToField("Volume.lastCompactRevision"), copyCall, "the compaction revision at the start is recorded before the copy starts")
	}
}
