package props

import (
	"fmt"
	"go/ast"
	"go/constant"
	"go/token"
	"go/types"
	"strings"

	"golang.org/x/tools/go/packages"
	"golang.org/x/tools/go/ssa"

	"verif/sa/eng"
)

func init() {
	register(&Prop{
		ID:  "C02",
		Run: runC02,
		Explanation: "Static decision of writer/reader agreement of the needle record: (1) CODEC-needle: the ordered list of (flag condition, width) records written by prepareWriteBuffer (version 2/3 body) equals the list consumed by readNeedleDataVersion2, and equals the per-flag contributions to n.Size; " +
			"(2) SIB-bounds: all bounds checks of the reader use the same comparator; (3) ABS-trailer: every site that adds/reads the append timestamp (writer, NeedleBodyLength, PaddingLength, ReadBytes, ReadNeedleBodyBytes, WriteNeedleBlob, verifyNeedleIntegrity) does so for exactly the version set {3} (truth table over versions 1..3); " +
			"(4) GUARD-crc: ReadBytes returns success for size > 0 only past stored-checksum == computed-checksum; (5) PROV-scan: the volume scanner advances by NeedleHeaderSize + the body length of the same header it just read and visits once per header. Padding arithmetic and values are not decided; an unrecognised writer/reader shape is reported undecided.",
		Assumptions: []string{"the extractor recognises the present shape: sequential buffer writes under if n.HasX() / cursor advances under if index<len && n.HasX()"},
		Trusted:     baseTrusted,
	})
}

type recItem struct {
	Cond  string // "" or HasName / HasMime / ...
	Width string // decimal constant or "var:<field>"
}

func (r recItem) String() string { return fmt.Sprintf("(%s,%s)", r.Cond, r.Width) }

func hasCond(e ast.Expr) string {
	// finds a call n.HasX() inside the condition
	found := ""
	ast.Inspect(e, func(n ast.Node) bool {
		if call, ok := n.(*ast.CallExpr); ok {
			if sel, ok := call.Fun.(*ast.SelectorExpr); ok && strings.HasPrefix(sel.Sel.Name, "Has") {
				found = sel.Sel.Name
			}
		}
		return true
	})
	return found
}

// hasCondStrict is hasCond for the writer: see below.
func hasCondStrict(e ast.Expr) string {
	found := hasCond(e)
	if found != "" {
		// a flagged field is written (and counted in the size) whenever its flag is set: the only other conjunct the
		// writer may add is a nil-pointer guard; any further condition makes the bytes written differ from the size
		// computed from the flags alone
		for _, cj := range conjuncts(e) {
			switch x := cj.(type) {
			case *ast.CallExpr:
				if sel, ok := x.Fun.(*ast.SelectorExpr); ok && strings.HasPrefix(sel.Sel.Name, "Has") {
					continue
				}
			case *ast.BinaryExpr:
				if id, ok := x.Y.(*ast.Ident); ok && id.Name == "nil" && x.Op == token.NEQ {
					continue
				}
			}
			return found + "+extra-condition"
		}
	}
	return found
}

func conjuncts(e ast.Expr) []ast.Expr {
	if p, ok := e.(*ast.ParenExpr); ok {
		return conjuncts(p.X)
	}
	if b, ok := e.(*ast.BinaryExpr); ok && b.Op == token.LAND {
		return append(conjuncts(b.X), conjuncts(b.Y)...)
	}
	return []ast.Expr{e}
}

func sizeVarOf(name string) string {
	switch name {
	case "Data", "DataSize":
		return "var:Data"
	case "Name", "NameSize":
		return "var:Name"
	case "Mime", "MimeSize":
		return "var:Mime"
	case "Pairs", "PairsSize":
		return "var:Pairs"
	}
	return "var:" + name
}

// widthOfSliceArg: header[a:b] -> b-a ; n.Field / n.Field[:x] -> var:Field
func widthOfArg(pk *packages.Package, e ast.Expr) string {
	switch x := e.(type) {
	case *ast.SliceExpr:
		if id, ok := x.X.(*ast.Ident); ok && id.Name == "header" {
			lo := constant.MakeInt64(0)
			if x.Low != nil {
				if v, ok := constOf(pk, x.Low); ok {
					lo = v
				} else {
					return "?"
				}
			}
			hi, ok := constOf(pk, x.High)
			if !ok {
				return "?"
			}
			return constant.BinaryOp(hi, token.SUB, lo).ExactString()
		}
		return widthOfArg(pk, x.X)
	case *ast.SelectorExpr:
		return sizeVarOf(x.Sel.Name)
	}
	return "?"
}

func writerRecords(pk *packages.Package, body []ast.Stmt, cond string, out *[]recItem) {
	for _, st := range body {
		switch s := st.(type) {
		case *ast.ExprStmt:
			if call, ok := s.X.(*ast.CallExpr); ok {
				if sel, ok := call.Fun.(*ast.SelectorExpr); ok && sel.Sel.Name == "Write" && len(call.Args) == 1 {
					*out = append(*out, recItem{cond, widthOfArg(pk, call.Args[0])})
				}
			}
		case *ast.IfStmt:
			c := hasCondStrict(s.Cond)
			if c == "" {
				c = cond
			}
			writerRecords(pk, s.Body.List, c, out)
		}
	}
}

// readerRecords: cursor advances `index = index + K` / `index += K` / `index = end`
func readerRecords(pk *packages.Package, body []ast.Stmt, cond string, out *[]recItem) {
	for _, st := range body {
		switch s := st.(type) {
		case *ast.AssignStmt:
			if len(s.Lhs) != 1 || len(s.Rhs) != 1 {
				continue
			}
			id, ok := s.Lhs[0].(*ast.Ident)
			if !ok || id.Name != "index" {
				continue
			}
			var inc ast.Expr
			if s.Tok == token.ADD_ASSIGN {
				inc = s.Rhs[0]
			} else if be, ok := s.Rhs[0].(*ast.BinaryExpr); ok && be.Op == token.ADD {
				if l, ok := be.X.(*ast.Ident); ok && l.Name == "index" {
					inc = be.Y
				}
			} else if r, ok := s.Rhs[0].(*ast.Ident); ok && r.Name == "end" {
				*out = append(*out, recItem{cond, "var:Pairs"})
				continue
			}
			if inc == nil {
				continue
			}
			if v, ok := constOf(pk, inc); ok {
				*out = append(*out, recItem{cond, v.ExactString()})
				continue
			}
			name := ""
			ast.Inspect(inc, func(n ast.Node) bool {
				if sel, ok := n.(*ast.SelectorExpr); ok {
					name = sel.Sel.Name
				}
				return true
			})
			*out = append(*out, recItem{cond, sizeVarOf(name)})
		case *ast.IfStmt:
			c := hasCond(s.Cond)
			if c == "" {
				c = cond
			}
			// bounds checks inside (if X > lenBytes {return}) contain no cursor advance
			readerRecords(pk, s.Body.List, c, out)
		}
	}
}

func caseClauseFor(pk *packages.Package, fd *ast.FuncDecl, constName string) *ast.CaseClause {
	var res *ast.CaseClause
	ast.Inspect(fd.Body, func(n ast.Node) bool {
		cc, ok := n.(*ast.CaseClause)
		if !ok || res != nil {
			return true
		}
		for _, e := range cc.List {
			if id, ok := e.(*ast.Ident); ok && id.Name == constName {
				res = cc
			}
		}
		return true
	})
	return res
}

// versionSet evaluates for which versions in {1,2,3} the node at `target` is reached, looking only at
// conditions on the identifier `version`/`v` compared with constants and enclosing case clauses.
func versionSet(pk *packages.Package, fd *ast.FuncDecl, target ast.Node, verIdent string) (map[int64]bool, bool) {
	set := map[int64]bool{1: true, 2: true, 3: true}
	ok := true
	var path []ast.Node
	var found []ast.Node
	ast.Inspect(fd, func(n ast.Node) bool {
		if n == nil {
			path = path[:len(path)-1]
			return true
		}
		path = append(path, n)
		if n == target && found == nil {
			found = append([]ast.Node{}, path...)
		}
		return true
	})
	if found == nil {
		return nil, false
	}
	evalCond := func(e ast.Expr, v int64) (bool, bool) {
		be, isB := e.(*ast.BinaryExpr)
		if !isB {
			return false, false
		}
		id, isId := be.X.(*ast.Ident)
		if !isId || id.Name != verIdent {
			return false, false
		}
		cv, isC := constOf(pk, be.Y)
		if !isC {
			return false, false
		}
		k, _ := constant.Int64Val(constant.ToInt(cv))
		switch be.Op {
		case token.EQL:
			return v == k, true
		case token.NEQ:
			return v != k, true
		}
		return false, false
	}
	for i, n := range found {
		switch x := n.(type) {
		case *ast.IfStmt:
			if i+1 >= len(found) {
				continue
			}
			child := found[i+1]
			for v := range set {
				r, known := evalCond(x.Cond, v)
				if !known {
					continue
				}
				if child == ast.Node(x.Body) && !r {
					delete(set, v)
				}
				if x.Else != nil && child == x.Else && r {
					delete(set, v)
				}
			}
		case *ast.CaseClause:
			// enclosing switch on the version identifier?
			if len(x.List) == 0 {
				continue
			}
			if i >= 2 {
				if sw, isSw := found[i-2].(*ast.SwitchStmt); isSw {
					if id, isId := sw.Tag.(*ast.Ident); isId && id.Name == verIdent {
						allowed := map[int64]bool{}
						for _, e := range x.List {
							if cv, isC := constOf(pk, e); isC {
								k, _ := constant.Int64Val(constant.ToInt(cv))
								allowed[k] = true
							} else {
								ok = false
							}
						}
						for v := range set {
							if !allowed[v] {
								delete(set, v)
							}
						}
					}
				}
			}
		}
	}
	return set, ok
}

func runC02(c *eng.Ctx) {
	P := c.P
	pk := P.Pkg("weed/storage/needle")
	// ---------------- (1) record layout
	wfd, _ := P.FuncDecl("weed/storage/needle", "(*Needle).prepareWriteBuffer")
	rfd, _ := P.FuncDecl("weed/storage/needle", "(*Needle).readNeedleDataVersion2")
	if wfd == nil || rfd == nil || pk == nil {
		c.Undecided("CODEC-needle", "anchors", token.NoPos, "prepareWriteBuffer / readNeedleDataVersion2 not found")
	} else {
		cc := caseClauseFor(pk, wfd, "Version3")
		var wrec, srec []recItem
		if cc == nil {
			c.Undecided("CODEC-needle", "writer case Version2/3", wfd.Pos(), "case clause not found")
		} else {
			// the data section: the if n.DataSize > 0 {...} statements that contain Write calls / Size assignments
			for _, st := range cc.Body {
				iff, ok := st.(*ast.IfStmt)
				if !ok {
					continue
				}
				be, ok := iff.Cond.(*ast.BinaryExpr)
				if !ok {
					continue
				}
				if sel, ok := be.X.(*ast.SelectorExpr); !ok || sel.Sel.Name != "DataSize" {
					continue
				}
				var tmp []recItem
				writerRecords(pk, iff.Body.List, "", &tmp)
				if len(tmp) > 0 {
					wrec = tmp
				}
				sizeRecords(pk, iff.Body.List, "", &srec)
			}
		}
		var rrec []recItem
		readerRecords(pk, rfd.Body.List, "", &rrec)
		ws, rs := fmt.Sprint(wrec), fmt.Sprint(rrec)
		c.Ob("CODEC-needle", "writer-records == reader-records", ws == rs && len(wrec) >= 11, wfd.Pos(), fmt.Sprintf("writer %s reader %s", ws, rs))
		// per-condition aggregate of the writer equals the Size contributions
		agg := func(recs []recItem) map[string]string {
			m := map[string]string{}
			order := []string{}
			for _, r := range recs {
				if _, ok := m[r.Cond]; !ok {
					order = append(order, r.Cond)
				}
				m[r.Cond] += r.Width + ";"
			}
			_ = order
			return m
		}
		wa, sa := agg(wrec), agg(srec)
		for _, cond := range []string{"", "HasName", "HasMime", "HasLastModifiedDate", "HasTtl", "HasPairs"} {
			c.Ob("CODEC-needle", "size-contribution "+cond, normWidths(wa[cond]) == normWidths(sa[cond]) && wa[cond] != "", wfd.Pos(),
				fmt.Sprintf("bytes written under %q: %s ; added to n.Size: %s", cond, normWidths(wa[cond]), normWidths(sa[cond])))
		}
	}

	// ---------------- (2) reader bounds checks agree
	if rfd != nil {
		ops := map[string]int{}
		ast.Inspect(rfd.Body, func(n ast.Node) bool {
			iff, ok := n.(*ast.IfStmt)
			if !ok {
				return true
			}
			be, ok := iff.Cond.(*ast.BinaryExpr)
			if !ok {
				return true
			}
			if id, ok := be.Y.(*ast.Ident); ok && id.Name == "lenBytes" {
				if _, isAdd := be.X.(*ast.BinaryExpr); isAdd {
					ops[be.Op.String()]++
				}
			}
			return true
		})
		total := 0
		for _, n := range ops {
			total += n
		}
		c.Ob("SIB-bounds", "readNeedleDataVersion2 bounds comparators", len(ops) == 1 && ops[">"] == total && total >= 6, rfd.Pos(), fmt.Sprintf("every field's bounds check is `offset+width > len` (found %v)", ops))
	}

	// ---------------- (3) timestamp version set
	type tsSite struct{ pkg, fn, ver string }
	for _, s := range []tsSite{
		{"weed/storage/needle", "(*Needle).prepareWriteBuffer", "version"},
		{"weed/storage/needle", "NeedleBodyLength", "version"},
		{"weed/storage/needle", "PaddingLength", "version"},
		{"weed/storage/needle", "(*Needle).ReadBytes", "version"},
		{"weed/storage/needle", "(*Needle).ReadNeedleBodyBytes", "version"},
		{"weed/storage/needle", "WriteNeedleBlob", "version"},
		{"weed/storage", "verifyNeedleIntegrity", "v"},
	} {
		fd, spk := P.FuncDecl(s.pkg, s.fn)
		if fd == nil {
			c.Undecided("ABS-trailer", s.fn, token.NoPos, "anchor not found")
			continue
		}
		n := 0
		ast.Inspect(fd.Body, func(node ast.Node) bool {
			id, ok := node.(*ast.Ident)
			if !ok || id.Name != "TimestampSize" {
				return true
			}
			// skip the buffer allocation `make([]byte, NeedleHeaderSize+TimestampSize)` which is version independent
			set, ok2 := versionSet(spk, fd, node, s.ver)
			if !ok2 {
				return true
			}
			if insideMake(fd, node) && len(set) > 1 {
				return true
			}
			if len(set) == 3 {
				return true // unconditional use (buffer sizing / comment)
			}
			n++
			want := len(set) == 1 && set[3]
			c.Ob("ABS-trailer", fmt.Sprintf("%s.%s timestamp-use#%d", s.pkg, s.fn, n), want, node.Pos(), fmt.Sprintf("the append timestamp is part of the record exactly for version 3; this site applies it for versions %v", keysOf(set)))
			return true
		})
		if n == 0 {
			c.Ob("ABS-trailer", s.pkg+"."+s.fn+" timestamp-use", false, fd.Pos(), "no version-conditional use of TimestampSize found")
		}
	}

	// ---------------- (4) CRC guard
	if fn := c.NeedFunc("weed/storage/needle", "(*Needle).ReadBytes"); fn != nil {
		crcEq := eng.Cmp(func(v ssa.Value) bool { return eng.MentionsCall(v, "util.BytesToUint32") }, func(v ssa.Value) bool { return eng.MentionsCall(v, "needle.NewCRC") }, token.EQL)
		sizePos := eng.Cmp(func(v ssa.Value) bool { return eng.IsParam(v, "size") }, func(v ssa.Value) bool { k, ok := eng.ConstInt(v); return ok && k == 0 }, token.GTR)
		var succ []ssa.Instruction
		for _, r := range eng.Find(fn, eng.IsReturn) {
			if eng.ReturnMaySucceed(fn, r.(*ssa.Return)) {
				succ = append(succ, r)
			}
		}
		cut := eng.MergeEdges(eng.PassEdges(fn, crcEq), eng.FailEdges(fn, sizePos))
		if len(eng.PassEdges(fn, crcEq)) == 0 {
			cut = nil
		}
		c.Guard("GUARD-crc", "success-return", fn, eng.Entry(fn), succ, cut, "for size > 0 the record is returned only when the stored checksum equals the checksum of the data read")
		sizeEq := eng.Cmp(func(v ssa.Value) bool { return eng.IsField(v, "Needle.Size") }, func(v ssa.Value) bool { return eng.IsParam(v, "size") }, token.EQL)
		c.Guard("GUARD-crc", "size-matches-index", fn, eng.Entry(fn), succ, eng.PassEdges(fn, sizeEq), "the record is returned only when its header size equals the size recorded in the index")
	}

	// ---------------- (4b) the padding of a record is computed from the size recorded in its header
	{
		for _, spec := range [][2]string{{"weed/storage/needle", "(*Needle).prepareWriteBuffer"}, {"weed/storage/needle", "(*Needle).ReadBytes"}, {"weed/storage", "(*Volume).StreamWrite"}} {
			fn := c.NeedFunc(spec[0], spec[1])
			if fn == nil {
				continue
			}
			n := 0
			for _, in := range eng.Find(fn, eng.PlainCallTo("needle.PaddingLength")) {
				call := in.(*ssa.Call)
				ok := true
				vals := eng.ResolveFrom(eng.Arg(call, 0), call)
				for _, v := range vals {
					if !eng.IsField(eng.Unwrap(v), "Needle.Size") {
						ok = false
					}
				}
				n++
				c.Ob("PROV-padding", fmt.Sprintf("%s padding#%d", eng.FuncName(fn), n), ok && len(vals) > 0, call.Pos(),
					"the padding written or skipped after a record is computed from the size stored in the record's header (Needle.Size), the value the reader aligns on")
			}
		}
		c.Expect("PROV-padding", 3)
		if fn := c.NeedFunc("weed/storage/needle", "NeedleBodyLength"); fn != nil {
			calls := eng.Find(fn, eng.PlainCallTo("needle.PaddingLength"))
			for i, in := range calls {
				c.Ob("PROV-padding", fmt.Sprintf("NeedleBodyLength padding#%d", i), eng.IsParam(eng.Unwrap(eng.Arg(in.(*ssa.Call), 0)), "needleSize"), in.Pos(),
					"the body length aligns on the same size it is given")
			}
		}
	}

	// ---------------- (4c) the checksum a writer stores is the checksum of the final data
	for _, spec := range [][2]string{{"weed/storage/needle", "CreateNeedleFromRequest"}, {"weed/storage/needle", "(*Needle).ReadNeedleBodyBytes"}} {
		fn := c.NeedFunc(spec[0], spec[1])
		if fn == nil {
			continue
		}
		crcOfData := func(in ssa.Instruction) bool {
			st, ok := in.(*ssa.Store)
			if !ok || !eng.IsField(st.Addr, "Needle.Checksum") {
				return false
			}
			call, isCall := eng.Unwrap(st.Val).(*ssa.Call)
			return isCall && eng.CalleeIs(call, "needle.NewCRC") && eng.IsField(eng.Unwrap(eng.Arg(call, 0)), "Needle.Data")
		}
		stores := eng.Find(fn, eng.StoreToField("Needle.Data"))
		c.AfterAll("ORDER-checksum", "data-then-checksum", fn, stores, crcOfData, nil,
			"after the last assignment of the record's data the checksum is recomputed from that data, so the stored checksum is the checksum of the bytes written")
	}
	c.Expect("ORDER-checksum", 3)

	// ---------------- (5) scanner
	if fn := c.NeedFunc("weed/storage", "ScanVolumeFileFrom"); fn != nil {
		hdrSize, _ := namedConst(P, "weed/storage/types", "NeedleHeaderSize")
		// offset += NeedleHeaderSize + rest, rest from ReadNeedleHeader
		okInc := false
		for _, in := range eng.Find(fn, func(in ssa.Instruction) bool { b, ok := in.(*ssa.BinOp); return ok && b.Op == token.ADD }) {
			b := in.(*ssa.BinOp)
			if _, isPhi := b.X.(*ssa.Phi); !isPhi {
				continue
			}
			// b.Y = hdrSize + rest
			if y, ok := b.Y.(*ssa.BinOp); ok && y.Op == token.ADD {
				k, isC := eng.ConstInt(y.X)
				if isC && k == hdrSize && restOfHeaderRead(y.Y) {
					okInc = true
				}
			}
		}
		c.Ob("PROV-scan", eng.FuncName(fn)+" stride", okInc, fn.Pos(), "the scanner advances by NeedleHeaderSize + the body length returned by the same ReadNeedleHeader")
		// one visit per header read: between two header reads exactly... every loop iteration calls VisitNeedle once
		visits := eng.Find(fn, eng.PlainCallTo("storage.VolumeFileScanner).VisitNeedle"))
		c.Ob("PROV-scan", eng.FuncName(fn)+" one-visit", len(visits) == 1 && eng.InCycle(visits[0].Block()), fn.Pos(), "each record header read is followed by exactly one visit")
		c.ErrChecked("ERR-scan", "visit", fn, visits, "a visitor error stops the scan")
		c.ErrChecked("ERR-scan", "header", fn, eng.Find(fn, eng.PlainCallTo("needle.ReadNeedleHeader")), "a record header that cannot be read ends the scan with an error (end of file is the only clean stop)")
	}
}

func restOfHeaderRead(v ssa.Value) bool {
	ok := false
	for _, x := range eng.Resolve(v) {
		if ex, isEx := x.(*ssa.Extract); isEx && ex.Index == 2 {
			if call, isC := ex.Tuple.(*ssa.Call); isC && eng.CalleeIs(call, "needle.ReadNeedleHeader") {
				ok = true
				continue
			}
		}
		return false
	}
	return ok
}

func keysOf(m map[int64]bool) []int64 {
	var out []int64
	for _, k := range []int64{1, 2, 3} {
		if m[k] {
			out = append(out, k)
		}
	}
	return out
}

// sizeRecords collects the contributions to n.Size: `n.Size = 4 + Size(n.DataSize) + 1`, `n.Size = n.Size + 1 + Size(n.NameSize)`, `n.Size += 2 + ...`.
func sizeRecords(pk *packages.Package, body []ast.Stmt, cond string, out *[]recItem) {
	for _, st := range body {
		switch s := st.(type) {
		case *ast.AssignStmt:
			if len(s.Lhs) != 1 {
				continue
			}
			sel, ok := s.Lhs[0].(*ast.SelectorExpr)
			if !ok || sel.Sel.Name != "Size" {
				continue
			}
			// flatten the sum
			var terms []ast.Expr
			var flat func(e ast.Expr)
			flat = func(e ast.Expr) {
				if be, ok := e.(*ast.BinaryExpr); ok && be.Op == token.ADD {
					flat(be.X)
					flat(be.Y)
					return
				}
				terms = append(terms, e)
			}
			flat(s.Rhs[0])
			for _, t := range terms {
				if v, ok := constOf(pk, t); ok {
					*out = append(*out, recItem{cond, v.ExactString()})
					continue
				}
				name := ""
				ast.Inspect(t, func(n ast.Node) bool {
					if se, ok := n.(*ast.SelectorExpr); ok {
						if _, isPkg := pk.TypesInfo.Uses[se.Sel].(*types.TypeName); !isPkg {
							name = se.Sel.Name
						}
					}
					return true
				})
				if name == "Size" || name == "" {
					continue // n.Size itself
				}
				*out = append(*out, recItem{cond, sizeVarOf(name)})
			}
		case *ast.IfStmt:
			c := hasCond(s.Cond)
			if c == "" {
				c = cond
			}
			sizeRecords(pk, s.Body.List, c, out)
		}
	}
}

// normWidths sums the constant widths and sorts the variable parts: "4;var:Data;1;" -> "5+var:Data"
func normWidths(s string) string {
	sum := int64(0)
	var vars []string
	for _, p := range strings.Split(s, ";") {
		if p == "" {
			continue
		}
		if strings.HasPrefix(p, "var:") {
			vars = append(vars, p)
			continue
		}
		var k int64
		fmt.Sscan(p, &k)
		sum += k
	}
	return fmt.Sprintf("%d+%s", sum, strings.Join(vars, "+"))
}

func insideMake(fd *ast.FuncDecl, target ast.Node) bool {
	res := false
	var path []ast.Node
	ast.Inspect(fd, func(n ast.Node) bool {
		if n == nil {
			path = path[:len(path)-1]
			return true
		}
		path = append(path, n)
		if n == target {
			for _, p := range path {
				if call, ok := p.(*ast.CallExpr); ok {
					if id, ok := call.Fun.(*ast.Ident); ok && id.Name == "make" {
						res = true
					}
				}
			}
		}
		return true
	})
	return res
}
