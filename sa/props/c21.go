package props

import (
	"fmt"
	"go/token"
	"sort"
	"strings"

	"golang.org/x/tools/go/ssa"

	"verif/sa/eng"
)

func init() {
	register(&Prop{
		ID:  "C21",
		Run: runC21,
		Explanation: "Static decision of the hard-link plumbing: (1) FIELDS-clone: every filer.Entry literal that copies two or more fields from another entry copies all of Attr, Extended, Chunks, HardLinkId, HardLinkCounter, Content, Remote (module-wide); " +
			"(2) the store wrapper's InsertEntry/UpdateEntry run handleUpdateToHardLinks before the store call and stop on its error; DeleteEntry/DeleteOneEntry decrement through DeleteHardLink before deleting a name that carries a link id; handleUpdateToHardLinks releases the *existing* entry's identity when a name is overwritten by another identity; " +
			"(3) every wrapper read path (FindEntry, ListDirectoryEntries, ListDirectoryPrefixedEntries native and fallback) hands entries to the caller only through maybeReadHardLink + AfterEntryDeserialization; (4) DeleteHardLink removes the shared record only on counter <= 0 and rewrites it otherwise. Counter arithmetic over histories is not decided. Also decided: identities collected in sub-directories reach the enclosing level of a recursive delete, each collected occurrence is released once, and a plain entry written over a hard-linked name still releases the displaced identity.",
		Assumptions: []string{"hard-link identity = Entry.HardLinkId; the KV record is the shared state"},
		Trusted:     baseTrusted,
	})
}

var entryCloneFields = []string{"Attr", "Extended", "Chunks", "HardLinkId", "HardLinkCounter", "Content", "Remote"}

func runC21(c *eng.Ctx) {
	P := c.P
	// (1) clone literals
	lits := P.FindCloneLits("weed/filer", "Entry", 2)
	ord := map[string]int{}
	for _, l := range lits {
		ord[l.Func]++
		var missing []string
		for _, f := range entryCloneFields {
			if !l.Present[f] {
				missing = append(missing, f)
			}
		}
		sort.Strings(missing)
		c.Ob("FIELDS-entry-clone", fmt.Sprintf("%s literal#%d from %s", l.Func, ord[l.Func], l.Source), len(missing) == 0, l.Pos,
			"an entry cloned from another entry carries every field; missing: "+strings.Join(missing, ","))
	}
	c.Sites += len(lits)
	c.Note("entry clone literals found: %d", len(lits))
	c.Expect("FIELDS-entry-clone", 1)

	// (2) write paths of the wrapper
	for _, m := range []struct{ name, store string }{{"InsertEntry", "filer.FilerStore).InsertEntry"}, {"UpdateEntry", "filer.FilerStore).UpdateEntry"}} {
		fn := c.NeedFunc("weed/filer", "(*FilerStoreWrapper)."+m.name)
		if fn == nil {
			continue
		}
		h := eng.Find(fn, eng.PlainCallTo("filer.FilerStoreWrapper).handleUpdateToHardLinks"))
		st := eng.Find(fn, eng.PlainCallTo(m.store))
		if len(h) != 1 || len(st) == 0 {
			c.Ob("SIB-hardlink-write", eng.FuncName(fn)+" handle-before-store", false, fn.Pos(), "handleUpdateToHardLinks / store call not found")
			continue
		}
		c.Guard("SIB-hardlink-write", "handle-before-store", fn, eng.Entry(fn), st, eng.PassEdges(fn, eng.ErrNil(eng.ErrOf(h[0]))), "the shared record is updated (and its error checked) before the name is written")
	}
	for _, name := range []string{"DeleteEntry", "DeleteOneEntry"} {
		fn := c.NeedFunc("weed/filer", "(*FilerStoreWrapper)."+name)
		if fn == nil {
			continue
		}
		dh := eng.Find(fn, eng.PlainCallTo("filer.FilerStoreWrapper).DeleteHardLink"))
		st := eng.Find(fn, eng.PlainCallTo("filer.FilerStore).DeleteEntry"))
		if len(dh) != 1 || len(st) == 0 {
			c.Ob("SIB-hardlink-write", eng.FuncName(fn)+" unlink-before-delete", false, fn.Pos(), "DeleteHardLink / store delete not found")
			continue
		}
		noLink := eng.Cmp(func(v ssa.Value) bool {
			call, ok := v.(*ssa.Call)
			return ok && eng.CalleeIs(call, "builtin.len") && eng.MentionsField(call.Call.Args[0], "Entry.HardLinkId")
		}, func(v ssa.Value) bool { k, ok := eng.ConstInt(v); return ok && k == 0 }, token.EQL)
		// ... or the delete is the second half of a rename (the name was re-created with the same link id: see WHO-moving)
		moving := eng.PassEdges(fn, eng.BoolCall(true, "filer.isMovingEntry"))
		cut := eng.MergeEdges(eng.PassEdges(fn, eng.ErrNil(eng.ErrOf(dh[0]))), eng.PassEdges(fn, noLink), moving)
		if len(eng.PassEdges(fn, noLink)) == 0 {
			cut = nil
		}
		c.Guard("SIB-hardlink-write", "unlink-before-delete", fn, eng.Entry(fn), st, cut, "a name carrying a link id is removed only after the shared counter was decremented successfully, or as the second half of a move")
	}
	if fn := c.NeedFunc("weed/filer", "(*FilerStoreWrapper).handleUpdateToHardLinks"); fn != nil {
		dh := eng.Find(fn, eng.PlainCallTo("filer.FilerStoreWrapper).DeleteHardLink"))
		if len(dh) != 1 {
			c.Ob("PROV-hardlink-release", eng.FuncName(fn), false, fn.Pos(), "release of the displaced identity not found")
		} else {
			arg := eng.Arg(dh[0].(*ssa.Call), 1)
			ok := false
			if eng.IsField(arg, "Entry.HardLinkId") {
				if ex, isEx := eng.FieldBase(arg).(*ssa.Extract); isEx {
					if cl, isC := ex.Tuple.(*ssa.Call); isC && eng.CalleeIs(cl, "filer.FilerStore).FindEntry") {
						ok = true
					}
				}
			}
			c.Ob("PROV-hardlink-release", eng.FuncName(fn)+" releases-existing-identity", ok, eng.InstrPos(dh[0]), "when a name is overwritten by another identity the identity released is the one read from the store, not the new one")
			differs := func(cond ssa.Value) (bool, bool) {
				b, ok := cond.(*ssa.BinOp)
				if !ok {
					return false, false
				}
				if call, isC := b.X.(*ssa.Call); isC && eng.CalleeIs(call, "bytes.Compare", "bytes.Equal") && eng.Mentions(call, 6, func(v ssa.Value) bool { return eng.IsParam(v, "entry") }) && eng.MentionsCall(call, "filer.FilerStore).FindEntry") {
					if eng.CalleeIs(call, "bytes.Compare") {
						return true, b.Op == token.NEQ
					}
				}
				return false, false
			}
			c.Guard("PROV-hardlink-release", "only-when-identity-differs", fn, eng.Entry(fn), dh, eng.PassEdges(fn, differs), "the displaced identity is released only when it differs from the new one")
		}
		// ... and only when the existing entry has an identity at all
		if len(dh) == 1 {
			hasId := eng.PassEdges(fn, func(cond ssa.Value) (bool, bool) {
				b, ok := cond.(*ssa.BinOp)
				if !ok || !isZero(b.Y) {
					return false, false
				}
				call, isCall := b.X.(*ssa.Call)
				if !isCall || !eng.CalleeIs(call, "builtin.len") || !eng.MentionsField(call.Call.Args[0], "Entry.HardLinkId") || !eng.MentionsCall(call.Call.Args[0], "filer.FilerStore).FindEntry") {
					return false, false
				}
				switch b.Op {
				case token.NEQ, token.GTR:
					return true, true
				case token.EQL:
					return true, false
				}
				return false, false
			})
			c.Guard("PROV-hardlink-release", "only-when-existing-has-identity", fn, eng.Entry(fn), dh, hasId, "an identity is released only when the entry read from the store carries one")
		}
		// a plain (non-link) entry written over a hard-linked name displaces that identity too: on the edge where
		// the new entry has no link id the release is still reachable
		if len(dh) == 1 {
			plain := eng.PassEdges(fn, func(cond ssa.Value) (bool, bool) {
				b, ok := cond.(*ssa.BinOp)
				if !ok || !isZero(b.Y) {
					return false, false
				}
				call, isCall := b.X.(*ssa.Call)
				if !isCall || !eng.CalleeIs(call, "builtin.len") || !eng.MentionsField(call.Call.Args[0], "Entry.HardLinkId") || !eng.Mentions(call.Call.Args[0], 4, func(x ssa.Value) bool { return eng.IsParam(x, "entry") }) {
					return false, false
				}
				switch b.Op {
				case token.EQL:
					return true, true
				case token.NEQ, token.GTR:
					return true, false
				}
				return false, false
			})
			okPlain := len(plain) > 0
			for _, st := range startsOf(plain) {
				if hit, _ := eng.Search(st, eng.Is(dh[0]), eng.SearchOpt{}); hit == nil {
					okPlain = false
				}
			}
			c.Ob("PROV-hardlink-release", eng.FuncName(fn)+" plain-overwrite-releases", okPlain, eng.InstrPos(dh[0]), "writing an entry without a link id over a hard-linked name still releases the displaced identity")
		}
		sh := eng.Find(fn, eng.PlainCallTo("filer.FilerStoreWrapper).setHardLink"))
		c.ErrChecked("ERR-hardlink", "setHardLink", fn, sh, "a failed shared-record write fails the update")
	}
	c.Expect("SIB-hardlink-write", 4)

	// (3) read paths
	if fn := c.NeedFunc("weed/filer", "(*FilerStoreWrapper).FindEntry"); fn != nil {
		var succ []ssa.Instruction
		for _, r := range eng.Find(fn, eng.IsReturn) {
			if eng.ReturnMaySucceed(fn, r.(*ssa.Return)) {
				if h, _ := eng.Search(eng.Entry(fn), eng.Is(r), eng.SearchOpt{}); h != nil {
					succ = append(succ, r)
				}
			}
		}
		c.Before("SIB-hardlink-read", "hydrate", fn, eng.PlainCallTo("filer.FilerStoreWrapper).maybeReadHardLink"), succ, "a found entry is returned only after the shared record was overlaid")
		c.Before("SIB-hardlink-read", "canonical-chunks", fn, eng.PlainCallTo("filer_pb.AfterEntryDeserialization"), succ, "a found entry is returned only after chunk ids were put in canonical form")
	}
	for _, name := range []string{"ListDirectoryEntries", "ListDirectoryPrefixedEntries"} {
		fn := c.NeedFunc("weed/filer", "(*FilerStoreWrapper)."+name)
		if fn == nil {
			continue
		}
		// the raw user callback must never be handed to a store or helper directly
		n := 0
		for _, in := range eng.Find(fn, func(in ssa.Instruction) bool { _, ok := in.(*ssa.Call); return ok }) {
			call := in.(*ssa.Call)
			for _, a := range call.Call.Args {
				if eng.IsParamLike(a, "eachEntryFunc") {
					n++
					c.Ob("SIB-hardlink-read", fmt.Sprintf("%s raw-callback-passed#%d to %s", eng.FuncName(fn), n, eng.Callee(call)), false, call.Pos(),
						"the caller's callback is handed to the store without the hard-link overlay / chunk canonicalisation wrapper")
				}
			}
		}
		// every closure that invokes the user callback hydrates first
		nc := 0
		for _, cl := range fn.AnonFuncs {
			cbs := eng.Find(cl, func(in ssa.Instruction) bool {
				call, ok := in.(*ssa.Call)
				if !ok {
					return false
				}
				v := call.Call.Value
				if u, isU := v.(*ssa.UnOp); isU && u.Op == token.MUL {
					v = u.X
				}
				fv, ok := v.(*ssa.FreeVar)
				return ok && fv.Name() == "eachEntryFunc"
			})
			if len(cbs) == 0 {
				continue
			}
			nc++
			c.Before("SIB-hardlink-read", "hydrate", cl, eng.PlainCallTo("filer.FilerStoreWrapper).maybeReadHardLink"), cbs, "listed entries reach the caller only after the shared record was overlaid")
			c.Before("SIB-hardlink-read", "canonical-chunks", cl, eng.PlainCallTo("filer_pb.AfterEntryDeserialization"), cbs, "listed entries reach the caller only after chunk ids were put in canonical form")
		}
		if nc == 0 && n == 0 {
			c.Ob("SIB-hardlink-read", eng.FuncName(fn)+" wrapper-closure", false, fn.Pos(), "no hydrating wrapper around the caller's callback found")
		}
	}
	c.Expect("SIB-hardlink-read", 6)

	releasedOnce(c, "COLLECT-hardlinks")
	hardLinkWriteThrough(c, "SIB-hardlink-write")
	// the move mark travels in the request context: the delete path hands its own context down to the store wrapper
	for _, spec := range []struct{ fn, callee string }{
		{"(*Filer).DeleteEntryMetaAndData", "filer.Filer).doDeleteEntryMetaAndData"},
		{"(*Filer).doDeleteEntryMetaAndData", "filer.VirtualFilerStore).DeleteOneEntry"},
	} {
		fn := c.NeedFunc("weed/filer", spec.fn)
		if fn == nil {
			continue
		}
		calls := eng.Find(fn, eng.CallTo(spec.callee))
		if len(calls) == 0 {
			c.Undecided("WHO-moving", eng.FuncName(fn)+" forwards-context", fn.Pos(), spec.callee+" call not found")
		}
		for i, in := range calls {
			c.Ob("WHO-moving", fmt.Sprintf("%s forwards-context#%d", eng.FuncName(fn), i), eng.IsParam(eng.Arg(in.(ssa.CallInstruction), 0), "ctx"), in.Pos(),
				"the delete of an entry reaches the store with the caller's context (which carries the move mark of a rename)")
		}
	}
	// WHO-moving: a delete may skip the release of its link only when the same request re-created the name with the same
	// link id: the "moving" mark is made in moveSelfEntry only, handed to nothing but the delete of the old name, and that
	// delete is reached only after the create of the new entry (whose literal copies HardLinkId and HardLinkCounter, see
	// FIELDS-entry-clone) succeeded
	if mk := P.Func("weed/filer", "WithMovingEntry"); mk != nil {
		callers := P.CallersOf(mk)
		for i, cs := range callers {
			fn := cs.Parent()
			c.Touch(fn)
			okFn := eng.NameIs(eng.FuncName(fn), "server.FilerServer).moveSelfEntry", "weed_server.FilerServer).moveSelfEntry")
			okUse := cs.Value() != nil
			if okUse {
				for _, r := range *cs.Value().Referrers() {
					call, isCall := r.(*ssa.Call)
					if !isCall || !eng.CalleeIs(call, "filer.Filer).DeleteEntryMetaAndData") || eng.Arg(call, 0) != ssa.Value(cs.Value()) {
						okUse = false
						continue
					}
					create := eng.Find(fn, eng.PlainCallTo("filer.Filer).CreateEntry"))
					if len(create) != 1 {
						okUse = false
						continue
					}
					if hit, _ := eng.Search(eng.Entry(fn), eng.Is(call), eng.SearchOpt{Cut: eng.PassEdges(fn, eng.ErrNil(eng.ErrOf(create[0])))}); hit != nil {
						okUse = false
					}
					lit := eng.Arg(create[0].(ssa.CallInstruction), 1)
					copies := 0
					if al, isAl := eng.Unwrap(lit).(*ssa.Alloc); isAl {
						for _, ref := range *al.Referrers() {
							if fa, isFA := ref.(*ssa.FieldAddr); isFA {
								for _, rr := range *fa.Referrers() {
									if st, isSt := rr.(*ssa.Store); isSt && (eng.FieldSpec(fa) == "Entry.HardLinkId" && eng.MentionsField(st.Val, "Entry.HardLinkId") || eng.FieldSpec(fa) == "Entry.HardLinkCounter" && eng.MentionsField(st.Val, "Entry.HardLinkCounter")) {
										copies++
									}
								}
							}
						}
					}
					if copies != 2 {
						okUse = false
					}
				}
			}
			c.Ob("WHO-moving", fmt.Sprintf("%s marks-move#%d", eng.FuncName(fn), i), okFn && okUse, cs.Pos(),
				"the mark that lets a delete keep the link count is made only by the rename step, only for the delete of the old name, and only after the new name was created with the same link id and counter")
		}
		if len(callers) == 0 {
			c.Undecided("WHO-moving", "discovery", mk.Pos(), "WithMovingEntry has no caller")
		}
	} else {
		c.Undecided("WHO-moving", "discovery", token.NoPos, "filer.WithMovingEntry not found")
	}
	// (5) COLLECT-hardlinks: a recursive directory delete drops the children from the store wholesale, so the
	// identities of the removed names are collected on the way (own children and, through the recursion, all
	// deeper levels) and each collected occurrence is released exactly once
	if fn := c.NeedFunc("weed/filer", "(*Filer).doBatchDeleteFolderMetaAndData"); fn != nil {
		var rec []ssa.Instruction
		for _, in := range eng.Find(fn, eng.PlainCallTo("filer.Filer).doBatchDeleteFolderMetaAndData")) {
			rec = append(rec, in)
		}
		var succ []*ssa.Return
		for _, r := range eng.Find(fn, eng.IsReturn) {
			ret := r.(*ssa.Return)
			if ret.Block() != fn.Recover && len(ret.Results) == 3 && eng.MayBeNil(ret.Results[2]) {
				succ = append(succ, ret)
			}
		}
		if len(rec) != 1 || len(succ) == 0 {
			c.Undecided("COLLECT-hardlinks", eng.FuncName(fn), fn.Pos(), "recursion / success return not found")
		} else {
			sub := eng.ResultOf(rec[0], 1)
			okRec := sub != nil
			okOwn := true
			for _, ret := range succ {
				if sub == nil || !eng.Mentions(ret.Results[1], 12, func(v ssa.Value) bool { return v == sub }) {
					okRec = false
				}
				if !eng.Mentions(ret.Results[1], 12, func(v ssa.Value) bool { return eng.IsField(v, "Entry.HardLinkId") }) {
					okOwn = false
				}
			}
			c.Ob("COLLECT-hardlinks", eng.FuncName(fn)+" deeper-levels", okRec, rec[0].Pos(), "the identities collected in a sub-directory reach the result of the enclosing level")
			c.Ob("COLLECT-hardlinks", eng.FuncName(fn)+" own-children", okOwn, fn.Pos(), "the identity of each hard-linked child is collected")
		}
	}
	if fn := c.NeedFunc("weed/filer", "(*Filer).maybeDeleteHardLinks"); fn != nil {
		calls := eng.Find(fn, eng.PlainCallTo("filer.FilerStoreWrapper).DeleteHardLink", "filer.VirtualFilerStore).DeleteHardLink"))
		if len(calls) != 1 || len(eng.CycleOf(calls[0].Block())) == 0 {
			c.Undecided("COLLECT-hardlinks", eng.FuncName(fn), fn.Pos(), "release call in a loop not found")
		} else {
			// every iteration releases: from the loop body's entry no path returns to the loop header without the call
			cyc := eng.CycleOf(calls[0].Block())
			okEach := true
			for b := range cyc {
				if b.Comment != "rangeindex.body" && b.Comment != "rangeiter.body" {
					continue
				}
				var header *ssa.BasicBlock
				for _, p := range b.Preds {
					if cyc[p] {
						header = p
					}
				}
				if header == nil {
					continue
				}
				hit, _ := eng.Search(eng.Loc{B: b}, func(in ssa.Instruction) bool { return in.Block() == header }, eng.SearchOpt{Barrier: eng.Is(calls[0])})
				if hit != nil {
					okEach = false
				}
			}
			c.Ob("COLLECT-hardlinks", eng.FuncName(fn)+" one-release-per-occurrence", okEach, calls[0].Pos(), "each collected occurrence releases its identity once (two names of one identity inside the deleted tree release it twice)")
		}
	}
	c.Expect("COLLECT-hardlinks", 3)

	// (4) DeleteHardLink
	if fn := c.NeedFunc("weed/filer", "(*FilerStoreWrapper).DeleteHardLink"); fn != nil {
		del := eng.Find(fn, eng.PlainCallTo("filer.FilerStoreWrapper).KvDelete"))
		put := eng.Find(fn, eng.PlainCallTo("filer.FilerStoreWrapper).KvPut"))
		zero := func(cond ssa.Value) (bool, bool) {
			b, ok := cond.(*ssa.BinOp)
			if !ok || !eng.MentionsField(b.X, "Entry.HardLinkCounter") {
				return false, false
			}
			k, isC := eng.ConstInt(b.Y)
			if !isC {
				return false, false
			}
			switch {
			case b.Op == token.LEQ && k == 0, b.Op == token.LSS && k == 1:
				return true, true
			case b.Op == token.GTR && k == 0, b.Op == token.GEQ && k == 1:
				return true, false
			}
			return false, false
		}
		c.Guard("GUARD-hardlink-last", "record-deleted-on-zero", fn, eng.Entry(fn), del, eng.PassEdges(fn, zero), "the shared record is deleted only when the counter reached zero")
		c.Guard("GUARD-hardlink-last", "record-rewritten-otherwise", fn, eng.Entry(fn), put, eng.FailEdges(fn, zero), "the shared record is rewritten while names remain")
		// decrement by exactly one
		dec := false
		for _, in := range eng.Find(fn, eng.StoreToField("Entry.HardLinkCounter")) {
			if b, ok := in.(*ssa.Store).Val.(*ssa.BinOp); ok && b.Op == token.SUB && eng.MentionsField(b.X, "Entry.HardLinkCounter") {
				if k, isC := eng.ConstInt(b.Y); isC && k == 1 {
					dec = true
				}
			}
		}
		c.Ob("GUARD-hardlink-last", eng.FuncName(fn)+" decrement-by-one", dec, fn.Pos(), "removing a name decrements the counter by one")
		c.ErrChecked("ERR-hardlink", "kv", fn, eng.Find(fn, eng.PlainCallTo("filer.FilerStoreWrapper).KvGet")), "a failed read of the shared record is reported")
	}

	errAll(c, "ERR-hardlink-paths", "weed/filer", "an error of a callee in the store wrapper reaches the caller", "(*FilerStoreWrapper).InsertEntry", "(*FilerStoreWrapper).UpdateEntry", "(*FilerStoreWrapper).DeleteFolderChildren", "(*FilerStoreWrapper).DeleteHardLink")
	c.Expect("ERR-hardlink-paths", 10)
}

// releasedOnce: the name a delete request addresses gives up its share of a hard link inside the store wrapper
// (DeleteOneEntry -> handleUpdateToHardLinks / DeleteHardLink); the identities DeleteEntryMetaAndData releases on top of
// that are those of the children a recursive delete dropped wholesale, never the addressed entry's own identity (which
// would be released twice: the counter falls below the number of live names and the shared chunks are deleted early).
func releasedOnce(c *eng.Ctx, rule string) {
	fn := c.NeedFunc("weed/filer", "(*Filer).DeleteEntryMetaAndData")
	if fn == nil {
		return
	}
	calls := eng.Find(fn, eng.PlainCallTo("filer.Filer).maybeDeleteHardLinks"))
	one := eng.Find(fn, eng.PlainCallTo("filer.Filer).doDeleteEntryMetaAndData"))
	if len(calls) == 0 || len(one) == 0 {
		c.Undecided(rule, eng.FuncName(fn)+" released-once", fn.Pos(), "maybeDeleteHardLinks / doDeleteEntryMetaAndData calls not found")
		return
	}
	for i, in := range calls {
		own := false
		eng.Walk(eng.Arg(in.(ssa.CallInstruction), 0), 10, func(y ssa.Value) bool {
			if eng.FieldSpec(y) == "Entry.HardLinkId" {
				own = true
			}
			return true
		})
		fromChildren := eng.MentionsCall(eng.Arg(in.(ssa.CallInstruction), 0), "filer.Filer).doBatchDeleteFolderMetaAndData")
		c.Ob(rule, fmt.Sprintf("%s own-identity-released-once#%d", eng.FuncName(fn), i), !own && fromChildren, in.Pos(),
			"the identities released after the delete are those collected from the deleted children; the addressed entry's own identity is released by the store wrapper's DeleteOneEntry only")
	}
}

// hardLinkWriteThrough: writing through a name that carries a link id always rewrites the shared record (whatever the
// counter says: the read side overlays the record on every entry with a link id), and every successful exit has looked
// at the entry that is being replaced (whose different identity, if any, is released).
func hardLinkWriteThrough(c *eng.Ctx, rule string) {
	fn := c.NeedFunc("weed/filer", "(*FilerStoreWrapper).handleUpdateToHardLinks")
	if fn == nil {
		return
	}
	set := eng.Find(fn, eng.PlainCallTo("filer.FilerStoreWrapper).setHardLink"))
	look := eng.Find(fn, eng.CallTo("filer.FilerStore).FindEntry"))
	hasId := eng.Cmp(func(v ssa.Value) bool {
		call, ok := v.(*ssa.Call)
		return ok && eng.CalleeIs(call, "builtin.len") && eng.IsField(call.Call.Args[0], "Entry.HardLinkId") && eng.IsParam(eng.FieldBase(call.Call.Args[0]), "entry")
	}, func(v ssa.Value) bool { k, ok := eng.ConstInt(v); return ok && k == 0 }, token.GTR, token.NEQ)
	starts := startsOf(eng.PassEdges(fn, hasId))
	if len(set) != 1 || len(look) != 1 || len(starts) == 0 {
		c.Undecided(rule, eng.FuncName(fn)+" write-through", fn.Pos(), "setHardLink / FindEntry / link-id test not found")
		return
	}
	okSet := true
	for _, st := range starts {
		if hit, _ := eng.Search(st, eng.IsReturn, eng.SearchOpt{Barrier: eng.Is(set[0])}); hit != nil {
			okSet = false
		}
	}
	c.Ob(rule, eng.FuncName(fn)+" shared-record-rewritten-whenever-linked", okSet, set[0].Pos(), "an entry that carries a link id rewrites the shared record on every write, whatever its counter")
	dir := eng.PassEdges(fn, func(cond ssa.Value) (bool, bool) {
		call, ok := cond.(*ssa.Call)
		if ok {
			if f := eng.StaticFn(call); f != nil && f.Name() == "IsDirectory" {
				return true, true
			}
		}
		return false, false
	})
	okLook := true
	why := ""
	for _, r := range eng.Find(fn, eng.IsReturn) {
		if !eng.ReturnMaySucceed(fn, r.(*ssa.Return)) {
			continue
		}
		if hit, path := eng.Search(eng.Entry(fn), eng.Is(r), eng.SearchOpt{Barrier: eng.Is(look[0]), Cut: dir}); hit != nil {
			okLook = false
			why = "; path: " + eng.DescribePath(c.P, fn, path)
		}
	}
	c.Ob(rule, eng.FuncName(fn)+" replaced-entry-always-examined", okLook, look[0].Pos(), "no successful exit skips the look at the entry being replaced (its displaced identity must be released)"+why)
}
