package props

import (
	"fmt"
	"go/token"
	"sort"
	"strings"

	"golang.org/x/tools/go/ssa"

	"verif/sa/eng"
)

func init() {
	register(&Prop{
		ID:  "C31",
		Run: runC31,
		Explanation: "Static decision of the structure that makes the tiered chunk cache transparent: (1) PROV-key: every tier is keyed by the whole file id — each component of the parsed id (volume id, needle key, cookie) flows into the key handed to a disk tier, as the memory tier's string key does; (2) ABS-tiers: for every ordering class of a chunk's size against the two tier limits, the tier doSetChunk stores it in is among the tiers doGetChunk / doGetChunkSlice probe for every requested minimum size up to that size; " +
			"(3) GUARD-hit: a tier's answer is returned only when it is at least as long as the requested minimum, and the on-disk volume returns bytes only when it read exactly the recorded size at the recorded offset; a stored chunk is indexed only after it was written completely, at the offset it was written to and with its length. Rotation, eviction and restart histories are not decided. Also decided: each advance of the recorded data-file size is preceded by as many writes; a reset empties .dat, .idx and the derived .ldb after closing the volume.",
		Assumptions: []string{"needle keys of different volumes may coincide (the property quantifies over file ids that share a key)"},
		Trusted:     baseTrusted,
	})
}

// tierOfCall names the cache tier a call addresses: "mem" or "disk<i>".
func tierOfCall(call *ssa.Call) string {
	recv := eng.RecvOf(call)
	if recv == nil {
		return ""
	}
	if eng.MentionsField(recv, "TieredChunkCache.memCache") {
		return "mem"
	}
	tier := ""
	eng.Walk(recv, 5, func(x ssa.Value) bool {
		if ia, ok := x.(*ssa.IndexAddr); ok && eng.MentionsField(ia.X, "TieredChunkCache.diskCaches") {
			if k, isK := eng.ConstInt(ia.Index); isK {
				tier = fmt.Sprintf("disk%d", k)
			}
		}
		return true
	})
	return tier
}

func runC31(c *eng.Ctx) {

	// BOUND-volume-size: a cache volume addresses its chunks with needle-map offsets, which cover MaxPossibleVolumeSize
	// bytes (32GiB with 4-byte offsets); a volume created larger than that reads chunks back from wrapped positions. The
	// size handed to LoadOrCreateChunkCacheVolume is a constant cap K <= MaxPossibleVolumeSize, or diskSize/segmentCount
	// computed only where diskSize/K < segmentCount holds (which bounds the quotient by K).
	if fn := c.NeedFunc("weed/util/chunk_cache", "NewOnDiskCacheLayer"); fn != nil {
		maxSize, okMax := namedConst(c.P, "weed/storage/types", "MaxPossibleVolumeSize")
		isCapQuot := func(v ssa.Value) bool { // diskSize / K with K <= max
			return eng.Mentions(v, 3, func(x ssa.Value) bool {
				b, ok := x.(*ssa.BinOp)
				if !ok || b.Op != token.QUO || !eng.IsParam(b.X, "diskSize") {
					return false
				}
				k, isK := eng.ConstInt(b.Y)
				return isK && k > 0 && k <= maxSize
			})
		}
		fewer := eng.Cmp(isCapQuot, func(v ssa.Value) bool { return eng.IsParam(eng.Unwrap(v), "segmentCount") }, token.LSS)
		calls := eng.Find(fn, eng.PlainCallTo("chunk_cache.LoadOrCreateChunkCacheVolume"))
		if len(calls) == 0 || !okMax {
			c.Undecided("BOUND-volume-size", eng.FuncName(fn), fn.Pos(), "LoadOrCreateChunkCacheVolume call or MaxPossibleVolumeSize not found")
		}
		for i, in := range calls {
			n := 0
			for _, v := range eng.Resolve(eng.Arg(in.(ssa.CallInstruction), 1)) {
				n++
				v = eng.Unwrap(v)
				key := fmt.Sprintf("%s size#%d value#%d", eng.FuncName(fn), i, n)
				if k, isK := eng.ConstInt(v); isK {
					c.Ob("BOUND-volume-size", key, k > 0 && k <= maxSize, in.Pos(), fmt.Sprintf("the constant volume size %d does not exceed what a needle-map offset addresses (%d)", k, maxSize))
					continue
				}
				b, isB := v.(*ssa.BinOp)
				if !isB || b.Op != token.QUO || !eng.IsParam(b.X, "diskSize") || !eng.Mentions(b.Y, 3, func(x ssa.Value) bool { return eng.IsParam(x, "segmentCount") }) {
					c.Ob("BOUND-volume-size", key, false, in.Pos(), "unrecognised derivation of the volume size: "+v.String())
					continue
				}
				c.Guard("BOUND-volume-size", key, fn, eng.Entry(fn), []ssa.Instruction{b}, eng.PassEdges(fn, fewer),
					"diskSize/segmentCount is used as volume size only where diskSize/cap < segmentCount, which keeps it below the cap")
			}
		}
		c.Expect("BOUND-volume-size", 2)
	}
	type acc struct {
		fn    string
		calls []string
		size  func(v ssa.Value) bool
	}
	isLenData := func(v ssa.Value) bool {
		call, ok := eng.Unwrap(v).(*ssa.Call)
		return ok && eng.CalleeIs(call, "builtin.len") && eng.IsParamLike(call.Call.Args[0], "data")
	}
	accs := []acc{
		{"(*TieredChunkCache).doSetChunk", []string{"chunk_cache.ChunkCacheInMemory).SetChunk", "chunk_cache.OnDiskCacheLayer).setChunk"}, isLenData},
		{"(*TieredChunkCache).doGetChunk", []string{"chunk_cache.ChunkCacheInMemory).GetChunk", "chunk_cache.OnDiskCacheLayer).getChunk"}, func(v ssa.Value) bool { return eng.IsParamLike(v, "minSize") }},
		{"(*TieredChunkCache).doGetChunkSlice", []string{"chunk_cache.ChunkCacheInMemory).getChunkSlice", "chunk_cache.OnDiskCacheLayer).getChunkSlice"}, func(v ssa.Value) bool {
			b, ok := v.(*ssa.BinOp)
			return ok && b.Op == token.ADD && eng.IsParamLike(b.X, "offset") && eng.IsParamLike(b.Y, "length")
		}},
	}
	tables := map[string]map[int][]string{}
	for _, a := range accs {
		fn := c.NeedFunc("weed/util/chunk_cache", a.fn)
		if fn == nil {
			continue
		}
		calls := eng.Find(fn, eng.PlainCallTo(a.calls...))
		if len(calls) < 4 {
			c.Undecided("PROV-key", eng.FuncName(fn), fn.Pos(), "tier accesses not found")
			continue
		}
		// ---------------------------------------------------------------- (1) PROV-key
		for _, call := range calls {
			cl := call.(*ssa.Call)
			tier := tierOfCall(cl)
			if tier == "" {
				c.Undecided("PROV-key", eng.FuncName(fn)+" tier", cl.Pos(), "cache tier of the call not recognised")
				continue
			}
			c.Sites++
			key := eng.Arg(cl, 0)
			ok := false
			how := ""
			if eng.IsParamLike(key, "fileId") {
				ok, how = true, "the file id string"
			} else {
				var comps []string
				for _, f := range []string{"FileId.VolumeId", "FileId.Key", "FileId.Cookie"} {
					if eng.MentionsField(key, f) {
						comps = append(comps, strings.TrimPrefix(f, "FileId."))
					}
				}
				how = "{" + strings.Join(comps, ",") + "} of the parsed file id"
				ok = len(comps) == 3
			}
			c.Ob("PROV-key", fmt.Sprintf("%s %s", eng.FuncName(fn), tier), ok, cl.Pos(), "this tier is keyed by "+how+"; two file ids that differ in any component must never share a cache slot")
		}
		// ---------------------------------------------------------------- (2) ABS-tiers: table size-class -> tiers reachable
		limit := func(v ssa.Value) int {
			for i, f := range []string{"TieredChunkCache.onDiskCacheSizeLimit0", "TieredChunkCache.onDiskCacheSizeLimit1", "TieredChunkCache.onDiskCacheSizeLimit2"} {
				if eng.MentionsField(v, f) {
					return i
				}
			}
			return -1
		}
		tab := map[int][]string{}
		for class := 0; class <= 2; class++ { // 0: <= L0, 1: (L0, L1], 2: > L1
			oracle := func(v ssa.Value) (bool, bool) {
				b, ok := v.(*ssa.BinOp)
				if !ok || !a.size(b.X) {
					return false, false
				}
				l := limit(b.Y)
				if l < 0 || l > 1 {
					return false, false
				}
				// size <= L_l  holds iff class <= l
				switch b.Op {
				case token.LEQ:
					return class <= l, true
				case token.GTR:
					return class > l, true
				}
				return false, false
			}
			cut := eng.CutUnder(fn, oracle)
			set := map[string]bool{}
			for _, in := range eng.ReachableInstrs(eng.Entry(fn), cut) {
				if call, ok := in.(*ssa.Call); ok && eng.CalleeIs(call, a.calls...) {
					set[tierOfCall(call)] = true
				}
			}
			for t := range set {
				tab[class] = append(tab[class], t)
			}
			sort.Strings(tab[class])
		}
		tables[a.fn] = tab
		// ---------------------------------------------------------------- (3) GUARD-hit (readers)
		if !strings.Contains(a.fn, "doSetChunk") {
			var hits []ssa.Instruction
			for _, r := range eng.Find(fn, eng.IsReturn) {
				if r.Block() == fn.Recover {
					continue
				}
				for _, v := range eng.Resolve(r.(*ssa.Return).Results[0]) {
					if !eng.IsNilConst(v) && v != eng.Zero && v != nil {
						hits = append(hits, r)
						break
					}
				}
			}
			long := func(cond ssa.Value) (bool, bool) {
				b, ok := cond.(*ssa.BinOp)
				if !ok {
					return false, false
				}
				call, isCall := b.X.(*ssa.Call)
				if !isCall || !eng.CalleeIs(call, "builtin.len") {
					return false, false
				}
				if !eng.Mentions(b.Y, 3, func(x ssa.Value) bool { return a.size(x) }) {
					return false, false
				}
				switch b.Op {
				case token.GEQ:
					return true, true
				case token.LSS:
					return true, false
				}
				return false, false
			}
			c.Guard("GUARD-hit", "only-long-enough", fn, eng.Entry(fn), hits, eng.PassEdges(fn, long), "a cached answer is returned only when it holds at least the requested leading bytes")
		}
	}
	setT := tables["(*TieredChunkCache).doSetChunk"]
	for _, reader := range []string{"(*TieredChunkCache).doGetChunk", "(*TieredChunkCache).doGetChunkSlice"} {
		getT := tables[reader]
		if setT == nil || getT == nil {
			continue
		}
		for size := 0; size <= 2; size++ {
			for min := 0; min <= size; min++ {
				ok := len(setT[size]) > 0
				for _, t := range setT[size] {
					found := false
					for _, g := range getT[min] {
						if g == t {
							found = true
						}
					}
					if !found {
						ok = false
					}
				}
				c.Ob("ABS-tiers", fmt.Sprintf("%s size-class=%d min-class=%d", reader, size, min), ok, token.NoPos,
					fmt.Sprintf("a chunk of size class %d is stored in %v; a lookup asking for a minimum of class %d probes %v (classes: 0 <= limit0 < 1 <= limit1 < 2)", size, setT[size], min, getT[min]))
			}
		}
	}
	c.Expect("PROV-key", 12)
	c.Expect("ABS-tiers", 12)
	c.Expect("GUARD-hit", 8)

	// on-disk volume
	for _, name := range []string{"(*ChunkCacheVolume).GetNeedle", "(*ChunkCacheVolume).getNeedleSlice"} {
		fn := c.NeedFunc("weed/util/chunk_cache", name)
		if fn == nil {
			continue
		}
		rd := eng.Find(fn, func(in ssa.Instruction) bool {
			call, ok := in.(*ssa.Call)
			return ok && call.Call.IsInvoke() && call.Call.Method.Name() == "ReadAt"
		})
		if len(rd) != 1 {
			c.Undecided("GUARD-hit", eng.FuncName(fn), fn.Pos(), "read of the cache file not found")
			continue
		}
		succ := successReturns(fn)
		c.Guard("GUARD-hit", "read-ok", fn, eng.Entry(fn), succ, eng.PassEdges(fn, eng.ErrNil(eng.ErrOf(rd[0]))), "bytes are returned only when the read succeeded")
		n := eng.ResultOf(rd[0], 0)
		full := eng.PassEdges(fn, func(cond ssa.Value) (bool, bool) {
			b, ok := cond.(*ssa.BinOp)
			if !ok || (b.Op != token.EQL && b.Op != token.NEQ) || !eng.SameVar(b.X, n) {
				return false, false
			}
			return true, b.Op == token.EQL
		})
		c.Guard("GUARD-hit", "read-complete", fn, eng.Entry(fn), succ, full, "and only when it delivered exactly the expected number of bytes")
		found := eng.PassEdges(fn, func(cond ssa.Value) (bool, bool) {
			ex, ok := cond.(*ssa.Extract)
			if !ok || ex.Index != 1 {
				return false, false
			}
			call, ok := ex.Tuple.(*ssa.Call)
			return ok && call.Call.IsInvoke() && call.Call.Method.Name() == "Get", true
		})
		c.Guard("GUARD-hit", "indexed", fn, eng.Entry(fn), succ, found, "and only for a key present in the volume's index")
		okOff := eng.MentionsField(rd[0].(*ssa.Call).Call.Args[1], "NeedleValue.Offset")
		c.Ob("GUARD-hit", eng.FuncName(fn)+" reads-at-indexed-offset", okOff, rd[0].Pos(), "the bytes are read at the offset recorded for the key")
	}
	if fn := c.NeedFunc("weed/util/chunk_cache", "(*ChunkCacheVolume).WriteNeedle"); fn != nil {
		wr := eng.Find(fn, func(in ssa.Instruction) bool {
			call, ok := in.(*ssa.Call)
			return ok && call.Call.IsInvoke() && call.Call.Method.Name() == "WriteAt" && eng.IsParamLike(call.Call.Args[0], "data")
		})
		put := eng.Find(fn, func(in ssa.Instruction) bool {
			call, ok := in.(*ssa.Call)
			return ok && call.Call.IsInvoke() && call.Call.Method.Name() == "Put"
		})
		if len(wr) != 1 || len(put) != 1 {
			c.Undecided("GUARD-hit", eng.FuncName(fn), fn.Pos(), "write / index put not found")
		} else {
			c.Guard("GUARD-hit", "index-after-complete-write", fn, eng.Entry(fn), put, eng.PassEdges(fn, eng.ErrNil(eng.ErrOf(wr[0]))), "a chunk is indexed only after it was written")
			pc := put[0].(*ssa.Call)
			okArgs := eng.IsParamLike(pc.Call.Args[0], "key") && eng.MentionsCall(pc.Call.Args[2], "builtin.len") && eng.SameExpr(eng.Unwrap(wr[0].(*ssa.Call).Call.Args[1]), argOfToOffset(pc.Call.Args[1]))
			c.Ob("GUARD-hit", eng.FuncName(fn)+" index-entry", okArgs, pc.Pos(), "the index records the key with the offset the bytes were written at and their length")
			c.ErrChecked("GUARD-hit", "write-error", fn, wr, "a failed write is reported")
		}
		// the recorded end of the data file only moves over bytes that were written: the n-th advance of fileSize is
		// preceded by n writes (the alignment gap is written out, because a restart takes the size from the file)
		allWr := eng.Find(fn, func(in ssa.Instruction) bool {
			call, ok := in.(*ssa.Call)
			return ok && call.Call.IsInvoke() && call.Call.Method.Name() == "WriteAt"
		})
		for i, st := range eng.Find(fn, eng.StoreToField("ChunkCacheVolume.fileSize")) {
			n := 0
			for _, w := range allWr {
				if eng.Dominates(w, st) {
					n++
				}
			}
			c.Ob("GUARD-hit", fmt.Sprintf("%s size-advance#%d-backed-by-write", eng.FuncName(fn), i+1), n >= i+1, st.Pos(), fmt.Sprintf("advance #%d of the recorded file size is preceded by %d write(s) (needs %d): the file really is that long", i+1, n, i+1))
		}
	}
	// resetting a cache volume drops all three parts of its state: data, index file and the index database derived
	// from it (a kept database still maps the evicted keys to offsets that newer chunks will occupy)
	if fn := c.NeedFunc("weed/util/chunk_cache", "(*ChunkCacheVolume).doReset"); fn != nil {
		dropped := map[string]bool{}
		for _, in := range eng.Find(fn, eng.PlainCallTo("os.Truncate", "os.Remove", "os.RemoveAll")) {
			call := in.(*ssa.Call)
			eng.Walk(call.Call.Args[0], 4, func(v ssa.Value) bool {
				if sfx, ok := eng.ConstString(v); ok {
					if eng.CalleeIs(call, "os.Truncate") {
						if k, isK := eng.ConstInt(call.Call.Args[1]); !isK || k != 0 {
							return true
						}
					}
					// the index database is a directory (leveldb.OpenFile): only RemoveAll drops it
					if sfx == ".ldb" && !eng.CalleeIs(call, "os.RemoveAll") {
						return true
					}
					dropped[sfx] = true
				}
				return true
			})
		}
		for _, part := range []string{".dat", ".idx", ".ldb"} {
			c.Ob("GUARD-hit", eng.FuncName(fn)+" drops "+part, dropped[part], fn.Pos(), "a reset empties "+part)
		}
		sd := eng.Find(fn, eng.PlainCallTo("chunk_cache.ChunkCacheVolume).Shutdown"))
		c.Before("GUARD-hit", "closed-before-dropped", fn, eng.AnyOf(sd), eng.Find(fn, eng.PlainCallTo("os.Truncate", "os.RemoveAll")), "the volume is closed before its files are emptied")
	}
}

func argOfToOffset(v ssa.Value) ssa.Value {
	call, ok := eng.Unwrap(v).(*ssa.Call)
	if ok && eng.CalleeIs(call, "types.ToOffset") {
		return eng.Unwrap(call.Call.Args[0])
	}
	return v
}
