package props

import (
	"fmt"
	"go/token"
	"sort"
	"strings"

	"golang.org/x/tools/go/ssa"

	"verif/sa/eng"
)

func init() {
	register(&Prop{
		ID:  "C09",
		Run: runC09,
		Explanation: "Static decision of the structural TTL conditions: (1) SIB-expiry: the read path and the two compaction filters decide a blob's expiry from the same timestamp field and TTL source; (2) MONO-last-modified: outside volume loading, the volume's last-modified time (which expiry-driven deletion compares with the TTL) only ever grows; (3) GUARD-volume-expiry: the heartbeat queues a volume for deletion only when expired() and expiredLongEnough() both hold (or an I/O error is recorded), stops reporting it only when expired, and expired() answers true only past the comparison of the TTL with the time lived since the last modification; " +
			"(4) SIB-filer-ttl: lookup and listing decide an entry's expiry from the same fields (creation time + TTL seconds) and an expired entry is not returned; (5) ROUND-ttl: the TTL string handed to the volume assignment is derived from the entry's TTL seconds without rounding down. Clock behaviour and unit arithmetic are not decided.",
		Assumptions: []string{"time.Now is the only clock"},
		Trusted:     baseTrusted,
	})
}

// filerTtlFeatures names the Attr fields consulted by the clock-dependent branches of fn.
func filerTtlFeatures(fn *ssa.Function) (string, []*ssa.If) {
	set := map[string]bool{}
	var ifs []*ssa.If
	for _, b := range fn.Blocks {
		if len(b.Instrs) == 0 {
			continue
		}
		iff, ok := b.Instrs[len(b.Instrs)-1].(*ssa.If)
		if !ok {
			continue
		}
		if !eng.Mentions(iff.Cond, 8, func(v ssa.Value) bool {
			call, ok := v.(*ssa.Call)
			return ok && eng.CalleeIs(call, "time.Now")
		}) {
			continue
		}
		ifs = append(ifs, iff)
		eng.Walk(iff.Cond, 10, func(v ssa.Value) bool {
			if f := eng.FieldSpec(v); strings.HasPrefix(f, "Attr.") {
				set[f] = true
			}
			return true
		})
	}
	var ks []string
	for k := range set {
		ks = append(ks, k)
	}
	sort.Strings(ks)
	return strings.Join(ks, "+"), ifs
}

func runC09(c *eng.Ctx) {
	P := c.P
	// ---------------------------------------------------------------- (0) a rewrite restarts the clock
	// Expiry is computed from the append time of the stored copy; on a TTL volume an upload of identical bytes must
	// therefore be appended again (the "unchanged, skip the write" shortcut keeps the first upload's append time).
	if fn := c.NeedFunc("weed/storage", "(*Volume).isFileUnchanged"); fn != nil {
		var trues []ssa.Instruction
		for _, r := range eng.Find(fn, eng.IsReturn) {
			for _, v := range eng.Resolve(r.(*ssa.Return).Results[0]) {
				if b, ok := eng.ConstBool(v); !ok || b {
					trues = append(trues, r)
					break
				}
			}
		}
		noTtl := func(cond ssa.Value) (bool, bool) {
			b, ok := cond.(*ssa.BinOp)
			if !ok || (b.Op != token.EQL && b.Op != token.NEQ) {
				return false, false
			}
			x, y := b.X, b.Y
			if k, isK := eng.ConstString(x); isK && k == "" {
				x, y = y, x
			}
			k, isK := eng.ConstString(y)
			call, isCall := x.(*ssa.Call)
			if !isK || k != "" || !isCall || !eng.CalleeIs(call, "needle.TTL).String") || !(eng.MentionsField(call.Call.Args[0], "SuperBlock.Ttl") || eng.MentionsField(call.Call.Args[0], "Volume.Ttl")) {
				return false, false
			}
			return true, b.Op == token.EQL
		}
		if len(trues) == 0 {
			c.Undecided("GUARD-rewrite-restarts-clock", eng.FuncName(fn), fn.Pos(), "no `return true` found")
		}
		c.Guard("GUARD-rewrite-restarts-clock", "unchanged-shortcut-only-without-ttl", fn, eng.Entry(fn), trues, eng.PassEdges(fn, noTtl),
			"an upload is answered 'unchanged' (and not appended) only on a volume without TTL: on a TTL volume the append time of the stored copy is what expiry is counted from")
	}

	// ---------------------------------------------------------------- (0b) compaction keeps the append time
	// a blob's clock starts when it was appended; copying it into the compacted file must not restart it (an expired
	// blob would become readable again): the copy paths never assign Needle.AppendAtNs, the write path does
	{
		stamp := eng.StoreToField("Needle.AppendAtNs")
		n := 0
		for _, spec := range [][2]string{{"weed/storage", "copyDataBasedOnIndexFile"}, {"weed/storage", "(*VolumeFileScanner4Vacuum).VisitNeedle"}} {
			fn := c.NeedFunc(spec[0], spec[1])
			if fn == nil {
				continue
			}
			bad := 0
			for _, f := range eng.WithAnon(fn) {
				bad += len(eng.Find(f, stamp))
			}
			n++
			c.Ob("GUARD-rewrite-restarts-clock", eng.FuncName(fn)+" copy-keeps-append-time", bad == 0, fn.Pos(), "a needle copied by compaction keeps the append time it was written with")
		}
		okPos := false
		if w := c.NeedFunc("weed/storage", "(*Volume).doWriteRequest"); w != nil {
			okPos = len(eng.Find(w, stamp)) > 0
		}
		c.Ob("GUARD-rewrite-restarts-clock", "matcher self-test", okPos && n == 2, token.NoPos, "the write path stamps Needle.AppendAtNs (the matcher recognises the assignment)")
	}

	// ---------------------------------------------------------------- (1) SIB-expiry
	reader := c.NeedFunc("weed/storage", "(*Volume).readNeedle")
	if reader != nil {
		refExp, rpos := expiryFeatures(reader)
		c.Ob("SIB-expiry", "readNeedle consults append time and needle TTL", refExp != "" && strings.Contains(refExp, "Needle.Ttl"), rpos, "a read decides expiry from {"+refExp+"}")
		readData := eng.PlainCallTo("needle.Needle).ReadData", "needle.Needle).ReadBytes")
		for _, s := range []struct {
			name string
			fn   *ssa.Function
		}{
			{"VolumeFileScanner4Vacuum.VisitNeedle", c.NeedFunc("weed/storage", "(*VolumeFileScanner4Vacuum).VisitNeedle")},
			{"copyDataBasedOnIndexFile", closureWith(c.NeedFunc("weed/storage", "copyDataBasedOnIndexFile"), readData)},
		} {
			if s.fn == nil {
				c.Undecided("SIB-expiry", s.name, token.NoPos, "compaction filter not found")
				continue
			}
			c.Touch(s.fn)
			f, pos := expiryFeatures(s.fn)
			c.Ob("SIB-expiry", s.name+" vs readNeedle", f == refExp && f != "", pos, fmt.Sprintf("compaction drops a blob by {%s}, a read still serves it by {%s}: compaction must not remove a blob earlier than a read would refuse it", f, refExp))
		}
	}
	c.Expect("SIB-expiry", 3)

	// ABS-expiry: the read path's decision table over {has TTL, TTL is zero, has a last-modified date, still within
	// the TTL}: after the record was read, the blob is reported as gone exactly for (TTL, non-zero, dated, past the
	// TTL) and served in every other case
	if rd := c.NeedFunc("weed/storage", "(*Volume).readNeedle"); rd != nil {
		reads := eng.Find(rd, eng.PlainCallTo("needle.Needle).ReadData"))
		if len(reads) == 0 {
			c.Undecided("ABS-expiry", eng.FuncName(rd), rd.Pos(), "record read not found")
		} else {
			type pt struct{ hasTtl, zero, dated, within bool }
			outcome := func(p pt) string {
				oracle := func(v ssa.Value) (bool, bool) {
					if call, ok := v.(*ssa.Call); ok {
						switch {
						case eng.CalleeIs(call, "needle.Needle).HasTtl"):
							return p.hasTtl, true
						case eng.CalleeIs(call, "needle.Needle).HasLastModifiedDate"):
							return p.dated, true
						case eng.CalleeIs(call, "time.Time).Before"):
							return p.within, true
						case eng.CalleeIs(call, "time.Time).After"):
							return !p.within, true
						}
					}
					if b, ok := v.(*ssa.BinOp); ok && isZero(b.Y) && eng.MentionsCall(b.X, "needle.TTL).Minutes") {
						switch b.Op {
						case token.EQL:
							return p.zero, true
						case token.NEQ, token.GTR:
							return !p.zero, true
						}
					}
					return false, false
				}
				cut := eng.CutUnder(rd, oracle)
				served, gone := false, false
				last := reads[0]
				for _, in := range eng.ReachableInstrs(eng.After(last), cut) {
					r, ok := in.(*ssa.Return)
					if !ok || r.Block() == rd.Recover || !eng.Dominates(last, r) {
						continue
					}
					for _, ev := range eng.Resolve(r.Results[1]) {
						switch {
						case ev == nil || ev == eng.Zero || eng.IsNilConst(ev):
							served = true
						default:
							if u, isU := ev.(*ssa.UnOp); isU {
								if g, isG := u.X.(*ssa.Global); isG && g.Name() == "ErrorNotFound" {
									gone = true
								}
							}
						}
					}
				}
				switch {
				case served && gone:
					return "both"
				case served:
					return "served"
				case gone:
					return "gone"
				}
				return "neither"
			}
			for _, hasTtl := range []bool{false, true} {
				for _, zero := range []bool{false, true} {
					for _, dated := range []bool{false, true} {
						for _, within := range []bool{false, true} {
							p := pt{hasTtl, zero, dated, within}
							want := "served"
							if hasTtl && !zero && dated && !within {
								want = "gone"
							}
							got := outcome(p)
							c.Ob("ABS-expiry", fmt.Sprintf("%s ttl=%v zero=%v dated=%v within=%v", eng.FuncName(rd), hasTtl, zero, dated, within), got == want, rd.Pos(), fmt.Sprintf("after a successful record read the blob is %s, required: %s", got, want))
						}
					}
				}
			}
		}
	}
	c.Expect("ABS-expiry", 16)

	// ---------------------------------------------------------------- (2) MONO-last-modified
	n := 0
	for _, fn := range P.SrcFuncs("weed/storage") {
		sts := eng.Find(fn, eng.StoreToField("Volume.lastModifiedTsSeconds"))
		if len(sts) == 0 {
			continue
		}
		if eng.NameIs(eng.FuncName(fn), "storage.Volume).load") {
			c.Touch(fn)
			continue // initialisation from the data file's modification time
		}
		n += len(sts)
		grow := eng.Cmp(func(v ssa.Value) bool { return eng.IsField(v, "Volume.lastModifiedTsSeconds") }, func(v ssa.Value) bool { return true }, token.LSS)
		c.Guard("MONO-last-modified", "store", fn, eng.Entry(fn), sts, eng.PassEdges(fn, grow), "the volume's last-modified time is replaced only by a larger value (a write carrying an old client timestamp must not make fresh TTL data look expired)")
		for i, st := range sts {
			// and the stored value is the one compared
			ok := false
			for e := range eng.PassEdges(fn, grow) {
				bo := e.B.Instrs[len(e.B.Instrs)-1].(*ssa.If).Cond
				if b, isB := bo.(*ssa.BinOp); isB && (eng.SameExpr(b.X, st.(*ssa.Store).Val) || eng.SameExpr(b.Y, st.(*ssa.Store).Val)) {
					ok = true
				}
			}
			c.Ob("MONO-last-modified", fmt.Sprintf("%s stored-is-compared#%d", eng.FuncName(fn), i), ok, st.Pos(), "the value stored is the value that was compared")
		}
	}
	if n == 0 {
		c.Undecided("MONO-last-modified", "discovery", token.NoPos, "no store to Volume.lastModifiedTsSeconds outside load")
	}

	// ---------------------------------------------------------------- (3) GUARD-volume-expiry
	if fn := c.NeedFunc("weed/storage", "(*Store).CollectHeartbeat"); fn != nil {
		isVidAppend := func(in ssa.Instruction) bool {
			call, ok := in.(*ssa.Call)
			return ok && eng.CalleeIs(call, "builtin.append") && strings.HasSuffix(call.Type().String(), "needle.VolumeId")
		}
		isMsgAppend := func(in ssa.Instruction) bool {
			call, ok := in.(*ssa.Call)
			return ok && eng.CalleeIs(call, "builtin.append") && strings.HasSuffix(call.Type().String(), "VolumeInformationMessage")
		}
		dels := eng.Find(fn, isVidAppend)
		msgs := eng.Find(fn, isMsgAppend)
		if len(dels) == 0 || len(msgs) == 0 {
			c.Undecided("GUARD-volume-expiry", eng.FuncName(fn), fn.Pos(), "deletion queue / volume message appends not found")
		} else {
			expired := eng.BoolCall(true, "storage.Volume).expired")
			long := eng.BoolCall(true, "storage.Volume).expiredLongEnough")
			ioErr := eng.Cmp(func(v ssa.Value) bool { return eng.IsField(v, "Volume.lastIoError") }, eng.IsNilConst, token.NEQ)
			c.Guard("GUARD-volume-expiry", "delete-only-expired", fn, eng.Entry(fn), dels, eng.PassEdges(fn, expired), "a volume is queued for deletion only when its TTL has elapsed since the last modification")
			c.Guard("GUARD-volume-expiry", "delete-only-long-enough-or-io-error", fn, eng.Entry(fn), dels, eng.MergeEdges(eng.PassEdges(fn, long), eng.PassEdges(fn, ioErr)), "and only after the removal delay has passed (or an I/O error was recorded)")
			c.Guard("GUARD-volume-expiry", "report-unless-expired", fn, eng.Entry(fn), msgs, eng.FailEdges(fn, expired), "a volume is left out of the heartbeat only when expired")
			// the removal works through the queue only
			rm := eng.Find(fn, eng.PlainCallTo("storage.DiskLocation).deleteVolumeById"))
			for i, r := range rm {
				c.Ob("GUARD-volume-expiry", fmt.Sprintf("%s delete-from-queue#%d", eng.FuncName(fn), i), eng.Mentions(eng.Arg(r.(*ssa.Call), 0), 6, func(v ssa.Value) bool {
					call, ok := v.(*ssa.Call)
					return ok && isVidAppend(call)
				}), r.Pos(), "only queued volume ids are deleted")
			}
		}
	}
	for _, name := range []string{"(*Volume).expired", "(*Volume).expiredLongEnough"} {
		fn := c.NeedFunc("weed/storage", name)
		if fn == nil {
			continue
		}
		var trues []ssa.Instruction
		for _, r := range eng.Find(fn, eng.IsReturn) {
			for _, v := range eng.Resolve(r.(*ssa.Return).Results[0]) {
				if b, ok := eng.ConstBool(v); !ok || b {
					trues = append(trues, r)
					break
				}
			}
		}
		cmp := func(cond ssa.Value) (bool, bool) {
			b, ok := cond.(*ssa.BinOp)
			if !ok || (b.Op != token.LSS && b.Op != token.GTR) {
				return false, false
			}
			hasTTL := func(v ssa.Value) bool { return eng.MentionsCall(v, "needle.TTL).Minutes") }
			hasAge := func(v ssa.Value) bool {
				return eng.MentionsField(v, "Volume.lastModifiedTsSeconds") || eng.MentionsCall(v, "time.Now")
			}
			lessSide, moreSide := b.X, b.Y
			if b.Op == token.GTR {
				lessSide, moreSide = b.Y, b.X
			}
			// ttl (+delay) [+ lastModified] < now [- lastModified]
			if hasTTL(lessSide) && hasAge(moreSide) && !hasTTL(moreSide) && (eng.MentionsField(b.X, "Volume.lastModifiedTsSeconds") || eng.MentionsField(b.Y, "Volume.lastModifiedTsSeconds")) && (eng.MentionsCall(b.X, "time.Now") || eng.MentionsCall(b.Y, "time.Now")) {
				return true, true
			}
			return false, false
		}
		c.Guard("GUARD-volume-expiry", "true-only-past-ttl", fn, eng.Entry(fn), trues, eng.PassEdges(fn, cmp), "answers true only on the edge where the TTL (plus delay) is smaller than the time since the last modification")
		if len(trues) == 0 {
			c.Undecided("GUARD-volume-expiry", eng.FuncName(fn), fn.Pos(), "no return that may be true")
		}
	}
	c.Expect("GUARD-volume-expiry", 6)

	// ---------------------------------------------------------------- (4) SIB-filer-ttl
	find := c.NeedFunc("weed/filer", "(*Filer).FindEntry")
	var list *ssa.Function
	if dl := c.NeedFunc("weed/filer", "(*Filer).doListDirectoryEntries"); dl != nil {
		for _, f := range eng.WithAnon(dl) {
			if fs, _ := filerTtlFeatures(f); fs != "" {
				list = f
			}
		}
		if list == nil {
			c.Undecided("SIB-filer-ttl", "doListDirectoryEntries", dl.Pos(), "no clock-dependent branch in the listing callback")
		}
	}
	want := "Attr.Crtime+Attr.TtlSec"
	for _, fn := range []*ssa.Function{find, list} {
		if fn == nil {
			continue
		}
		c.Touch(fn)
		fs, ifs := filerTtlFeatures(fn)
		pos := fn.Pos()
		if len(ifs) > 0 {
			pos = ifs[0].Pos()
		}
		c.Ob("SIB-filer-ttl", eng.FuncName(fn)+" expiry-fields", fs == want, pos, fmt.Sprintf("expiry decided from {%s}; the chunks live in TTL volumes that count from when the data was written, so visibility must end at creation time + TTL in lookup and listing alike {%s}", fs, want))
	}
	if find != nil {
		_, ifs := filerTtlFeatures(find)
		for i, iff := range ifs {
			// expired when crtime+ttl is Before(now): the true edge must not return the entry
			call, ok := iff.Cond.(*ssa.Call)
			if !ok || !eng.CalleeIs(call, "time.Time).Before") {
				c.Undecided("SIB-filer-ttl", fmt.Sprintf("%s expired-branch#%d", eng.FuncName(find), i), iff.Pos(), "expiry test is not of the form deadline.Before(now)")
				continue
			}
			okArg := eng.MentionsCall(call.Call.Args[1], "time.Now") && !eng.MentionsCall(call.Call.Args[0], "time.Now")
			c.Ob("SIB-filer-ttl", fmt.Sprintf("%s deadline-before-now#%d", eng.FuncName(find), i), okArg, iff.Pos(), "the entry is expired when its deadline lies before now (not the reverse)")
			returnsNonNilErr(c, "SIB-filer-ttl", fmt.Sprintf("expired-not-returned#%d", i), find, []eng.Loc{{B: iff.Block().Succs[0], Idx: 0}}, "an expired entry is reported as not found")
		}
	}
	c.Expect("SIB-filer-ttl", 4)

	// ---------------------------------------------------------------- (5) ROUND-ttl
	if fn := c.NeedFunc("weed/storage/needle", "SecondsToTTL"); fn != nil {
		sp := eng.Find(fn, eng.PlainCallTo("fmt.Sprintf"))
		nq := 0
		for _, s := range sp {
			var quo *ssa.BinOp
			for _, va := range eng.VarargValues(s.(*ssa.Call).Call.Args[1]) {
				eng.Walk(va, 6, func(v ssa.Value) bool {
					if b, ok := v.(*ssa.BinOp); ok && b.Op == token.QUO && quo == nil {
						quo = b
					}
					return true
				})
			}
			if quo == nil {
				continue
			}
			k, isK := eng.ConstInt(quo.Y)
			if !isK {
				continue
			}
			nq++
			exact := func(cond ssa.Value) (bool, bool) {
				b, ok := cond.(*ssa.BinOp)
				if !ok || (b.Op != token.EQL && b.Op != token.NEQ) {
					return false, false
				}
				rem, ok := b.X.(*ssa.BinOp)
				z, isZ := eng.ConstInt(b.Y)
				if !ok || rem.Op != token.REM || !isZ || z != 0 {
					return false, false
				}
				if kk, ok := eng.ConstInt(rem.Y); !ok || kk != k || !eng.SameExpr(rem.X, quo.X) {
					return false, false
				}
				return true, b.Op == token.EQL
			}
			cut := eng.PassEdges(fn, exact)
			ok := false
			if len(cut) > 0 {
				hit, _ := eng.Search(eng.Entry(fn), eng.Is(s), eng.SearchOpt{Cut: cut})
				ok = hit == nil
			}
			ordk := 0
			for _, s2 := range sp[:indexOfInstr(sp, s)] {
				for _, va := range eng.VarargValues(s2.(*ssa.Call).Call.Args[1]) {
					eng.Walk(va, 6, func(v ssa.Value) bool {
						if b, isB := v.(*ssa.BinOp); isB && b.Op == token.QUO {
							if k2, _ := eng.ConstInt(b.Y); k2 == k {
								ordk++
							}
						}
						return true
					})
				}
			}
			c.Ob("ROUND-ttl", fmt.Sprintf("%s seconds/%d#%d", eng.FuncName(fn), k, ordk), ok, s.Pos(),
				fmt.Sprintf("the count seconds/%d is used only when seconds is a multiple of %d; otherwise the volume TTL is shorter than the entry's TTL and a still-visible entry points at expired data", k, k))
		}
		if nq < 6 {
			c.Undecided("ROUND-ttl", eng.FuncName(fn), fn.Pos(), "unit conversions not recognised")
		}
	}
	if fn := c.NeedFunc("weed/operation", "(*StorageOption).TtlString"); fn != nil {
		calls := eng.Find(fn, eng.PlainCallTo("needle.SecondsToTTL"))
		c.Ob("ROUND-ttl", eng.FuncName(fn)+" source", len(calls) == 1 && eng.MentionsField(eng.Arg(calls[0].(*ssa.Call), 0), "StorageOption.TtlSeconds"), fn.Pos(), "the assignment TTL is derived from the same TtlSeconds that is stored in the entry")
	}
}

func indexOfInstr(xs []ssa.Instruction, x ssa.Instruction) int {
	for i, y := range xs {
		if y == x {
			return i
		}
	}
	return 0
}
