package props

import (
	"fmt"
	"go/token"

	"golang.org/x/tools/go/ssa"

	"verif/sa/eng"
)

func init() {
	register(&Prop{
		ID:  "C25",
		Run: runC25,
		Explanation: "Static decision of the error and ordering structure of filer HTTP writes: (1) ERR-body: a failed read of the request body reaches the error result of uploadReaderToChunks (no success return on the path where the read failed), every spawned chunk upload records its error in the shared error, the wait on all uploads precedes the inspection of that error and every success return; " +
			"(2) GUARD-commit: the PUT and POST handlers save metadata only on the nil-error edge of the upload, with exactly the chunk list, total size and inline content the upload returned, and a failed metadata write is reported; (3) PROV-offset: each chunk's offset is the running offset captured before its upload is spawned, advanced by the bytes read for that chunk; every byte read passes through the MD5 tee; " +
			"(4) APPEND-base: an append shifts every new chunk by the file size read before the loop (not modified inside it) and grows the size once by the appended length; (5) RETRY-reader: a chunk upload retried in a loop re-sends the same bytes — the byte reader created outside the loop is only acceptable because the uploader takes its bytes without consuming it. Byte equality and offset arithmetic over all sizes are not decided. Also decided: a worker writes the shared upload error only with a non-nil error.",
		Assumptions: []string{"bytes.Buffer.ReadFrom reports every reader error except io.EOF"},
		Trusted:     baseTrusted,
	})
}

func runC25(c *eng.Ctx) {

	// the size of an uploaded chunk is what this client sent (the clear length), not what the volume server answers: on
	// an "unchanged" answer to a retried upload the server reports size 0, and a chunk of size 0 is dropped from the file.
	// Every return of doUploadData that hands out a result has stored the clear length into it
	if fn := c.NeedFunc("weed/operation", "doUploadData"); fn != nil {
		sizeSt := func(in ssa.Instruction) bool {
			st, ok := in.(*ssa.Store)
			return ok && eng.IsField(st.Addr, "UploadResult.Size")
		}
		isNilRes := func(cond ssa.Value) (bool, bool) {
			b, ok := cond.(*ssa.BinOp)
			if !ok || !eng.IsNilConst(b.Y) || eng.TypeName(b.X.Type()) != "UploadResult" {
				return false, false
			}
			return true, b.Op == token.EQL
		}
		ups := eng.Find(fn, eng.PlainCallTo("operation.upload_content"))
		if len(ups) == 0 {
			c.Undecided("GUARD-commit", eng.FuncName(fn)+" chunk-size", fn.Pos(), "upload call not found")
		}
		for i, up := range ups {
			hit, path := eng.Search(eng.After(up), eng.IsReturn, eng.SearchOpt{Barrier: sizeSt, Cut: eng.PassEdges(fn, isNilRes)})
			c.Ob("GUARD-commit", fmt.Sprintf("%s chunk-size-is-what-was-sent#%d", eng.FuncName(fn), i), hit == nil && len(eng.Find(fn, sizeSt)) > 0, up.Pos(),
				"after an upload that produced a result, every return has set the result's size to the clear length this client sent"+pathNote(c.P, fn, hit, path))
		}
	}
	P := c.P
	up := c.NeedFunc("weed/server", "(*FilerServer).uploadReaderToChunks")
	if up != nil {
		// ---------------------------------------------------------------- (1) ERR-body
		rd := eng.Find(up, eng.PlainCallTo("bytes.Buffer).ReadFrom"))
		if len(rd) != 1 {
			c.Undecided("ERR-body", eng.FuncName(up), up.Pos(), "body read (Buffer.ReadFrom) not found")
		} else {
			c.ErrChecked("ERR-body", "body-read", up, rd, "a body that fails part-way fails the upload instead of committing the bytes read so far")
		}
		wait := eng.Find(up, eng.PlainCallTo("sync.WaitGroup).Wait"))
		succ := successReturns(up)
		if len(wait) != 1 || len(succ) == 0 {
			c.Undecided("ERR-body", eng.FuncName(up)+" wait", up.Pos(), "WaitGroup.Wait / success return not found")
		} else {
			c.Before("ERR-body", "wait-before-success", up, eng.Is(wait[0]), succ, "the result is returned only after every spawned chunk upload finished")
			// after the wait the shared error is inspected: success only on its nil edge
			var errAlloc ssa.Value
			for _, r := range eng.Find(up, eng.IsReturn) {
				if op := eng.ReturnErrOperand(r.(*ssa.Return)); op != nil {
					if u, ok := op.(*ssa.UnOp); ok {
						errAlloc = u.X
					}
				}
			}
			isShared := func(v ssa.Value) bool {
				u, ok := v.(*ssa.UnOp)
				return ok && errAlloc != nil && u.X == errAlloc
			}
			nilEdge := eng.PassEdges(up, eng.Cmp(isShared, eng.IsNilConst, token.EQL))
			okInspect := len(nilEdge) > 0
			if okInspect {
				for _, r := range succ {
					if hit, _ := eng.Search(eng.After(wait[0]), eng.Is(r), eng.SearchOpt{Cut: nilEdge}); hit != nil {
						okInspect = false
					}
				}
			}
			c.Ob("ERR-body", eng.FuncName(up)+" error-inspected-after-wait", okInspect, wait[0].Pos(), "after all uploads finished, success is returned only when the shared upload error is nil")
		}
		// the spawned closure records the chunk error
		var worker *ssa.Function
		for _, g := range eng.Find(up, func(in ssa.Instruction) bool { _, ok := in.(*ssa.Go); return ok }) {
			if f := eng.StaticFn(g.(*ssa.Go)); f != nil {
				worker = f
			}
		}
		if worker == nil {
			c.Undecided("ERR-body", eng.FuncName(up)+" worker", up.Pos(), "spawned upload closure not found")
		} else {
			c.Touch(worker)
			d2c := eng.Find(worker, eng.PlainCallTo("server.FilerServer).dataToChunk"))
			okRec := len(d2c) == 1
			if okRec {
				e := eng.ErrOf(d2c[0])
				var stores []ssa.Instruction
				for _, in := range eng.Find(worker, func(in ssa.Instruction) bool {
					st, ok := in.(*ssa.Store)
					if !ok {
						return false
					}
					fv, isFV := st.Addr.(*ssa.FreeVar)
					return isFV && fv.Name() == "uploadErr" && eng.SameVar(st.Val, e)
				}) {
					stores = append(stores, in)
				}
				okRec = len(stores) == 1
				// the shared error is sticky: no store into it from the worker may carry a nil (a sibling chunk that
				// succeeds later must not erase an earlier failure)
				for _, in := range eng.Find(worker, func(in ssa.Instruction) bool {
					st, ok := in.(*ssa.Store)
					if !ok {
						return false
					}
					fv, isFV := st.Addr.(*ssa.FreeVar)
					return isFV && fv.Name() == "uploadErr"
				}) {
					st := in.(*ssa.Store)
					nonNil := eng.PassEdges(worker, eng.ErrNotNil(st.Val))
					sticky := len(nonNil) > 0
					if sticky {
						if hit, _ := eng.Search(eng.Entry(worker), eng.Is(st), eng.SearchOpt{Cut: nonNil}); hit != nil {
							sticky = false
						}
					}
					c.Ob("ERR-body", eng.FuncName(worker)+" shared-error-is-sticky", sticky, st.Pos(), "a worker writes the shared upload error only with a non-nil error (a later successful chunk cannot erase an earlier failure)")
				}
				if okRec {
					for _, st := range startsOf(eng.PassEdges(worker, eng.ErrNotNil(e))) {
						if hit, _ := eng.Search(st, eng.IsReturn, eng.SearchOpt{Barrier: eng.Is(stores[0])}); hit != nil {
							okRec = false
						}
					}
				}
				// offset provenance: the closure's parameter
				call := d2c[0].(*ssa.Call)
				okOff := false
				if p, isP := eng.Arg(call, 3).(*ssa.Parameter); isP && len(worker.Params) == 1 && p == worker.Params[0] {
					okOff = true
				}
				c.Ob("PROV-offset", eng.FuncName(up)+" chunk-offset-is-spawn-argument", okOff, call.Pos(), "a chunk is stored at the offset handed to its upload goroutine when it was spawned (not at a variable the loop keeps advancing)")
			}
			c.Ob("ERR-body", eng.FuncName(up)+" worker-records-error", okRec, worker.Pos(), "a failed chunk upload is recorded in the shared error on every path")
			// spawn argument = running offset before it is advanced; the advance adds the bytes read
			for _, g := range eng.Find(up, func(in ssa.Instruction) bool { _, ok := in.(*ssa.Go); return ok }) {
				goi := g.(*ssa.Go)
				if len(goi.Call.Args) == 0 || len(rd) != 1 {
					continue
				}
				arg := goi.Call.Args[len(goi.Call.Args)-1]
				size := eng.ResultOf(rd[0], 0)
				adv := eng.Find(up, func(in ssa.Instruction) bool {
					b, ok := in.(*ssa.BinOp)
					same := func(x, y ssa.Value) bool { return x == y || sameLoadedVar(x, y) || eng.SameVar(x, y) }
					return ok && b.Op == token.ADD && ((same(b.X, arg) && same(b.Y, size)) || (same(b.Y, arg) && same(b.X, size)))
				})
				okAdv := false
				for _, a := range adv {
					if eng.Dominates(goi, a) {
						okAdv = true
					}
				}
				c.Ob("PROV-offset", eng.FuncName(up)+" offset-advances-by-bytes-read", okAdv, goi.Pos(), "the running offset handed to the upload is advanced, after the spawn, by exactly the bytes read for that chunk")
			}
		}
		// md5 tee
		lim := eng.Find(up, eng.PlainCallTo("io.LimitReader"))
		okTee := len(lim) == 1 && len(rd) == 1
		if okTee {
			okTee = eng.Mentions(lim[0].(*ssa.Call).Call.Args[0], 6, func(x ssa.Value) bool {
				call, ok := x.(*ssa.Call)
				return ok && eng.CalleeIs(call, "io.TeeReader") && eng.Mentions(call.Call.Args[0], 3, func(y ssa.Value) bool { return eng.IsParamLike(y, "reader") })
			}) && eng.MentionsValue(eng.Arg(rd[0].(*ssa.Call), 0), lim[0].(*ssa.Call))
		}
		c.Ob("PROV-offset", eng.FuncName(up)+" reads-through-md5-tee", okTee, up.Pos(), "every chunk is read from the request body through the MD5 tee, limited to the chunk size")
	}
	c.Expect("ERR-body", 5)
	c.Expect("PROV-offset", 3)

	// ---------------------------------------------------------------- (2) GUARD-commit
	for _, name := range []string{"(*FilerServer).doPutAutoChunk", "(*FilerServer).doPostAutoChunk"} {
		fn := c.NeedFunc("weed/server", name)
		if fn == nil {
			continue
		}
		u := eng.Find(fn, eng.PlainCallTo("server.FilerServer).uploadReaderToChunks"))
		s := eng.Find(fn, eng.PlainCallTo("server.FilerServer).saveMetaData"))
		if len(u) != 1 || len(s) != 1 {
			c.Undecided("GUARD-commit", eng.FuncName(fn), fn.Pos(), "upload / saveMetaData calls not found")
			continue
		}
		c.Guard("GUARD-commit", "save-after-upload-ok", fn, eng.Entry(fn), s, eng.PassEdges(fn, eng.ErrNil(eng.ErrOf(u[0]))), "metadata is committed only when the whole body was uploaded")
		c.ErrChecked("GUARD-commit", "upload-error", fn, u, "an upload failure is the handler's result")
		call := s[0].(*ssa.Call)
		okArgs := eng.SameVar(eng.Arg(call, 6), eng.ResultOf(u[0], 0)) && eng.SameVar(eng.Arg(call, 7), eng.ResultOf(u[0], 2)) && eng.SameVar(eng.Arg(call, 8), eng.ResultOf(u[0], 4))
		c.Ob("GUARD-commit", eng.FuncName(fn)+" commits-what-was-uploaded", okArgs, call.Pos(), "the entry is built from the chunk list, total size and inline content the upload returned")
		// the returned error is saveMetaData's
		okRet := true
		for _, r := range eng.Find(fn, eng.IsReturn) {
			if r.Block() == fn.Recover {
				continue
			}
			if hit, _ := eng.Search(eng.After(s[0]), eng.Is(r), eng.SearchOpt{}); hit != nil {
				k := eng.ErrKindsFrom(eng.ReturnErrOperand(r.(*ssa.Return)), eng.ErrOf(s[0]), s[0])
				if !k["derived"] || k["nil"] {
					okRet = false
				}
			}
		}
		c.Ob("GUARD-commit", eng.FuncName(fn)+" reports-commit-error", okRet, s[0].Pos(), "the handler's error result after the commit is the commit's error")
	}
	if sm := c.NeedFunc("weed/server", "(*FilerServer).saveMetaData"); sm != nil {
		ce := eng.Find(sm, eng.PlainCallTo("filer.Filer).CreateEntry"))
		c.ErrChecked("GUARD-commit", "create-entry-error", sm, ce, "a refused metadata write is reported as the request's failure")
		// ---------------------------------------------------------------- (4) APPEND-base
		var inLoop, after []*ssa.Store
		for _, in := range eng.Find(sm, eng.StoreToField("Attr.FileSize")) {
			if len(eng.CycleOf(in.Block())) > 0 {
				inLoop = append(inLoop, in.(*ssa.Store))
			} else {
				after = append(after, in.(*ssa.Store))
			}
		}
		offStores := eng.Find(sm, eng.StoreToField("FileChunk.Offset"))
		okShift := len(offStores) == 1
		if okShift {
			b, ok := offStores[0].(*ssa.Store).Val.(*ssa.BinOp)
			okShift = ok && b.Op == token.ADD && eng.IsField(b.X, "FileChunk.Offset") && eng.MentionsField(b.Y, "Attr.FileSize") && len(eng.CycleOf(offStores[0].Block())) > 0
		}
		c.Ob("APPEND-base", eng.FuncName(sm)+" shift-by-file-size", okShift, sm.Pos(), "an appended chunk is placed at its own offset plus the current size of the file")
		c.Ob("APPEND-base", eng.FuncName(sm)+" base-not-modified-in-loop", len(inLoop) == 0, sm.Pos(), "the file size used as the base of the shift is not changed while the appended chunks are shifted")
		okGrow := false
		for _, st := range after {
			if b, ok := st.Val.(*ssa.BinOp); ok && b.Op == token.ADD && eng.IsField(b.X, "Attr.FileSize") && eng.Mentions(b.Y, 3, func(x ssa.Value) bool { return eng.IsParamLike(x, "chunkOffset") }) {
				okGrow = true
			}
		}
		c.Ob("APPEND-base", eng.FuncName(sm)+" size-grows-once-by-appended-length", okGrow, sm.Pos(), "after the shift the file size grows by the number of bytes appended")
		// merged chunk list: existing chunks followed by the new ones
		okMerge := false
		for _, in := range eng.Find(sm, func(in ssa.Instruction) bool {
			call, ok := in.(*ssa.Call)
			return ok && eng.CalleeIs(call, "builtin.append") && eng.MentionsField(call.Call.Args[0], "Entry.Chunks")
		}) {
			if eng.Mentions(in.(*ssa.Call).Call.Args[1], 3, func(x ssa.Value) bool { return eng.IsParamLike(x, "fileChunks") }) {
				okMerge = true
			}
		}
		c.Ob("APPEND-base", eng.FuncName(sm)+" keeps-existing-chunks", okMerge, sm.Pos(), "the appended chunks are added after the file's existing chunks")
	}
	c.Expect("GUARD-commit", 9)
	c.Expect("APPEND-base", 4)

	// ---------------------------------------------------------------- (5) RETRY-reader
	if d := c.NeedFunc("weed/server", "(*FilerServer).dataToChunk"); d != nil {
		ups := eng.Find(d, eng.PlainCallTo("server.FilerServer).doUpload"))
		if len(ups) != 1 || len(eng.CycleOf(ups[0].Block())) == 0 {
			c.Undecided("RETRY-reader", eng.FuncName(d), d.Pos(), "upload inside the retry loop not found")
		} else {
			rdr := eng.Arg(ups[0].(*ssa.Call), 1)
			mk, isCall := eng.Unwrap(rdr).(*ssa.Call)
			fresh := isCall && len(eng.CycleOf(mk.Block())) > 0
			isBytesReader := isCall && eng.CalleeIs(mk, "util.NewBytesReader") && eng.IsParamLike(mk.Call.Args[0], "data")
			c.Ob("RETRY-reader", eng.FuncName(d)+" reader-over-chunk-bytes", isBytesReader || fresh, ups[0].Pos(), "each attempt uploads from a reader over the chunk's bytes")
			if !fresh {
				// the reader survives a failed attempt only if the uploader does not consume it
				if du := c.NeedFunc("weed/operation", "doUpload"); du != nil {
					ra := eng.Find(du, eng.PlainCallTo("ioutil.ReadAll", "io.ReadAll"))
					isBR := func(cond ssa.Value) (bool, bool) {
						ex, ok := cond.(*ssa.Extract)
						if !ok || ex.Index != 1 {
							return false, false
						}
						ta, ok := ex.Tuple.(*ssa.TypeAssert)
						return ok && eng.TypeName(ta.AssertedType) == "BytesReader" && eng.IsParamLike(ta.X, "reader"), true
					}
					cut := eng.FailEdges(du, isBR)
					ok := len(cut) > 0
					for _, r := range ra {
						if !eng.IsParamLike(eng.Arg(r.(*ssa.Call), 0), "reader") {
							continue
						}
						if hit, _ := eng.Search(eng.Entry(du), eng.Is(r), eng.SearchOpt{Cut: cut}); hit != nil {
							ok = false
						}
					}
					c.Ob("RETRY-reader", eng.FuncName(du)+" does-not-consume-byte-reader", ok, du.Pos(), "the uploader takes the bytes of a *util.BytesReader without reading it, so the retry in dataToChunk (which reuses one reader for all attempts) re-sends the same bytes")
					// and the chain in between hands the same reader through
					for _, hop := range []struct {
						rel, fn, callee string
						idx             int
					}{
						{"weed/server", "(*FilerServer).doUpload", "operation.Upload", 3},
						{"weed/operation", "Upload", "operation.doUpload", 3},
					} {
						hf := c.NeedFunc(hop.rel, hop.fn)
						if hf == nil {
							continue
						}
						okHop := false
						for _, call := range eng.Find(hf, eng.CallTo(hop.callee)) {
							if _, isParam := eng.Arg(call.(ssa.CallInstruction), hop.idx).(*ssa.Parameter); isParam {
								okHop = true
							}
						}
						c.Ob("RETRY-reader", eng.FuncName(hf)+" forwards-reader", okHop, hf.Pos(), "the reader reaches the uploader unchanged")
					}
				}
			}
			// a failed assign or upload leads to another attempt or to an error result, never to a chunk
			c.ErrChecked("RETRY-reader", "upload-error", d, ups, "an upload that failed on every attempt fails the chunk")
		}
	}
	c.Expect("RETRY-reader", 4)
	_ = P
	_ = fmt.Sprint

	errAll(c, "ERR-write-paths", "weed/server", "an error of a callee on the HTTP write path reaches the caller", "(*FilerServer).doPostAutoChunk", "(*FilerServer).doPutAutoChunk", "(*FilerServer).dataToChunk")
	c.Expect("ERR-write-paths", 5)

	// the entry committed for the request carries the chunks uploaded for it: before the entry is handed to the
	// filer its chunk list is set to a value built from the uploaded chunks (after the optional manifest step), and
	// a failed commit hands exactly those uploaded chunks to deletion
	if fn := c.NeedFunc("weed/server", "(*FilerServer).saveMetaData"); fn != nil {
		create := eng.Find(fn, eng.PlainCallTo("filer.Filer).CreateEntry"))
		fromUpload := func(v ssa.Value) bool { return eng.IsParamLike(v, "fileChunks") }
		var sets []ssa.Instruction
		for _, in := range eng.Find(fn, eng.StoreToField("Entry.Chunks")) {
			if eng.Mentions(in.(*ssa.Store).Val, 10, fromUpload) {
				sets = append(sets, in)
			}
		}
		if len(create) != 1 {
			c.Undecided("GUARD-commit", eng.FuncName(fn)+" chunks", fn.Pos(), "commit call not found")
		} else {
			c.Before("GUARD-commit", "entry-carries-uploaded-chunks", fn, eng.AnyOf(sets), create, "the committed entry's chunk list is built from the chunks uploaded for this request")
			e := eng.ErrOf(create[0])
			okDel := false
			for _, in := range eng.Find(fn, eng.PlainCallTo("filer.Filer).DeleteChunks")) {
				if fromUpload(eng.Arg(in.(*ssa.Call), 0)) {
					okDel = true
					for _, st := range startsOf(eng.PassEdges(fn, eng.ErrNotNil(e))) {
						if hit, _ := eng.Search(st, eng.IsReturn, eng.SearchOpt{Barrier: eng.Is(in)}); hit != nil {
							okDel = false
						}
					}
					if hit, _ := eng.Search(eng.Entry(fn), eng.Is(in), eng.SearchOpt{Cut: eng.PassEdges(fn, eng.ErrNotNil(e))}); hit != nil {
						okDel = false // reachable although the commit succeeded
					}
				}
			}
			c.Ob("GUARD-commit", eng.FuncName(fn)+" failed-commit-deletes-uploaded-chunks", okDel, create[0].Pos(), "when the commit fails (and only then) the chunks uploaded for the request are handed to deletion")
		}
	}

	// the body is read to its end: the chunking loop is left only after a short read (the reader is exhausted), an
	// empty read or a read error — never after a full chunk, whatever is done with that chunk (inline or uploaded)
	if fn := c.NeedFunc("weed/server", "(*FilerServer).uploadReaderToChunks"); fn != nil {
		reads := eng.Find(fn, eng.PlainCallTo("bytes.Buffer).ReadFrom"))
		waits := eng.Find(fn, eng.PlainCallTo("sync.WaitGroup).Wait"))
		if len(reads) != 1 || len(waits) != 1 {
			c.Undecided("ERR-body", eng.FuncName(fn)+" reads-to-the-end", fn.Pos(), "chunk read / final wait not found")
		} else {
			// the error tested after a read of the body is the error that read returned, never a value that was cleared
			// in between (a body that ends early must not be committed as if it were complete)
			nTest := 0
			for _, b := range fn.Blocks {
				iff, ok := b.Instrs[len(b.Instrs)-1].(*ssa.If)
				if !ok {
					continue
				}
				if _, loop := eng.InnermostLoop(reads[0].Block()); !loop[b] {
					continue // the test of the recorded error after the loop joins the "nothing failed" initial value
				}
				eng.Walk(iff.Cond, 4, func(v ssa.Value) bool {
					bo, isB := v.(*ssa.BinOp)
					if !isB || bo.Op != token.NEQ || !eng.IsNilConst(bo.Y) || !eng.IsErrorType(bo.X.Type()) {
						return true
					}
					vals := eng.ResolveFrom(bo.X, iff)
					mine := false
					for _, x := range vals {
						if x == eng.ResultOf(reads[0], 1) {
							mine = true
						}
					}
					if !mine {
						return true
					}
					nTest++
					pure := true
					for _, x := range vals {
						if x != eng.ResultOf(reads[0], 1) {
							pure = false
						}
					}
					c.Ob("ERR-body", fmt.Sprintf("%s read-error-tested-as-returned#%d", eng.FuncName(fn), nTest), pure, iff.Pos(), "the error tested after a body read is the one the read returned (not cleared or replaced on some path)")
					return true
				})
			}
			if nTest == 0 {
				c.Undecided("ERR-body", eng.FuncName(fn)+" read-error-tested-as-returned", fn.Pos(), "test of the body read error not found")
			}
			n := eng.ResultOf(reads[0], 0)
			e := eng.ResultOf(reads[0], 1)
			short := func(cond ssa.Value) (bool, bool) {
				b, ok := cond.(*ssa.BinOp)
				if !ok {
					return false, false
				}
				if b.X == n && eng.Mentions(b.Y, 3, func(v ssa.Value) bool { return eng.IsParamLike(v, "chunkSize") }) {
					switch b.Op {
					case token.LSS:
						return true, true
					case token.GEQ:
						return true, false
					}
				}
				if b.X == n && isZero(b.Y) && b.Op == token.EQL {
					return true, true
				}
				return false, false
			}
			done := eng.MergeEdges(eng.PassEdges(fn, short), eng.PassEdges(fn, eng.ErrNotNil(e)))
			hit, path := eng.Search(eng.After(reads[0]), eng.Is(waits[0]), eng.SearchOpt{Cut: done, Barrier: eng.Is(reads[0])})
			c.Ob("ERR-body", eng.FuncName(fn)+" reads-to-the-end", hit == nil && len(done) >= 2, reads[0].Pos(), "the chunking loop ends only after a short or empty read or a read error"+pathNote(P, fn, hit, path))
		}
	}
}
