package props

import (
	"fmt"
	"go/token"
	"go/types"
	"strings"

	"golang.org/x/tools/go/ssa"

	"verif/sa/eng"
)

func init() {
	register(&Prop{
		ID:  "C36",
		Run: runC36,
		Explanation: "Static decision of the structure of change replication: (1) PREFIXDIR: every decision 'this path lies inside the source directory' is more than a bare strings.HasPrefix(path, dir) — the directory operand carries a trailing separator, or the test is paired with an equality test (a sibling whose name merely starts with the directory's name is outside); (2) PROV-key: the path handed to the sink is the target directory joined with the source path minus the source directory's length; " +
			"(3) CASES: the event processor deletes for (old, no new), creates for (no old, new), and for a rename chooses update / create / delete from the four inside-outside combinations of old and new key, never returning early on the new parent before that decision; the replicator skips events that originated from the other cluster when the sink is a filer; (4) PARAM-sink: the sinks the property names (filer, local) use the new parent path and the new entry in UpdateEntry (a move cannot be mirrored by a sink that ignores where the entry went), and the local sink truncates the destination when it rewrites a file. Equality of mirrored contents over histories is not decided.",
		Assumptions: []string{"util.Join and FullPath.Child insert exactly one separator"},
		Trusted:     baseTrusted,
	})
}

func runC36(c *eng.Ctx) {

	// the local sink looks at the target's parent directory on every create (Stat, MkdirAll when it is missing): a
	// directory removed by an earlier delete event is created again; no path to the file creation skips the look
	if fn := c.NeedFunc("weed/replication/sink/localsink", "(*LocalSink).CreateEntry"); fn != nil {
		opens := eng.Find(fn, eng.PlainCallTo("os.OpenFile", "os.Create"))
		stat := eng.PlainCallTo("os.Stat", "os.MkdirAll")
		if len(opens) == 0 {
			c.Undecided("PARAM-sink", eng.FuncName(fn)+" parent-directory", fn.Pos(), "file creation not found")
		}
		c.Before("PARAM-sink", "parent-directory-ensured-on-every-create", fn, stat, opens, "the parent directory is examined (and created when missing) before every file creation")
	}

	// FIELDS-origin: everything a filer sink applies to the target filer is marked as coming from another cluster and
	// carries the signatures of the event (the filers it already passed through): the opposite direction of an
	// active-active sync recognises its own changes by them. Create, update and delete must all forward both.
	nReq := 0
	for _, fn := range c.P.SrcFuncs("weed/replication/sink/filersink") {
		for _, f := range []*ssa.Function{fn} {
			for i, in := range eng.Find(f, func(in ssa.Instruction) bool {
				a, ok := in.(*ssa.Alloc)
				if !ok {
					return false
				}
				n := eng.TypeName(a.Type())
				return n == "CreateEntryRequest" || n == "UpdateEntryRequest" || n == "DeleteEntryRequest"
			}) {
				al := in.(*ssa.Alloc)
				nReq++
				c.Touch(f)
				sig, other := false, false
				for _, r := range *al.Referrers() {
					fa, ok := r.(*ssa.FieldAddr)
					if !ok {
						continue
					}
					for _, rr := range *fa.Referrers() {
						st, isSt := rr.(*ssa.Store)
						if !isSt {
							continue
						}
						switch structFieldName(al.Type(), fa.Field) {
						case "Signatures":
							sig = eng.IsParamLike(eng.Unwrap(st.Val), "signatures")
						case "IsFromOtherCluster":
							k, isK := eng.ConstBool(st.Val)
							other = isK && k
						}
					}
				}
				c.Ob("FIELDS-origin", fmt.Sprintf("%s %s#%d", eng.FuncName(f), eng.TypeName(al.Type()), i), sig && other, al.Pos(),
					"the request sent to the target filer carries the event's signatures and the from-other-cluster mark")
			}
		}
		for i, in := range eng.Find(fn, eng.PlainCallTo("filer_pb.Remove")) {
			call := in.(*ssa.Call)
			nReq++
			c.Touch(fn)
			n := len(call.Call.Args)
			k, isK := eng.ConstBool(call.Call.Args[n-2])
			c.Ob("FIELDS-origin", fmt.Sprintf("%s filer_pb.Remove#%d", eng.FuncName(fn), i), isK && k && eng.IsParamLike(eng.Unwrap(call.Call.Args[n-1]), "signatures"), call.Pos(),
				"the delete sent to the target filer carries the event's signatures and the from-other-cluster mark")
		}
	}
	// ... and the shared delete helper puts both into the request it sends
	if rm := c.P.Func("weed/pb/filer_pb", "Remove"); rm != nil {
		for _, f := range eng.WithAnon(rm) {
			for i, in := range eng.Find(f, func(in ssa.Instruction) bool {
				a, ok := in.(*ssa.Alloc)
				return ok && eng.TypeName(a.Type()) == "DeleteEntryRequest"
			}) {
				al := in.(*ssa.Alloc)
				c.Touch(f)
				sig, other := false, false
				for _, r := range *al.Referrers() {
					fa, ok := r.(*ssa.FieldAddr)
					if !ok {
						continue
					}
					for _, rr := range *fa.Referrers() {
						st, isSt := rr.(*ssa.Store)
						if !isSt {
							continue
						}
						switch structFieldName(al.Type(), fa.Field) {
						case "Signatures":
							sig = eng.IsParamLike(eng.Unwrap(st.Val), "signatures")
						case "IsFromOtherCluster":
							other = eng.IsParamLike(eng.Unwrap(st.Val), "isFromOtherCluster")
						}
					}
				}
				c.Ob("FIELDS-origin", fmt.Sprintf("%s DeleteEntryRequest#%d", eng.FuncName(f), i), sig && other, al.Pos(),
					"the delete helper forwards the caller's signatures and from-other-cluster mark into the request")
			}
		}
	}
	if nReq < 3 {
		c.Undecided("FIELDS-origin", "discovery", token.NoPos, fmt.Sprintf("only %d requests to the target filer found (expected 3)", nReq))
	}
	P := c.P
	// ---------------------------------------------------------------- (1) PREFIXDIR
	type dsite struct {
		rel, fn string
		dirIs   func(ssa.Value) bool
	}
	isSourcePath := func(v ssa.Value) bool {
		return eng.Mentions(v, 4, func(x ssa.Value) bool {
			if eng.IsParamLike(x, "sourcePath") {
				return true
			}
			return eng.IsField(x, "FilerSource.Dir")
		})
	}
	sitesFn := []dsite{
		{"weed/replication", "(*Replicator).Replicate", isSourcePath},
		{"weed/command", "genProcessFunction", isSourcePath},
	}
	nPrefix := 0
	for _, s := range sitesFn {
		root := c.NeedFunc(s.rel, s.fn)
		if root == nil {
			continue
		}
		for _, fn := range eng.WithAnon(root) {
			ord := 0
			for _, in := range eng.Find(fn, eng.PlainCallTo("strings.HasPrefix")) {
				call := in.(*ssa.Call)
				if !s.dirIs(call.Call.Args[1]) {
					continue
				}
				ord++
				nPrefix++
				c.Touch(fn)
				// accepted: the prefix operand ends in a separator (dir + "/"), or the same condition also tests equality
				withSep := eng.Mentions(call.Call.Args[1], 4, func(x ssa.Value) bool {
					b, ok := x.(*ssa.BinOp)
					if !ok || b.Op != token.ADD {
						return false
					}
					sfx, isS := eng.ConstString(b.Y)
					return isS && sfx == "/"
				})
				pairedEq := false
				for _, b := range fn.Blocks {
					for _, i2 := range b.Instrs {
						if bo, ok := i2.(*ssa.BinOp); ok && (bo.Op == token.EQL || bo.Op == token.NEQ) {
							if (eng.SameExpr(bo.X, call.Call.Args[0]) && s.dirIs(bo.Y)) || (eng.SameExpr(bo.Y, call.Call.Args[0]) && s.dirIs(bo.X)) {
								pairedEq = true
							}
						}
					}
				}
				viaHelper := false
				c.Ob("PREFIXDIR", fmt.Sprintf("%s containment#%d", eng.FuncName(fn), ord), withSep || pairedEq || viaHelper, call.Pos(),
					"a bare HasPrefix(path, dir) also accepts the sibling dir+\"2\": containment needs dir+\"/\" (or an equality test beside it)")
			}
		}
	}
	if nPrefix < 7 {
		c.Undecided("PREFIXDIR", "discovery", token.NoPos, fmt.Sprintf("only %d containment tests on the source directory found, expected >= 7", nPrefix))
	}

	// ---------------------------------------------------------------- (2) PROV-key
	if bk := c.NeedFunc("weed/command", "buildKey"); bk != nil {
		okAll := true
		n := 0
		for _, j := range eng.Find(bk, eng.PlainCallTo("util.Join")) {
			n++
			vals := eng.VarargValues(j.(*ssa.Call).Call.Args[0])
			okFirst := len(vals) >= 2 && eng.IsParamLike(vals[0], "targetPath")
			last := vals[len(vals)-1]
			okRest := false
			eng.Walk(last, 5, func(x ssa.Value) bool {
				if sl, ok := x.(*ssa.Slice); ok && sl.Low != nil && sl.High == nil {
					if call, isCall := sl.Low.(*ssa.Call); isCall && eng.CalleeIs(call, "builtin.len") && eng.IsParamLike(call.Call.Args[0], "sourcePath") && eng.Mentions(sl.X, 3, func(y ssa.Value) bool { return eng.IsParamLike(y, "sourceKey") }) {
						okRest = true
					}
				}
				return true
			})
			if !okFirst || !okRest {
				okAll = false
			}
		}
		c.Ob("PROV-key", eng.FuncName(bk)+" mapped-path", okAll && n == 2, bk.Pos(), "the sink path is targetPath joined with sourceKey[len(sourcePath):] (both for plain and incremental sinks)")
	}
	if rp := c.NeedFunc("weed/replication", "(*Replicator).Replicate"); rp != nil {
		ok := false
		for _, j := range eng.Find(rp, eng.PlainCallTo("util.Join")) {
			vals := eng.VarargValues(j.(*ssa.Call).Call.Args[0])
			if len(vals) < 2 {
				continue
			}
			okFirst := eng.MentionsCall(vals[0], "sink.ReplicationSink).GetSinkToDirectory")
			okRest := false
			eng.Walk(vals[len(vals)-1], 5, func(x ssa.Value) bool {
				if sl, isSl := x.(*ssa.Slice); isSl && sl.Low != nil && sl.High == nil {
					if call, isCall := sl.Low.(*ssa.Call); isCall && eng.CalleeIs(call, "builtin.len") && eng.MentionsField(call.Call.Args[0], "FilerSource.Dir") && eng.IsParamLike(sl.X, "key") {
						okRest = true
					}
				}
				return true
			})
			ok = okFirst && okRest
		}
		c.Ob("PROV-key", eng.FuncName(rp)+" mapped-path", ok, rp.Pos(), "the sink path is the sink directory joined with key[len(source dir):]")
		// other-cluster events are not re-applied to a filer sink
		other := eng.PassEdges(rp, eng.BoolVal(true, func(v ssa.Value) bool { return eng.IsField(v, "EventNotification.IsFromOtherCluster") }))
		okSkip := len(other) > 0
		for _, st := range startsOf(other) {
			// on the edge where the sink is a filer, no sink mutation is reachable
			isFiler := eng.PassEdges(rp, func(cond ssa.Value) (bool, bool) {
				b, ok := cond.(*ssa.BinOp)
				if !ok || (b.Op != token.EQL && b.Op != token.NEQ) || !eng.MentionsCall(b.X, "sink.ReplicationSink).GetName") {
					return false, false
				}
				s, isS := eng.ConstString(b.Y)
				return isS && s == "filer", b.Op == token.EQL
			})
			for _, st2 := range startsOf(isFiler) {
				if hit, _ := eng.Search(st2, eng.PlainCallTo("sink.ReplicationSink).CreateEntry", "sink.ReplicationSink).UpdateEntry", "sink.ReplicationSink).DeleteEntry"), eng.SearchOpt{}); hit != nil {
					okSkip = false
				}
			}
			_ = st
			if len(isFiler) == 0 {
				okSkip = false
			}
		}
		c.Ob("CASES", eng.FuncName(rp)+" skip-other-cluster-for-filer", okSkip, rp.Pos(), "a change that originated from the other cluster is not applied again to a filer sink")
	}

	// ---------------------------------------------------------------- (3) CASES in the event processor
	if gp := c.NeedFunc("weed/command", "genProcessFunction"); gp != nil && len(gp.AnonFuncs) == 1 {
		fn := gp.AnonFuncs[0]
		c.Touch(fn)
		del := eng.Find(fn, eng.PlainCallTo("sink.ReplicationSink).DeleteEntry"))
		cre := eng.Find(fn, eng.PlainCallTo("sink.ReplicationSink).CreateEntry"))
		upd := eng.Find(fn, eng.PlainCallTo("sink.ReplicationSink).UpdateEntry"))
		// abstract points over (old present, new present, old inside, new inside)
		isNil := func(field string) func(ssa.Value) (bool, bool, bool) {
			return func(v ssa.Value) (bool, bool, bool) {
				b, ok := v.(*ssa.BinOp)
				if !ok || (b.Op != token.EQL && b.Op != token.NEQ) || !eng.IsNilConst(b.Y) || !eng.IsField(b.X, field) {
					return false, false, false
				}
				return true, b.Op == token.NEQ, true // (matched, "present" holds on true edge when NEQ)
			}
		}
		oldT, newT := isNil("EventNotification.OldEntry"), isNil("EventNotification.NewEntry")
		inside := func(which string) func(ssa.Value) bool {
			return func(v ssa.Value) bool {
				call, ok := v.(*ssa.Call)
				if !ok || !eng.CalleeIs(call, "strings.HasPrefix") {
					return false
				}
				// sourceOldKey / sourceNewKey are built from resp.Directory / message.NewParentPath
				a := call.Call.Args[0]
				switch which {
				case "old":
					return eng.MentionsField(a, "EventNotification.OldEntry") || (eng.MentionsField(a, "SubscribeMetadataResponse.Directory") && eng.MentionsCall(a, "util.FullPath).Child"))
				case "new":
					// the new key, or the new parent it is built from
					return eng.MentionsField(a, "EventNotification.NewParentPath")
				case "dir":
					return eng.MentionsField(a, "SubscribeMetadataResponse.Directory") && !eng.MentionsCall(a, "util.FullPath).Child")
				}
				return false
			}
		}
		type pt struct{ old, new, oldIn, newIn bool }
		reach := func(p pt) (string, bool) {
			oracle := func(v ssa.Value) (bool, bool) {
				if m, pres, _ := oldT(v); m {
					if pres {
						return p.old, true
					}
					return !p.old, true
				}
				if m, pres, _ := newT(v); m {
					if pres {
						return p.new, true
					}
					return !p.new, true
				}
				if b, ok := v.(*ssa.BinOp); ok && (b.Op == token.EQL || b.Op == token.NEQ) && eng.IsField(b.X, "EventNotification.NewParentPath") {
					if str, isS := eng.ConstString(b.Y); isS && str == "" {
						// an event with a new entry names its new parent
						return p.new == (b.Op == token.NEQ), true
					}
				}
				if inside("dir")(v) {
					return true, true // the event's directory is inside (the outside case is the early skip)
				}
				if inside("old")(v) {
					return p.oldIn, true
				}
				if inside("new")(v) {
					return p.newIn, true
				}
				if call, ok := v.(*ssa.Call); ok && eng.CalleeIs(call, "sink.ReplicationSink).IsIncremental") {
					return false, true
				}
				if eng.IsParamLike(v, "debug") {
					return false, true
				}
				if u, ok := v.(*ssa.UnOp); ok && u.Op == token.MUL {
					if fv, isFV := u.X.(*ssa.FreeVar); isFV && fv.Name() == "debug" {
						return false, true
					}
				}
				return false, false
			}
			cut := eng.CutUnder(fn, oracle)
			var got []string
			undecided := false
			for _, in := range eng.ReachableInstrs(eng.Entry(fn), cut) {
				switch {
				case eng.AnyOf(del)(in):
					got = append(got, "delete")
				case eng.AnyOf(cre)(in):
					got = append(got, "create")
				case eng.AnyOf(upd)(in):
					got = append(got, "update")
				}
			}
			_ = undecided
			return strings.Join(uniq(sortStrings(got)), "+"), true
		}
		want := map[pt]string{
			{true, false, true, false}:   "delete",
			{false, true, false, true}:   "create",
			{true, true, true, true}:     "create+delete+update", // update, falling back to delete+create when the old entry is missing at the sink
			{true, true, true, false}:    "delete",
			{true, true, false, true}:    "create",
			{true, true, false, false}:   "",
			{false, false, false, false}: "",
		}
		for p, w := range want {
			got, _ := reach(p)
			c.Ob("CASES", fmt.Sprintf("%s old=%v new=%v oldInside=%v newInside=%v", eng.FuncName(fn), p.old, p.new, p.oldIn, p.newIn), got == w, fn.Pos(),
				fmt.Sprintf("sink operations reachable: {%s}, required: {%s}", got, w))
		}
	}
	// the same decision in the replicator (weed filer.replicate): delete for (old, no new), create for (no old,
	// new), nothing for (no old, no new), update — with delete + create as the fallback when the sink does not have
	// the old entry — for (old, new)
	if fn := c.NeedFunc("weed/replication", "(*Replicator).Replicate"); fn != nil {
		del := eng.Find(fn, eng.PlainCallTo("sink.ReplicationSink).DeleteEntry"))
		cre := eng.Find(fn, eng.PlainCallTo("sink.ReplicationSink).CreateEntry"))
		upd := eng.Find(fn, eng.PlainCallTo("sink.ReplicationSink).UpdateEntry"))
		present := func(field string, v ssa.Value) (matched, presentOnTrue bool) {
			b, ok := v.(*ssa.BinOp)
			if !ok || (b.Op != token.EQL && b.Op != token.NEQ) || !eng.IsNilConst(b.Y) || !eng.IsField(b.X, field) {
				return false, false
			}
			return true, b.Op == token.NEQ
		}
		type pt struct{ old, new bool }
		reach := func(p pt) string {
			oracle := func(v ssa.Value) (bool, bool) {
				if m, onTrue := present("EventNotification.OldEntry", v); m {
					return p.old == onTrue, true
				}
				if m, onTrue := present("EventNotification.NewEntry", v); m {
					return p.new == onTrue, true
				}
				if call, ok := v.(*ssa.Call); ok && eng.CalleeIs(call, "strings.HasPrefix") {
					return true, true // inside the replicated directory (the outside case is the early skip)
				}
				if eng.IsField(v, "EventNotification.IsFromOtherCluster") {
					return false, true
				}
				if call, ok := v.(*ssa.Call); ok && eng.CalleeIs(call, "sink.ReplicationSink).IsIncremental") {
					return false, true
				}
				return false, false
			}
			cut := eng.CutUnder(fn, oracle)
			var got []string
			for _, in := range eng.ReachableInstrs(eng.Entry(fn), cut) {
				switch {
				case eng.AnyOf(del)(in):
					got = append(got, "delete")
				case eng.AnyOf(cre)(in):
					got = append(got, "create")
				case eng.AnyOf(upd)(in):
					got = append(got, "update")
				}
			}
			return strings.Join(uniq(sortStrings(got)), "+")
		}
		for p, w := range map[pt]string{{true, false}: "delete", {false, true}: "create", {false, false}: "", {true, true}: "create+delete+update"} {
			got := reach(p)
			c.Ob("CASES", fmt.Sprintf("%s old=%v new=%v", eng.FuncName(fn), p.old, p.new), got == w, fn.Pos(), fmt.Sprintf("sink operations reachable: {%s}, required: {%s}", got, w))
		}
		// the fallback (delete + create) runs only when the update did not find the entry at the sink
		if len(upd) == 1 {
			found := eng.PassEdges(fn, eng.BoolVal(true, func(v ssa.Value) bool { return v == eng.ResultOf(upd[0], 0) }))
			var fallback []ssa.Instruction
			for _, in := range append(append([]ssa.Instruction{}, del...), cre...) {
				if eng.Dominates(upd[0], in) {
					fallback = append(fallback, in)
				}
			}
			okFb := len(found) > 0 && len(fallback) == 2
			for _, fb := range fallback {
				for _, st := range startsOf(found) {
					if hit, _ := eng.Search(st, eng.Is(fb), eng.SearchOpt{}); hit != nil {
						okFb = false
					}
				}
			}
			c.Ob("CASES", eng.FuncName(fn)+" fallback-only-when-not-found", okFb, upd[0].Pos(), "delete + create replace the update only when the sink did not find the old entry")
			// ... and always then: a sink reports "the target does not have this entry" as (false, lookup error), so the
			// fallback must not depend on the error of the update
			var first []ssa.Instruction
			for _, fb := range fallback {
				first = append(first, fb)
			}
			hit, path := eng.Search(eng.After(upd[0]), eng.IsReturn, eng.SearchOpt{Barrier: eng.AnyOf(first), Cut: found})
			c.Ob("CASES", eng.FuncName(fn)+" fallback-whenever-not-found", len(found) > 0 && len(first) > 0 && hit == nil, upd[0].Pos(),
				"whenever the sink did not find the old entry (whatever error it reports with that) the entry is re-created by delete + create"+pathNote(P, fn, hit, path))
		}
	}
	c.Expect("CASES", 14)

	// ---------------------------------------------------------------- (4) PARAM-sink
	for _, s := range []struct{ rel, typ string }{{"weed/replication/sink/filersink", "FilerSink"}, {"weed/replication/sink/localsink", "LocalSink"}} {
		fn := c.NeedFunc(s.rel, "(*"+s.typ+").UpdateEntry")
		if fn == nil {
			continue
		}
		for _, name := range []string{"newParentPath", "newEntry"} {
			used := false
			for _, p := range fn.Params {
				if p.Name() == name && p.Referrers() != nil && len(*p.Referrers()) > 0 {
					used = true
				}
			}
			c.Ob("PARAM-sink", eng.FuncName(fn)+" uses-"+name, used, fn.Pos(), "the sink's UpdateEntry takes "+name+" into account (a rename changes the parent; ignoring it leaves the entry at its old place)")
		}
	}
	if ce := c.NeedFunc("weed/replication/sink/localsink", "(*LocalSink).CreateEntry"); ce != nil {
		okTrunc := false
		for _, in := range eng.Find(ce, eng.PlainCallTo("os.OpenFile")) {
			if k, isK := eng.ConstInt(in.(*ssa.Call).Call.Args[1]); isK {
				const oTRUNC, oCREATE = 0x200, 0x40
				if k&oTRUNC != 0 && k&oCREATE != 0 && k&3 != 0 {
					okTrunc = true
				}
			}
		}
		c.Ob("PARAM-sink", eng.FuncName(ce)+" truncates-on-rewrite", okTrunc, ce.Pos(), "a file rewritten at the sink is opened writable with O_CREATE|O_TRUNC (a shorter new version must not keep the old tail)")
		cp := eng.Find(ce, eng.PlainCallTo("repl_util.CopyFromChunkViews"))
		c.ErrChecked("PARAM-sink", "copy-error", ce, cp, "a failed copy of the content fails the sink operation")
	}
	c.Expect("PARAM-sink", 6)
	_ = types.Typ
	_ = P

	errAll(c, "ERR-sink", "weed/replication/sink/filersink", "an error of a callee in the filer sink reaches the replicator", "(*FilerSink).UpdateEntry", "(*FilerSink).DeleteEntry", "(*FilerSink).replicateChunks", "(*FilerSink).replicateOneChunk", "(*FilerSink).fetchAndWrite")
	c.Expect("ERR-sink", 12)
}

func sortStrings(xs []string) []string {
	out := append([]string{}, xs...)
	for i := range out {
		for j := i + 1; j < len(out); j++ {
			if out[j] < out[i] {
				out[i], out[j] = out[j], out[i]
			}
		}
	}
	return out
}
