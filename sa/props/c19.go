package props

import (
	"fmt"
	"go/token"
	"go/types"
	"strings"

	"golang.org/x/tools/go/ssa"

	"verif/sa/eng"
)

func init() {
	register(&Prop{
		ID:  "C19",
		Run: runC19,
		Explanation: "Static decision of the pagination structure: (1) CURSOR: every call of a paged listing function that sits inside a loop passes a start-name argument that changes between iterations (a phi / variable fed from the call's own result or from the last delivered entry); " +
			"(2) SIB: the leveldb, leveldb2 and leveldb3 ListDirectoryPrefixedEntries each test the directory key prefix, skip the start name when not inclusive, decrement and test the limit per delivered entry, record lastFileName, stop when the callback returns false and decode through MaybeDecompressData; " +
			"(3) Filer.ListDirectoryEntries asks for limit+1 and trims to limit; (4) expired entries are counted and skipped without reaching the caller's callback, and the valid-entries loop re-lists from the last name for the missed count. Ordering guarantees of the stores' iterators and pattern semantics are not decided. Also decided: pages shortened by skipped entries are refilled in a loop whose condition tests the refill's own skipped count, resuming exclusively behind the last cursor for exactly the missing count; every entry the pattern filter swallows is counted; the generic prefix filter tests the limit between any two deliveries and returns the last delivered name as cursor when it stops at the limit.",
		Assumptions: []string{"leveldb iterators return keys in order (trusted library behaviour)"},
		Trusted:     append([]string{"github.com/syndtr/goleveldb iterator order"}, baseTrusted...),
	})
}

// pagedCallee: the callee has a string parameter named startFileName (the listing cursor).
func cursorParamIndex(sig *types.Signature) int {
	for i := 0; i < sig.Params().Len(); i++ {
		p := sig.Params().At(i)
		if p.Name() == "startFileName" || p.Name() == "startFrom" {
			return i
		}
	}
	return -1
}

func runC19(c *eng.Ctx) {
	P := c.P
	pagingEnds(c, "PAGING-ends")
	// (0) a listing asks the store the children were written to
	storeChoice(c, "SIB-store-choice")
	// (1) CURSOR
	nLoopCalls := cursorAdvances(c, "CURSOR-pagination", nil)
	// the generic prefix filter hands the caller's (start name, inclusive) pair to the store for the first page: when it
	// replaces the start name by something else, the caller's inclusive flag no longer describes it
	if fn := c.NeedFunc("weed/filer", "(*FilerStoreWrapper).prefixFilterEntries"); fn != nil {
		nFirst := 0
		for i, in := range eng.Find(fn, eng.PlainCallTo("filer.FilerStore).ListDirectoryEntries")) {
			if eng.InCycle(in.Block()) {
				continue
			}
			call := in.(*ssa.Call)
			ci := cursorParamIndex(call.Call.Signature())
			if ci < 0 {
				continue
			}
			nFirst++
			startPure, incPure := true, true
			for _, v := range eng.ResolveFrom(eng.Arg(call, ci), call) {
				if !eng.IsParam(v, "startFileName") {
					startPure = false
				}
			}
			for _, v := range eng.ResolveFrom(eng.Arg(call, ci+1), call) {
				if !eng.IsParam(v, "includeStartFile") {
					incPure = false
				}
			}
			c.Ob("CURSOR-pagination", fmt.Sprintf("%s first-page-pair#%d", eng.FuncName(fn), i), startPure || !incPure, call.Pos(),
				"the first page is requested with the caller's start name and the caller's inclusive flag together (a substituted start name with the caller's exclusive flag skips the entry of that name)")
		}
		if nFirst == 0 {
			c.Undecided("CURSOR-pagination", eng.FuncName(fn)+" first-page-pair", fn.Pos(), "first-page listing calls not found")
		}
	}
	c.Sites += nLoopCalls
	c.Expect("CURSOR-pagination", 5)

	// (2) sibling stores
	for _, s := range []struct{ pkg, typ string }{
		{"weed/filer/leveldb", "LevelDBStore"}, {"weed/filer/leveldb2", "LevelDB2Store"}, {"weed/filer/leveldb3", "LevelDB3Store"},
	} {
		fn := c.NeedFunc(s.pkg, "(*"+s.typ+").ListDirectoryPrefixedEntries")
		if fn == nil {
			continue
		}
		feat := map[string]bool{}
		var startSkipAtom, inclAtom bool
		for _, b := range fn.Blocks {
			for _, in := range b.Instrs {
				switch x := in.(type) {
				case *ssa.If:
					cond := x.Cond
					for {
						u, ok := cond.(*ssa.UnOp)
						if !ok || u.Op != token.NOT {
							break
						}
						cond = u.X
					}
					if call, ok := cond.(*ssa.Call); ok {
						if eng.CalleeIs(call, "bytes.HasPrefix") {
							feat["dir-prefix-test"] = true
						}
						if eng.IsParam(call.Call.Value, "eachEntryFunc") {
							feat["callback-false-stops"] = true
						}
					}
					if eng.IsParam(cond, "includeStartFile") {
						inclAtom = true
					}
					if bo, ok := cond.(*ssa.BinOp); ok {
						if (bo.Op == token.EQL || bo.Op == token.NEQ) && (eng.IsParam(bo.X, "startFileName") || eng.IsParam(bo.Y, "startFileName")) {
							if _, isC := eng.ConstString(bo.X); !isC {
								if _, isC2 := eng.ConstString(bo.Y); !isC2 {
									startSkipAtom = true
								}
							}
						}
						if bo.Op == token.LSS || bo.Op == token.LEQ || bo.Op == token.GTR || bo.Op == token.GEQ {
							if eng.MentionsParam(bo.X, "limit") || eng.MentionsParam(bo.Y, "limit") {
								feat["limit-tested"] = true
							}
						}
					}
				case *ssa.BinOp:
					if x.Op == token.SUB && eng.MentionsParam(x.X, "limit") {
						if k, ok := eng.ConstInt(x.Y); ok && k == 1 {
							feat["limit-decremented"] = true
						}
					}
				case *ssa.Call:
					if eng.CalleeIs(x, "filer.Entry).DecodeAttributesAndChunks") && eng.MentionsCall(eng.Arg(x, 0), "util.MaybeDecompressData") {
						feat["decode-via-decompress"] = true
					}
				}
			}
		}
		feat["start-name-excluded-when-not-inclusive"] = startSkipAtom && inclAtom
		// lastFileName result is assigned from the delivered file name: some return operand #0 is not the empty constant
		for _, r := range eng.Find(fn, eng.IsReturn) {
			for _, v := range eng.Resolve(r.(*ssa.Return).Results[0]) {
				if v == eng.Zero || v == nil {
					continue
				}
				if _, isC := eng.ConstString(v); !isC {
					feat["last-name-recorded"] = true
				}
			}
		}
		for _, f := range []string{"dir-prefix-test", "start-name-excluded-when-not-inclusive", "limit-decremented", "limit-tested", "last-name-recorded", "callback-false-stops", "decode-via-decompress"} {
			c.Ob("SIB-store-listing", eng.FuncName(fn)+" "+f, feat[f], fn.Pos(), "every embedded store's prefixed listing has this feature (siblings must agree)")
		}
		// the limit test must come before the entry is delivered: callback only on the limit-not-exhausted edge
		var cbs []ssa.Instruction
		for _, in := range eng.Find(fn, func(in ssa.Instruction) bool {
			cl, ok := in.(*ssa.Call)
			return ok && eng.IsParam(cl.Call.Value, "eachEntryFunc")
		}) {
			cbs = append(cbs, in)
		}
		limitOK := func(cond ssa.Value) (bool, bool) {
			bo, ok := cond.(*ssa.BinOp)
			if !ok || !(eng.MentionsParam(bo.X, "limit")) {
				return false, false
			}
			k, isC := eng.ConstInt(bo.Y)
			if !isC || k != 0 {
				return false, false
			}
			switch bo.Op {
			case token.LSS: // limit < 0 -> stop
				return true, false
			case token.GEQ:
				return true, true
			}
			return false, false
		}
		c.Guard("SIB-store-listing", "deliver-within-limit", fn, eng.Entry(fn), cbs, eng.PassEdges(fn, limitOK), "an entry is delivered only while the limit is not exhausted")
	}

	// (3) limit+1 and trim
	if fn := c.NeedFunc("weed/filer", "(*Filer).ListDirectoryEntries"); fn != nil {
		calls := eng.Find(fn, eng.PlainCallTo("filer.Filer).StreamListDirectoryEntries"))
		ok := false
		if len(calls) == 1 {
			a := eng.Arg(calls[0].(*ssa.Call), 4)
			if bo, isB := a.(*ssa.BinOp); isB && bo.Op == token.ADD && eng.IsParam(bo.X, "limit") {
				if k, isC := eng.ConstInt(bo.Y); isC && k == 1 {
					ok = true
				}
			}
		}
		c.Ob("PROV-limit-plus-one", eng.FuncName(fn)+" asks-limit+1", ok, fn.Pos(), "the listing asks the store for limit+1 entries to learn whether more exist")
		trim := false
		for _, in := range eng.Find(fn, func(in ssa.Instruction) bool { _, ok := in.(*ssa.Slice); return ok }) {
			s := in.(*ssa.Slice)
			if s.High != nil && eng.IsParam(s.High, "limit") {
				trim = true
			}
		}
		c.Ob("PROV-limit-plus-one", eng.FuncName(fn)+" trims-to-limit", trim, fn.Pos(), "the extra entry is trimmed so that at most limit entries are returned")
	}

	// (4) expired entries
	if fn := c.NeedFunc("weed/filer", "(*Filer).doListDirectoryEntries"); fn != nil {
		for _, cl := range fn.AnonFuncs {
			cbs := eng.Find(cl, func(in ssa.Instruction) bool {
				call, ok := in.(*ssa.Call)
				if !ok {
					return false
				}
				if u, ok := call.Call.Value.(*ssa.UnOp); ok {
					if fv, ok := u.X.(*ssa.FreeVar); ok && fv.Name() == "eachEntryFunc" {
						return true
					}
				}
				if fv, ok := call.Call.Value.(*ssa.FreeVar); ok && fv.Name() == "eachEntryFunc" {
					return true
				}
				return false
			})
			if len(cbs) == 0 {
				continue
			}
			or := func(v ssa.Value) (bool, bool) {
				if b, ok := v.(*ssa.BinOp); ok && eng.MentionsField(b.X, "Attr.TtlSec") {
					if k, isC := eng.ConstInt(b.Y); isC && k == 0 && b.Op == token.GTR {
						return true, true
					}
				}
				if call, ok := v.(*ssa.Call); ok && eng.CalleeIs(call, "time.Time).Before") {
					return true, true
				}
				return false, false
			}
			cut := eng.CutUnder(cl, or)
			for i, cb := range cbs {
				hit, _ := eng.Search(eng.Entry(cl), eng.Is(cb), eng.SearchOpt{Cut: cut})
				c.Ob("GUARD-expired-skipped", fmt.Sprintf("%s callback#%d", eng.FuncName(cl), i), hit == nil && len(cut) == 2, eng.InstrPos(cb), "an expired entry never reaches the caller's callback")
			}
			// expired entries are counted (so that the page is refilled)
			counted := len(eng.Find(cl, func(in ssa.Instruction) bool {
				s, ok := in.(*ssa.Store)
				if !ok {
					return false
				}
				fv, ok := s.Addr.(*ssa.FreeVar)
				return ok && fv.Name() == "expiredCount"
			})) > 0
			c.Ob("GUARD-expired-skipped", eng.FuncName(cl)+" expired-counted", counted, cl.Pos(), "skipped expired entries are counted so that the page can be refilled")
		}
	}
	c.Expect("GUARD-expired-skipped", 2)

	// (5) REFILL: a page shortened by skipped entries (expired, pattern misses) is refilled until nothing is
	// missing: the refill call sits in a loop, resumes behind the previous cursor (exclusive), asks for the
	// missing count, and its own count of skipped entries feeds the loop condition
	for _, spec := range []struct{ fn, callee string }{
		{"(*Filer).doListValidEntries", "filer.Filer).doListDirectoryEntries"},
		{"(*Filer).StreamListDirectoryEntries", "filer.Filer).doListPatternMatchedEntries"},
	} {
		fn := c.NeedFunc("weed/filer", spec.fn)
		if fn == nil {
			continue
		}
		calls := eng.Find(fn, eng.PlainCallTo(spec.callee))
		var first, refill *ssa.Call
		for _, in := range calls {
			if len(eng.CycleOf(in.Block())) > 0 {
				refill = in.(*ssa.Call)
			} else {
				first = in.(*ssa.Call)
			}
		}
		if first == nil || refill == nil || len(calls) != 2 {
			c.Ob("REFILL-page", eng.FuncName(fn)+" refill-loop", false, fn.Pos(), "the page is refilled in a loop until no skipped entry is left to replace (one listing outside, one inside a loop expected)")
			continue
		}
		c.Ob("REFILL-page", eng.FuncName(fn)+" refill-loop", true, refill.Pos(), "the page is refilled in a loop until no skipped entry is left to replace")
		cyc := eng.CycleOf(refill.Block())
		// the loop continues while the count (of the first call or of the previous refill) is positive
		countOf := func(call *ssa.Call) ssa.Value { return eng.ResultOf(call, 0) }
		okCond := false
		var countPhi ssa.Value
		for b := range cyc {
			iff, isIf := b.Instrs[len(b.Instrs)-1].(*ssa.If)
			if !isIf {
				continue
			}
			bo, isB := iff.Cond.(*ssa.BinOp)
			if !isB || bo.Op != token.GTR || !isZero(bo.Y) {
				continue
			}
			vals := eng.Resolve(bo.X)
			hasFirst, hasRefill := false, false
			for _, v := range vals {
				if v == countOf(first) {
					hasFirst = true
				}
				if v == countOf(refill) {
					hasRefill = true
				}
			}
			if hasFirst && hasRefill {
				okCond = true
				countPhi = bo.X
			}
		}
		c.Ob("REFILL-page", eng.FuncName(fn)+" loop-tests-refill-count", okCond, refill.Pos(), "the entries skipped by a refill are themselves refilled (the loop condition tests the count returned by the refill)")
		sig := refill.Call.Signature()
		ci := cursorParamIndex(sig)
		okArgs := ci >= 0
		if okArgs {
			// cursor = the last name returned so far, exclusive, limit = missing count
			off := 0
			if refill.Call.IsInvoke() == false && sig.Recv() != nil {
				off = 1
			}
			cur := refill.Call.Args[ci+off]
			incl := refill.Call.Args[ci+off+1]
			lim := refill.Call.Args[ci+off+2]
			curOK := false
			for _, v := range eng.Resolve(cur) {
				if v == eng.ResultOf(first, 1) || v == eng.ResultOf(refill, 1) {
					curOK = true
				}
				if eng.IsParamLike(v, "startFileName") {
					curOK = false
					break
				}
			}
			b, isConst := eng.ConstBool(incl)
			okArgs = curOK && isConst && !b && countPhi != nil && eng.SameExpr(lim, countPhi)
		}
		c.Ob("REFILL-page", eng.FuncName(fn)+" resumes-behind-cursor", okArgs, refill.Pos(), "a refill resumes behind the last name seen (exclusive) and asks for exactly the missing number of entries")
	}
	// every entry the pattern filter swallows is counted as missed (that count is what the refill asks for)
	if fn := c.NeedFunc("weed/filer", "(*Filer).doListPatternMatchedEntries"); fn != nil {
		n := 0
		for _, cl := range fn.AnonFuncs {
			deliver := eng.Find(cl, func(in ssa.Instruction) bool {
				call, ok := in.(*ssa.Call)
				return ok && eng.ParamName(call.Call.Value) == "eachEntryFunc"
			})
			if len(deliver) == 0 {
				continue
			}
			n++
			c.Touch(cl)
			counted := func(in ssa.Instruction) bool {
				st, ok := in.(*ssa.Store)
				if !ok {
					return false
				}
				fv, isFV := st.Addr.(*ssa.FreeVar)
				return isFV && fv.Name() == "missedCount"
			}
			hit, path := eng.Search(eng.Entry(cl), eng.IsReturn, eng.SearchOpt{Barrier: eng.Or(eng.AnyOf(deliver), counted)})
			c.Ob("REFILL-page", eng.FuncName(fn)+" every-filtered-entry-counted", hit == nil, cl.Pos(), "an entry the name patterns reject is counted as missed, so that the page is refilled"+pathNote(P, cl, hit, path))
		}
		if n == 0 {
			c.Undecided("REFILL-page", eng.FuncName(fn), fn.Pos(), "pattern filter callback not found")
		}
	}
	c.Expect("REFILL-page", 7)

	// (6) the generic prefix filter: the limit is tested between any two deliveries, and when it stops at the
	// limit inside a store batch the returned cursor is the last delivered name
	if fn := c.NeedFunc("weed/filer", "(*FilerStoreWrapper).prefixFilterEntries"); fn != nil {
		var cbs []ssa.Instruction
		for _, in := range eng.Find(fn, func(in ssa.Instruction) bool {
			cl, ok := in.(*ssa.Call)
			return ok && eng.IsParam(cl.Call.Value, "eachEntryFunc")
		}) {
			if len(eng.CycleOf(in.Block())) > 0 {
				cbs = append(cbs, in)
			}
		}
		notExhausted := func(cond ssa.Value) (bool, bool) {
			bo, ok := cond.(*ssa.BinOp)
			if !ok || !eng.IsParam(bo.Y, "limit") || eng.IsParam(bo.X, "limit") {
				return false, false
			}
			switch bo.Op {
			case token.LSS:
				return true, true
			case token.GEQ:
				return true, false
			}
			return false, false
		}
		goOn := eng.PassEdges(fn, notExhausted)
		stop := eng.FailEdges(fn, notExhausted)
		if len(cbs) != 1 || len(goOn) == 0 {
			c.Undecided("LIMIT-filter", eng.FuncName(fn), fn.Pos(), "delivery / limit test not found")
		} else {
			hit, _ := eng.Search(eng.After(cbs[0]), eng.Is(cbs[0]), eng.SearchOpt{Cut: goOn})
			c.Ob("LIMIT-filter", eng.FuncName(fn)+" limit-tested-between-deliveries", hit == nil, cbs[0].Pos(), "after each delivered entry the limit is tested before the next one is delivered")
			// cursor: on the exhausted edge inside the batch loop, the returned name is the delivered entry's
			okCur := false
			nInner := 0
			for e := range stop {
				iff := e.B.Instrs[len(e.B.Instrs)-1]
				if !cbs[0].Block().Dominates(e.B) {
					continue // the test of the outer loop, before any delivery of this batch
				}
				// only the test that directly follows a delivery (inside the batch loop)
				if h, _ := eng.Search(eng.After(cbs[0]), eng.Is(iff), eng.SearchOpt{Cut: eng.MergeEdges(goOn, stop)}); h == nil {
					continue
				}
				nInner++
				okCur = true
				for _, r := range eng.Find(fn, eng.IsReturn) {
					if h, _ := eng.Search(eng.Loc{B: e.B.Succs[e.I]}, eng.Is(r), eng.SearchOpt{Cut: goOn}); h == nil {
						continue
					}
					vals := eng.ResolveFromCut(r.(*ssa.Return).Results[0], iff, goOn)
					if len(vals) == 0 {
						okCur = false
					}
					for _, v := range vals {
						if !eng.MentionsCall(v, "filer.Entry).Name", "util.FullPath).Name") {
							okCur = false
						}
					}
				}
			}
			c.Ob("LIMIT-filter", eng.FuncName(fn)+" cursor-at-limit", okCur && nInner == 1, cbs[0].Pos(), "when delivery stops at the limit inside a store batch, the returned cursor is the last delivered name, not the batch's last name")
		}
	}
	c.Expect("LIMIT-filter", 2)
}

// continuationExclusive: the boolean v, used in block at inside a loop, is false whenever control arrives over a back
// edge of an enclosing loop: it is the constant false, or a loop-header phi whose back-edge operands are (recursively) so.
func continuationExclusive(v ssa.Value, at *ssa.BasicBlock) (bool, string) {
	seen := map[ssa.Value]bool{}
	var rec func(v ssa.Value, viaBack bool) (bool, string)
	rec = func(v ssa.Value, viaBack bool) (bool, string) {
		if k, ok := eng.ConstBool(v); ok {
			// a constant used at a call inside the loop is the value of every iteration, continuations included
			if !k {
				return true, ""
			}
			return false, ": the flag is true on a continuation"
		}
		if seen[v] {
			return true, ""
		}
		seen[v] = true
		if phi, ok := v.(*ssa.Phi); ok {
			h := phi.Block()
			loop := eng.NaturalLoop(h)
			isHeader := len(loop) > 0 && loop[at]
			for i, p := range h.Preds {
				// a join that is not the header of a loop around the call yields the same value on every iteration
				back := viaBack || !isHeader || h.Dominates(p)
				if !back {
					continue // first iteration: whatever the caller asked for
				}
				if ok, why := rec(phi.Edges[i], true); !ok {
					return false, why
				}
			}
			return true, ""
		}
		if !viaBack {
			// not a loop-carried value: the same request value is used on every iteration
			return false, ": the flag is recomputed from the request on every iteration instead of being cleared after the first page"
		}
		return false, ": the value arriving over the back edge is not the constant false"
	}
	return rec(v, false)
}

// cursorAdvances: every call of a paged listing function that sits inside a loop passes a start name that changes
// between iterations, and an inclusive flag that is false on every iteration but the first. only (optional) restricts
// the functions looked at by name. Returns the number of in-loop listing calls found.
func cursorAdvances(c *eng.Ctx, rule string, only map[string]bool) int {
	P := c.P
	nLoopCalls := 0
	for _, pkg := range []string{"weed/filer", "weed/server"} {
		for _, fn := range P.SrcFuncs(pkg) {
			if only != nil && !only[fn.Name()] {
				continue
			}
			ord := map[string]int{}
			for _, b := range fn.Blocks {
				for _, in := range b.Instrs {
					call, ok := in.(*ssa.Call)
					if !ok {
						continue
					}
					name := eng.Callee(call)
					if !(strings.Contains(name, "ListDirectoryEntries") || strings.Contains(name, "ListDirectoryPrefixedEntries") || strings.Contains(name, "doListDirectoryEntries") ||
						strings.Contains(name, "doListPatternMatchedEntries") || strings.Contains(name, "doListValidEntries")) {
						continue
					}
					sig := call.Call.Signature()
					ci := cursorParamIndex(sig)
					if ci < 0 {
						continue
					}
					if !eng.InCycle(b) {
						continue
					}
					// a loop that lists a *different* directory per iteration is not a pagination loop
					dirVaries := false
					for i := 0; i < sig.Params().Len(); i++ {
						if strings.HasSuffix(sig.Params().At(i).Type().String(), "util.FullPath") {
							if a := eng.Arg(call, i); a != nil && eng.LoopVariant(a, b) {
								dirVaries = true
							}
						}
					}
					if dirVaries {
						continue
					}
					short := name[strings.LastIndex(name, ".")+1:]
					ord[short]++
					nLoopCalls++
					c.Touch(fn)
					arg := eng.Arg(call, ci)
					ok2 := arg != nil && eng.LoopVariant(arg, b)
					c.Ob(rule, fmt.Sprintf("%s %s#%d", eng.FuncName(fn), short, ord[short]), ok2, call.Pos(),
						"a listing call repeated in a loop must advance its start name between iterations (otherwise the same page is read again)")
					// the page after the first continues behind the last name already delivered: the inclusive flag that
					// arrives over the loop's back edge is false
					if ci+1 < sig.Params().Len() && sig.Params().At(ci+1).Type().String() == "bool" {
						okInc, why := continuationExclusive(eng.Arg(call, ci+1), b)
						c.Ob(rule, fmt.Sprintf("%s %s#%d continuation-exclusive", eng.FuncName(fn), short, ord[short]), okInc, call.Pos(),
							"a continuation page starts after the last name already delivered (the inclusive flag is false on every iteration but the first)"+why)
					}
				}
			}
		}
	}
	return nLoopCalls
}

// pagingEnds decides three structural facts about how the filer's paged listing ends:
// (a) Filer.ListDirectoryEntries asks for one entry more than the limit and its collecting callback never stops the
//
//	stream itself, so the look-ahead entry that tells "there is more" can arrive;
//
// (b) the gRPC ListEntries loop stops successfully inside the loop only when a page delivered nothing (a short page
//
//	is not the end: expired entries and the store's own page size shorten pages);
//
// (c) the first page of ListEntries starts at the request's start name (a substituted start would need the inclusive
//
//	flag adjusted with it).
func pagingEnds(c *eng.Ctx, rule string) {
	if fn := c.NeedFunc("weed/filer", "(*Filer).ListDirectoryEntries"); fn != nil {
		for i, cl := range fn.AnonFuncs {
			ok := true
			for _, r := range eng.Find(cl, eng.IsReturn) {
				for _, v := range eng.Resolve(r.(*ssa.Return).Results[0]) {
					if k, isK := eng.ConstBool(v); !isK || !k {
						ok = false
					}
				}
			}
			c.Touch(cl)
			c.Ob(rule, fmt.Sprintf("%s collector-never-stops#%d", eng.FuncName(fn), i), ok, cl.Pos(), "the collecting callback always asks for the next entry (the stream is bounded by limit+1, the extra entry signals that more exist)")
		}
		calls := eng.Find(fn, eng.PlainCallTo("filer.Filer).StreamListDirectoryEntries"))
		okPlus := len(calls) == 1
		if okPlus {
			b, isB := eng.Unwrap(eng.Arg(calls[0].(ssa.CallInstruction), 4)).(*ssa.BinOp)
			k, isK := int64(0), false
			if isB {
				k, isK = eng.ConstInt(b.Y)
			}
			okPlus = isB && b.Op == token.ADD && eng.IsParam(b.X, "limit") && isK && k == 1
		}
		c.Ob(rule, eng.FuncName(fn)+" asks-for-one-more", okPlus, fn.Pos(), "the stream is asked for limit+1 entries")
	}
	if fn := c.NeedFunc("weed/server", "(*FilerServer).ListEntries"); fn != nil {
		calls := eng.Find(fn, eng.PlainCallTo("filer.Filer).StreamListDirectoryEntries"))
		if len(calls) != 1 {
			c.Undecided(rule, eng.FuncName(fn)+" paging-loop", fn.Pos(), "listing call not found")
			return
		}
		call := calls[0]
		// (b)
		nothing := func(cond ssa.Value) (bool, bool) {
			u, ok := cond.(*ssa.UnOp)
			if !ok || u.Op != token.MUL {
				return false, false
			}
			al, isAl := u.X.(*ssa.Alloc)
			if !isAl || al.Type().String() != "*bool" {
				return false, false
			}
			// a flag the delivery callback raises
			for _, cl := range fn.AnonFuncs {
				for _, in := range eng.Find(cl, func(in ssa.Instruction) bool { _, ok := in.(*ssa.Store); return ok }) {
					st := in.(*ssa.Store)
					if fv, isFV := st.Addr.(*ssa.FreeVar); isFV && boundTo(fn, cl, fv) == ssa.Value(al) {
						if k, isK := eng.ConstBool(st.Val); isK && k {
							return true, false
						}
					}
				}
			}
			return false, false
		}
		var inLoopOK []ssa.Instruction
		for _, r := range eng.Find(fn, eng.IsReturn) {
			if !eng.Dominates(call, r) {
				continue
			}
			// `return nil` with a named result captured by the callback: a store of nil into the result cell in the returning block
			for _, in := range r.Block().Instrs {
				if st, ok := in.(*ssa.Store); ok && eng.IsNilConst(st.Val) && eng.IsErrorType(st.Val.Type()) {
					inLoopOK = append(inLoopOK, r)
					break
				}
			}
			if op := eng.ReturnErrOperand(r.(*ssa.Return)); op != nil && eng.IsNilConst(op) {
				inLoopOK = append(inLoopOK, r)
			}
		}
		if len(inLoopOK) == 0 {
			c.Undecided(rule, eng.FuncName(fn)+" stops-only-on-an-empty-page", fn.Pos(), "in-loop success return not found")
		} else {
			c.Guard(rule, "stops-only-on-an-empty-page", fn, eng.After(call), inLoopOK, eng.PassEdges(fn, nothing), "inside the paging loop the listing ends successfully only when the last page delivered no entry")
		}
		// (c)
		okStart := false
		if phi, isPhi := eng.Arg(call.(ssa.CallInstruction), 2).(*ssa.Phi); isPhi {
			h := phi.Block()
			okStart = true
			n := 0
			for i, p := range h.Preds {
				if h.Dominates(p) {
					continue
				}
				n++
				for _, v := range eng.Resolve(phi.Edges[i]) {
					if !eng.IsField(eng.Unwrap(v), "ListEntriesRequest.StartFromFileName") {
						okStart = false
					}
				}
			}
			okStart = okStart && n > 0
		}
		c.Ob(rule, eng.FuncName(fn)+" first-page-starts-at-the-requested-name", okStart, call.Pos(), "the first page starts at the request's start name, together with the request's inclusive flag")
	}
}
