package props

import (
	"fmt"
	"go/token"

	"golang.org/x/tools/go/ssa"

	"verif/sa/eng"
)

func init() {
	register(&Prop{
		ID:  "C35",
		Run: runC35,
		Explanation: "Static decision of the sharing discipline of the client's volume-location cache: (1) LOCK: the location map is read under RLock/Lock and written under Lock of the embedded RWMutex, in every function of the package (the master client's reset included); (2) WHOLE: the cache value embedded in the master client is never replaced wholesale after construction (that would swap the lock under the feet of concurrent lookups and drop the data center); " +
			"(3) ALIAS: lookups hand out the stored slice, so no update may write into its backing array — no append onto the stored slice or onto a sub-slice of it without a capacity limit, no element store; (4) GUARD: a location is added only when no stored location has the same URL, a removal drops exactly the location with the matching URL, and same-data-center locations are moved to the front only when both data centers are known and equal. Histories of notifications are not decided.",
		Assumptions: []string{"lock identity is per type", "a slice expression with an explicit capacity (s[:n:n]) makes append copy"},
		Trusted:     baseTrusted,
	})
}

func runC35(c *eng.Ctx) {

	// a master stream that ended leaves a cache that may have missed removals: the locations are dropped after every
	// connection attempt that returned, before the next master is tried (whose full list must not be merged into them)
	if fn := c.NeedFunc("weed/wdclient", "(*MasterClient).tryAllMasters"); fn != nil {
		conn := eng.Find(fn, eng.PlainCallTo("wdclient.MasterClient).tryConnectToMaster"))
		reset := func(in ssa.Instruction) bool {
			st, ok := in.(*ssa.Store)
			if !ok || !eng.IsField(st.Addr, "vidMap.vid2Locations") {
				return false
			}
			_, isMk := st.Val.(*ssa.MakeMap)
			return isMk
		}
		if len(conn) == 0 {
			c.Undecided("RESET-on-reconnect", eng.FuncName(fn), fn.Pos(), "connection attempts not found")
		}
		// from the first attempt of a round, the next round's first attempt is reached only through the reset
		first := conn[:1]
		for i, cn := range first {
			h, body := eng.InnermostLoop(cn.Block())
			ok := h != nil
			if ok {
				hit, _ := eng.Search(eng.After(cn), eng.Is(cn), eng.SearchOpt{Barrier: reset})
				ok = hit == nil && len(eng.Find(fn, reset)) > 0
				_ = body
			}
			c.Ob("RESET-on-reconnect", fmt.Sprintf("%s locations-dropped-between-masters#%d", eng.FuncName(fn), i), ok, cn.Pos(),
				"after the connection to one master ended, the cached locations are dropped before the next master of the list is tried")
		}
	}
	P := c.P
	// ---------------------------------------------------------------- (1) LOCK
	c.CheckLocks("LOCK-vidmap", &eng.LockSpec{
		Mutex:  "vidMap.RWMutex",
		Fields: []string{"vidMap.vid2Locations"},
		Pkg:    "weed/wdclient",
		Exempt: map[string]string{"weed/wdclient.newVidMap": "constructor: the value is not shared yet"},
	})
	c.CheckLockPairs("PAIR-vidmap", "weed/wdclient", "vidMap.RWMutex", nil)
	c.Expect("PAIR-vidmap", 4)
	c.Expect("LOCK-vidmap", 4)

	// ---------------------------------------------------------------- (2) WHOLE
	nWhole := 0
	for _, fn := range P.SrcFuncs("weed/wdclient") {
		for _, in := range eng.Find(fn, eng.StoreToField("MasterClient.vidMap")) {
			if eng.NameIs(eng.FuncName(fn), "wdclient.NewMasterClient") {
				continue
			}
			nWhole++
			c.Ob("WHOLE-vidmap", fmt.Sprintf("%s replace#%d", eng.FuncName(fn), nWhole), false, in.Pos(), "the embedded location cache (map, lock and data center) is replaced wholesale while lookups may be using it")
		}
	}
	if ctor := c.NeedFunc("weed/wdclient", "NewMasterClient"); ctor != nil {
		ok := len(eng.Find(ctor, eng.StoreToField("MasterClient.vidMap"))) == 1 && len(eng.Find(ctor, eng.PlainCallTo("wdclient.newVidMap"))) == 1
		okDC := false
		for _, call := range eng.Find(ctor, eng.PlainCallTo("wdclient.newVidMap")) {
			okDC = eng.IsParamLike(call.(*ssa.Call).Call.Args[0], "clientDataCenter")
		}
		c.Ob("WHOLE-vidmap", eng.FuncName(ctor)+" constructed-once", ok && okDC && nWhole == 0, ctor.Pos(), "the cache is built once, in the constructor, with the client's data center")
	}

	// ---------------------------------------------------------------- (3) ALIAS
	get := c.NeedFunc("weed/wdclient", "(*vidMap).GetLocations")
	handsOutStored := false
	if get != nil {
		for _, r := range eng.Find(get, eng.IsReturn) {
			if r.Block() == get.Recover {
				continue
			}
			for _, v := range eng.Resolve(r.(*ssa.Return).Results[0]) {
				if ex, ok := v.(*ssa.Extract); ok {
					if lk, isLk := ex.Tuple.(*ssa.Lookup); isLk && eng.IsField(lk.X, "vidMap.vid2Locations") {
						handsOutStored = true
					}
				}
				if lk, isLk := v.(*ssa.Lookup); isLk && eng.IsField(lk.X, "vidMap.vid2Locations") {
					handsOutStored = true
				}
			}
		}
		c.Note("GetLocations hands out the stored slice: %v", handsOutStored)
	}
	nAlias := 0
	for _, fn := range P.SrcFuncs("weed/wdclient") {
		stored := func(v ssa.Value) bool {
			v = eng.Unwrap(v)
			if ex, ok := v.(*ssa.Extract); ok {
				v = ex.Tuple
			}
			lk, ok := v.(*ssa.Lookup)
			return ok && eng.IsField(lk.X, "vidMap.vid2Locations")
		}
		for _, in := range eng.Find(fn, func(in ssa.Instruction) bool { return true }) {
			switch x := in.(type) {
			case *ssa.Call:
				if !eng.CalleeIs(x, "builtin.append") {
					continue
				}
				a0 := x.Call.Args[0]
				inPlace := false
				how := ""
				if stored(a0) {
					inPlace, how = true, "append onto the stored slice may write into its spare capacity"
				}
				if sl, ok := a0.(*ssa.Slice); ok && stored(sl.X) && sl.Max == nil {
					inPlace, how = true, "append onto a sub-slice of the stored slice shifts its elements in place"
				}
				if sl, ok := a0.(*ssa.Slice); ok && stored(sl.X) && sl.Max != nil {
					nAlias++
					c.Touch(fn)
					c.Ob("ALIAS-locations", fmt.Sprintf("%s append#%d", eng.FuncName(fn), nAlias), true, x.Pos(), "append onto the stored slice with an explicit capacity limit copies")
					continue
				}
				if inPlace {
					nAlias++
					c.Touch(fn)
					c.Ob("ALIAS-locations", fmt.Sprintf("%s append#%d", eng.FuncName(fn), nAlias), !handsOutStored, x.Pos(), how+" while lookups iterate over the slice they were handed")
				}
			case *ssa.Store:
				if ia, ok := x.Addr.(*ssa.IndexAddr); ok && stored(ia.X) {
					nAlias++
					c.Ob("ALIAS-locations", fmt.Sprintf("%s element-store#%d", eng.FuncName(fn), nAlias), !handsOutStored, x.Pos(), "an element of the stored slice is overwritten while lookups iterate over it")
				}
			}
		}
	}
	if nAlias == 0 {
		c.Undecided("ALIAS-locations", "discovery", token.NoPos, "no update of a stored location slice found")
	}

	// ---------------------------------------------------------------- (4) GUARD
	if add := c.NeedFunc("weed/wdclient", "(*vidMap).addLocation"); add != nil {
		same := eng.PassEdges(add, eng.Cmp(func(v ssa.Value) bool { return eng.IsField(v, "Location.Url") }, func(v ssa.Value) bool { return eng.IsField(v, "Location.Url") }, token.EQL))
		var grows []ssa.Instruction
		for _, in := range eng.Find(add, func(in ssa.Instruction) bool {
			mu, ok := in.(*ssa.MapUpdate)
			if !ok || !eng.IsField(mu.Map, "vidMap.vid2Locations") {
				return false
			}
			return eng.MentionsCall(mu.Value, "builtin.append")
		}) {
			grows = append(grows, in)
		}
		ok := len(same) > 0 && len(grows) == 1
		for _, st := range startsOf(same) {
			if hit, _ := eng.Search(st, eng.AnyOf(grows), eng.SearchOpt{}); hit != nil {
				ok = false
			}
		}
		c.Ob("GUARD-locations", eng.FuncName(add)+" no-duplicate", ok, add.Pos(), "a location whose URL is already stored for the volume is not added again")
	}
	if del := c.NeedFunc("weed/wdclient", "(*vidMap).deleteLocation"); del != nil {
		same := eng.PassEdges(del, eng.Cmp(func(v ssa.Value) bool { return eng.IsField(v, "Location.Url") }, func(v ssa.Value) bool { return eng.IsField(v, "Location.Url") }, token.EQL))
		upd := eng.Find(del, func(in ssa.Instruction) bool {
			mu, ok := in.(*ssa.MapUpdate)
			return ok && eng.IsField(mu.Map, "vidMap.vid2Locations")
		})
		c.Guard("GUARD-locations", "remove-only-matching", del, eng.Entry(del), upd, same, "the stored list changes only for the location whose URL matches")
		// the rebuilt list is [0:i] ++ [i+1:]
		var lows, highs int
		for _, in := range eng.Find(del, func(in ssa.Instruction) bool { _, ok := in.(*ssa.Slice); return ok }) {
			sl := in.(*ssa.Slice)
			if _, isAlloc := sl.X.(*ssa.Alloc); isAlloc {
				continue
			}
			if sl.High != nil && (sl.Low == nil || isZero(sl.Low)) {
				lows++
			}
			if b, ok := sl.Low.(*ssa.BinOp); ok && b.Op == token.ADD && sl.High == nil {
				if k, isK := eng.ConstInt(b.Y); isK && k == 1 {
					highs++
				}
			}
		}
		c.Ob("GUARD-locations", eng.FuncName(del)+" drops-exactly-one", lows == 1 && highs == 1, del.Pos(), "the new list is everything before and everything after the matching location")
	}
	if lk := c.NeedFunc("weed/wdclient", "(*vidMap).LookupVolumeServerUrl"); lk != nil {
		// prepend = append(<fresh one-element slice>, serverUrls...)
		var prepends []ssa.Instruction
		for _, in := range eng.Find(lk, eng.PlainCallTo("builtin.append")) {
			if sl, ok := in.(*ssa.Call).Call.Args[0].(*ssa.Slice); ok {
				if _, isAlloc := sl.X.(*ssa.Alloc); isAlloc {
					prepends = append(prepends, in)
				}
			}
		}
		sameDC := eng.FailEdges(lk, eng.Cmp(func(v ssa.Value) bool { return eng.IsField(v, "vidMap.DataCenter") }, func(v ssa.Value) bool { return eng.IsField(v, "Location.DataCenter") }, token.NEQ))
		known := eng.FailEdges(lk, func(cond ssa.Value) (bool, bool) {
			b, ok := cond.(*ssa.BinOp)
			if !ok || b.Op != token.EQL || !(eng.IsField(b.X, "vidMap.DataCenter") || eng.IsField(b.X, "Location.DataCenter")) {
				return false, false
			}
			s, isS := eng.ConstString(b.Y)
			return isS && s == "", true
		})
		if len(prepends) != 1 {
			c.Undecided("GUARD-locations", eng.FuncName(lk), lk.Pos(), "front insertion not found")
		} else {
			c.Guard("GUARD-locations", "front-only-same-dc", lk, eng.Entry(lk), prepends, sameDC, "a location moves to the front only when its data center equals the client's")
			c.Guard("GUARD-locations", "front-only-known-dc", lk, eng.Entry(lk), prepends, known, "and only when both data centers are known")
		}
		getc := eng.Find(lk, eng.PlainCallTo("wdclient.vidMap).GetLocations"))
		if len(getc) == 1 {
			found := eng.PassEdges(lk, eng.BoolVal(true, func(v ssa.Value) bool { return v == eng.ResultOf(getc[0], 1) }))
			var succ []ssa.Instruction
			for _, r := range successReturns(lk) {
				succ = append(succ, r)
			}
			c.Guard("GUARD-locations", "found-or-error", lk, eng.Entry(lk), succ, found, "a volume without stored locations is reported as not found")
		}
	}
	c.Expect("GUARD-locations", 5)
}

func isZero(v ssa.Value) bool {
	k, ok := eng.ConstInt(v)
	return ok && k == 0
}
