package props

import (
	"fmt"
	"go/token"

	"golang.org/x/tools/go/ssa"

	"verif/sa/eng"
)

func init() {
	register(&Prop{
		ID:  "C18",
		Run: runC18,
		Explanation: "Static decision of the namespace-tree guards: (1) CreateEntry inserts only after ensureParentDirecotryEntry succeeded; that function recurses to the parent before creating a directory and errors on a non-directory ancestor; (2) UpdateEntry reaches the store exactly on the abstract points where old and new agree on being a directory (truth table over {oldIsDir,newIsDir}); " +
			"(3) a non-recursive delete with children errors before any store deletion, and the entry itself is deleted only after the children deletion succeeded; (4) rename creates the new entry, moves the children, then deletes the old entry without deleting chunks, each step only on the nil-error edge of the previous one; (5) AtomicRenameEntry refuses a target directory inside the source before moving. Subtree completeness under concurrent change is not decided.",
		Assumptions: []string{"gRPC AtomicRenameEntry is the only rename entry point"},
		Trusted:     baseTrusted,
	})
}

func runC18(c *eng.Ctx) {
	pagingEnds(c, "ORDER-rename")
	P := c.P
	_ = P
	storeChoice(c, "SIB-store-choice")

	// (1) CreateEntry
	if fn := c.NeedFunc("weed/filer", "(*Filer).CreateEntry"); fn != nil {
		ins := eng.Find(fn, eng.PlainCallTo("filer.VirtualFilerStore).InsertEntry", "filer.FilerStore).InsertEntry"))
		ens := eng.Find(fn, eng.PlainCallTo("filer.Filer).ensureParentDirecotryEntry"))
		if len(ins) == 0 || len(ens) != 1 {
			c.Undecided("GUARD-parent-exists", eng.FuncName(fn), fn.Pos(), "InsertEntry / ensureParentDirecotryEntry calls not found")
		} else {
			c.Guard("GUARD-parent-exists", "insert", fn, eng.Entry(fn), ins, eng.PassEdges(fn, eng.ErrNil(eng.ErrOf(ens[0]))), "a new entry is inserted only after all ancestors were ensured to be directories")
		}
		c.ErrChecked("ERR-create", "store", fn, append(ins, eng.Find(fn, eng.PlainCallTo("filer.Filer).UpdateEntry"))...), "a failed store insert/update fails the create")
	}
	if fn := c.NeedFunc("weed/filer", "(*Filer).ensureParentDirecotryEntry"); fn != nil {
		ins := eng.Find(fn, eng.PlainCallTo("filer.VirtualFilerStore).InsertEntry", "filer.FilerStore).InsertEntry"))
		var rec []ssa.Instruction
		for _, call := range eng.Find(fn, eng.PlainCallTo("filer.Filer).ensureParentDirecotryEntry")) {
			rec = append(rec, call)
		}
		if len(ins) == 0 || len(rec) != 1 {
			c.Undecided("GUARD-parent-exists", eng.FuncName(fn), fn.Pos(), "directory insert / recursive call not found")
		} else {
			c.Guard("GUARD-parent-exists", "mkdir-after-parent", fn, eng.Entry(fn), ins, eng.PassEdges(fn, eng.ErrNil(eng.ErrOf(rec[0]))), "a missing directory is created only after its own parent was ensured")
		}
		notDir := eng.BoolCall(false, "filer.Entry).IsDirectory", "filer.Attr).IsDirectory")
		returnsNonNilErr(c, "GUARD-parent-exists", "ancestor-is-file", fn, startsOf(eng.PassEdges(fn, notDir)), "an existing non-directory ancestor is an error")
	}
	c.Expect("GUARD-parent-exists", 3)

	// (2) UpdateEntry truth table
	if fn := c.NeedFunc("weed/filer", "(*Filer).UpdateEntry"); fn != nil {
		sinks := eng.Find(fn, eng.PlainCallTo("filer.VirtualFilerStore).UpdateEntry", "filer.FilerStore).UpdateEntry"))
		if len(sinks) == 0 {
			c.Undecided("ABS-type-change", eng.FuncName(fn), fn.Pos(), "store update not found")
		}
		for _, oldDir := range []bool{false, true} {
			for _, newDir := range []bool{false, true} {
				or := func(v ssa.Value) (bool, bool) {
					if call, ok := v.(*ssa.Call); ok && eng.CalleeIs(call, "filer.Entry).IsDirectory", "filer.Attr).IsDirectory") {
						if eng.MentionsParam(eng.RecvOf(call), "oldEntry") {
							return oldDir, true
						}
						if eng.MentionsParam(eng.RecvOf(call), "entry") {
							return newDir, true
						}
					}
					if b, ok := v.(*ssa.BinOp); ok && (b.Op == token.NEQ || b.Op == token.EQL) && eng.IsParam(b.X, "oldEntry") && eng.IsNilConst(b.Y) {
						return b.Op == token.NEQ, true
					}
					return false, false
				}
				cut := eng.CutUnder(fn, or)
				for i, s := range sinks {
					hit, _ := eng.Search(eng.Entry(fn), eng.Is(s), eng.SearchOpt{Cut: cut})
					want := oldDir == newDir
					c.Ob("ABS-type-change", fmt.Sprintf("%s oldIsDir=%v newIsDir=%v sink#%d", eng.FuncName(fn), oldDir, newDir, i), (hit != nil) == want, eng.InstrPos(s),
						fmt.Sprintf("store update reachable=%v, required=%v (a file is never replaced by a directory or vice versa)", hit != nil, want))
				}
			}
		}
	}

	// (3) delete
	if fn := c.NeedFunc("weed/filer", "(*Filer).doBatchDeleteFolderMetaAndData"); fn != nil {
		sinks := eng.Find(fn, eng.PlainCallTo("filer.VirtualFilerStore).DeleteFolderChildren", "filer.FilerStore).DeleteFolderChildren"))
		if len(sinks) == 0 {
			c.Undecided("GUARD-nonempty-delete", eng.FuncName(fn), fn.Pos(), "DeleteFolderChildren not found")
		}
		or := func(v ssa.Value) (bool, bool) {
			if eng.IsParam(v, "isRecursive") {
				return false, true
			}
			if eng.IsParam(v, "isDeletingBucket") {
				return false, true // the whole-bucket drop path is a different operation (collection delete)
			}
			if b, ok := v.(*ssa.BinOp); ok {
				// len(entries) > 0
				if call, ok := b.X.(*ssa.Call); ok && eng.CalleeIs(call, "builtin.len") && eng.MentionsCall(call.Call.Args[0], "filer.Filer).ListDirectoryEntries") {
					if k, isC := eng.ConstInt(b.Y); isC && k == 0 {
						switch b.Op {
						case token.GTR, token.NEQ:
							return true, true
						case token.EQL, token.LEQ:
							return false, true
						}
					}
				}
				// lastFileName == "" (first page)
				if s, isS := eng.ConstString(b.Y); isS && s == "" && (b.Op == token.EQL || b.Op == token.NEQ) {
					return b.Op == token.EQL, true
				}
			}
			return false, false
		}
		cut := eng.CutUnder(fn, or)
		for i, s := range sinks {
			hit, path := eng.Search(eng.Entry(fn), eng.Is(s), eng.SearchOpt{Cut: cut})
			c.Ob("GUARD-nonempty-delete", fmt.Sprintf("%s store-delete#%d", eng.FuncName(fn), i), hit == nil && len(cut) >= 4, eng.InstrPos(s),
				"with isRecursive=false and a non-empty first page the children deletion is unreachable"+pathNote(P, fn, hit, path))
		}
		// and the exits under that assignment return an error
		bad, path := eng.Search(eng.Entry(fn), func(in ssa.Instruction) bool {
			r, ok := in.(*ssa.Return)
			return ok && eng.ReturnMaySucceed(fn, r)
		}, eng.SearchOpt{Cut: cut})
		c.Ob("GUARD-nonempty-delete", eng.FuncName(fn)+" error-exit", bad == nil && len(cut) >= 4, fn.Pos(), "a non-recursive delete of a non-empty directory returns an error"+pathNote(P, fn, bad, path))
		c.ErrChecked("ERR-delete", "list", fn, eng.Find(fn, eng.PlainCallTo("filer.Filer).ListDirectoryEntries")), "a failed listing aborts the directory deletion")
		c.ErrChecked("ERR-delete", "store", fn, sinks, "a failed children deletion is reported")
	}
	if fn := c.NeedFunc("weed/filer", "(*Filer).DeleteEntryMetaAndData"); fn != nil {
		batch := eng.Find(fn, eng.PlainCallTo("filer.Filer).doBatchDeleteFolderMetaAndData"))
		self := eng.Find(fn, eng.PlainCallTo("filer.Filer).doDeleteEntryMetaAndData"))
		if len(batch) != 1 || len(self) == 0 {
			c.Undecided("GUARD-nonempty-delete", eng.FuncName(fn), fn.Pos(), "children/self deletion calls not found")
		} else {
			cut := eng.MergeEdges(eng.PassEdges(fn, eng.ErrNil(eng.ErrOf(batch[0]))), eng.FailEdges(fn, eng.BoolCall(true, "filer.Entry).IsDirectory", "filer.Attr).IsDirectory")))
			c.Guard("GUARD-nonempty-delete", "self-after-children", fn, eng.Entry(fn), self, cut, "a directory entry is deleted only after its children were deleted successfully")
			c.ErrChecked("ERR-delete", "self", fn, self, "a failed entry deletion is reported")
			// the recursion flag is forwarded
			okFwd := eng.IsParam(eng.Arg(batch[0].(*ssa.Call), 2), "isRecursive")
			c.Ob("GUARD-nonempty-delete", eng.FuncName(fn)+" forwards-isRecursive", okFwd, eng.InstrPos(batch[0]), "the caller's isRecursive flag reaches the children deletion")
		}
	}

	// (4) rename order
	if fn := c.NeedFunc("weed/server", "(*FilerServer).moveSelfEntry"); fn != nil {
		create := eng.Find(fn, eng.PlainCallTo("filer.Filer).CreateEntry"))
		del := eng.Find(fn, eng.PlainCallTo("filer.Filer).DeleteEntryMetaAndData"))
		var cb []ssa.Instruction
		for _, in := range eng.Find(fn, func(in ssa.Instruction) bool { _, ok := in.(*ssa.Call); return ok }) {
			if eng.IsParam(in.(*ssa.Call).Call.Value, "moveFolderSubEntries") {
				cb = append(cb, in)
			}
		}
		if len(create) != 1 || len(del) != 1 || len(cb) != 1 {
			c.Undecided("ORDER-rename", eng.FuncName(fn), fn.Pos(), "create / move-children / delete steps not found")
		} else {
			c.Guard("ORDER-rename", "children-after-create", fn, eng.Entry(fn), cb, eng.PassEdges(fn, eng.ErrNil(eng.ErrOf(create[0]))), "children are moved only after the new entry was created")
			c.Guard("ORDER-rename", "delete-after-create", fn, eng.Entry(fn), del, eng.PassEdges(fn, eng.ErrNil(eng.ErrOf(create[0]))), "the old entry is deleted only after the new entry was created")
			cut := eng.MergeEdges(eng.PassEdges(fn, eng.ErrNil(eng.ErrOf(cb[0]))), eng.FailEdges(fn, eng.Cmp(func(v ssa.Value) bool { return eng.IsParam(v, "moveFolderSubEntries") }, eng.IsNilConst, token.NEQ)))
			c.Guard("ORDER-rename", "delete-after-children", fn, eng.Entry(fn), del, cut, "the old entry is deleted only after its children were moved")
			// the old entry is deleted only when it is a different entry from the one just created: the paths compared are
			// the normalised ones (FullPath.Child), the very values used for the create and for the delete
			oldArg := eng.Arg(del[0].(*ssa.Call), 1)
			isChild := func(v ssa.Value) bool {
				call, ok := eng.Unwrap(v).(*ssa.Call)
				return ok && eng.CalleeIs(call, "util.FullPath).Child")
			}
			differ := eng.Cmp(func(v ssa.Value) bool { return v == oldArg && isChild(v) }, func(v ssa.Value) bool { return v != oldArg && isChild(v) }, token.NEQ)
			c.Guard("ORDER-rename", "delete-only-when-paths-differ", fn, eng.Entry(fn), del, eng.PassEdges(fn, differ),
				"the old entry is deleted only when its normalised path differs from the normalised new path (a rename onto itself must not delete the entry)")
			call := del[0].(*ssa.Call)
			rec, ok1 := eng.ConstBool(eng.Arg(call, 2))
			chunks, ok2 := eng.ConstBool(eng.Arg(call, 4))
			c.Ob("CONST-rename-delete", eng.FuncName(fn)+" delete-flags", ok1 && ok2 && !rec && !chunks, call.Pos(), "the old entry is removed non-recursively and without deleting its chunks (they now belong to the new entry)")
			c.ErrChecked("ERR-rename", "steps", fn, []ssa.Instruction{create[0], cb[0], del[0]}, "a failed step fails the rename (transaction is rolled back)")
		}
	}
	if fn := c.NeedFunc("weed/server", "(*FilerServer).moveFolderSubEntries"); fn != nil {
		c.ErrChecked("ERR-rename", "children", fn, eng.Find(fn, eng.PlainCallTo("filer.Filer).ListDirectoryEntries", "FilerServer).moveEntry")), "a failed child move fails the rename")
	}

	// (5) rename into own subtree
	if fn := c.NeedFunc("weed/server", "(*FilerServer).AtomicRenameEntry"); fn != nil {
		moves := eng.Find(fn, eng.PlainCallTo("FilerServer).moveEntry"))
		both := func(v ssa.Value) bool {
			return eng.MentionsField(v, "AtomicRenameEntryRequest.NewDirectory") && eng.MentionsField(v, "AtomicRenameEntryRequest.OldName") && eng.MentionsField(v, "AtomicRenameEntryRequest.OldDirectory")
		}
		atom := func(cond ssa.Value) (bool, bool) {
			// boolean test computed from both paths (e.g. strings.HasPrefix(newParent, oldPath+"/")): holds on the false edge
			if call, ok := cond.(*ssa.Call); ok && eng.CalleeIs(call, "strings.HasPrefix") && both(call) {
				return true, false
			}
			if b, ok := cond.(*ssa.BinOp); ok && (b.Op == token.EQL || b.Op == token.NEQ) {
				// err-returning checker taking both paths
				for _, side := range []ssa.Value{b.X, b.Y} {
					if eng.Mentions(side, 3, func(x ssa.Value) bool {
						call, ok := x.(*ssa.Call)
						return ok && eng.IsErrorType(call.Type()) && both(call)
					}) {
						other := b.Y
						if side == b.Y {
							other = b.X
						}
						if eng.IsNilConst(other) {
							return true, b.Op == token.EQL
						}
					}
				}
			}
			return false, false
		}
		c.Guard("GUARD-rename-into-self", "move", fn, eng.Entry(fn), moves, eng.PassEdges(fn, atom),
			"the move starts only after a test relating the target directory to the source path (target inside source is refused)")
		c.ErrChecked("ERR-rename", "move", fn, moves, "a failed move is reported and rolled back")
	}

	// no error of a callee is dropped while an entry is updated, deleted or moved
	errAll(c, "ERR-namespace", "weed/filer", "an error of a callee on the entry update / delete path reaches the caller", "(*Filer).UpdateEntry", "(*Filer).doDeleteEntryMetaAndData")
	errAll(c, "ERR-namespace", "weed/server", "an error of a callee while moving entries reaches the caller (and rolls the transaction back)", "(*FilerServer).moveEntry", "(*FilerServer).moveFolderSubEntries", "(*FilerServer).moveSelfEntry")
	c.Expect("ERR-namespace", 9)
}

// storeChoice: with path-specific stores the children of directory D live in the store selected for "D/", D's own entry
// in the store selected for "D": wrapper methods operating on children select by dir+"/", those operating on one entry
// by the entry's path.
func storeChoice(c *eng.Ctx, rule string) {
	P := c.P
	childOps := eng.CallTo("filer.FilerStore).DeleteFolderChildren", "filer.FilerStore).ListDirectoryEntries", "filer.FilerStore).ListDirectoryPrefixedEntries")
	entryOps := eng.CallTo("filer.FilerStore).InsertEntry", "filer.FilerStore).UpdateEntry", "filer.FilerStore).FindEntry", "filer.FilerStore).DeleteEntry")
	nCh, nEn := 0, 0
	for _, fn := range P.SrcFuncs("weed/filer") {
		if fn.Signature.Recv() == nil || eng.TypeName(fn.Signature.Recv().Type()) != "FilerStoreWrapper" {
			continue
		}
		sel := eng.Find(fn, eng.PlainCallTo("filer.FilerStoreWrapper).getActualStore"))
		if len(sel) == 0 {
			continue
		}
		isCh, isEn := len(eng.Find(fn, childOps)) > 0, len(eng.Find(fn, entryOps)) > 0
		if !isCh && !isEn {
			continue
		}
		c.Touch(fn)
		for i, in := range sel {
			arg := eng.Unwrap(eng.Arg(in.(ssa.CallInstruction), 0))
			slash := false
			if b, ok := arg.(*ssa.BinOp); ok && b.Op == token.ADD {
				if k, isK := eng.ConstString(eng.Unwrap(b.Y)); isK && k == "/" {
					slash = true
				}
			}
			if isCh {
				nCh++
				c.Ob(rule, fmt.Sprintf("%s children-op selects by dir+\"/\"#%d", eng.FuncName(fn), i), slash, in.Pos(),
					"an operation on the children of a directory goes to the store chosen for the directory path followed by \"/\" (where the children were written)")
			} else {
				nEn++
				c.Ob(rule, fmt.Sprintf("%s entry-op selects by the entry path#%d", eng.FuncName(fn), i), !slash, in.Pos(),
					"an operation on one entry goes to the store chosen for the entry's own path")
			}
		}
	}
	if nCh < 4 || nEn < 5 {
		c.Undecided(rule, "discovery", token.NoPos, fmt.Sprintf("found %d children operations and %d entry operations (expected >= 4 and >= 5)", nCh, nEn))
	}
}
