package props

import (
	"fmt"
	"go/token"
	"go/types"
	"strings"

	"golang.org/x/tools/go/ssa"

	"verif/sa/eng"
)

func init() {
	register(&Prop{
		ID:  "C16",
		Run: runC16,
		Explanation: "Static decision of the structure of EC shard balancing: (1) PAIR-move: a (planned) shard move adds the shard to the destination's view and removes it from the source's view with the same volume id and shard list on every successful path; (2) GUARD-move: every caller of the move is dominated by destination != source (where both are free choices), destination has a free shard slot, and destination does not already hold the shard / is below the spread target; " +
			"(3) MIRROR-slots: adding and deleting shards change a server's free slot count by the number of shard bits actually set / cleared (only a newly listed volume uses the length of the list); (4) PAIR-rack-count: after a move across racks the per-rack shard counts and the racks' free slots of source and destination are all updated, and a rack is picked only below the spread target and with a free slot; " +
			"(5) de-duplication removes copies only from holders other than the first. The even-spread target and dry-run bookkeeping over arbitrary layouts are not decided.",
		Assumptions: []string{"freeEcSlot is the planner's only view of shard capacity"},
		Trusted:     baseTrusted,
	})
}

func runC16(c *eng.Ctx) {
	P := c.P
	move := c.NeedFunc("weed/shell", "moveMountedShardToEcNode")
	if move == nil {
		return
	}
	// ---------------------------------------------------------------- (1) PAIR-move
	add := eng.Find(move, eng.PlainCallTo("shell.EcNode).addEcVolumeShards"))
	del := eng.Find(move, eng.PlainCallTo("shell.EcNode).deleteEcVolumeShards"))
	if len(add) != 1 || len(del) != 1 {
		c.Undecided("PAIR-move", eng.FuncName(move), move.Pos(), "destination add / source delete not found")
	} else {
		ac, dc := add[0].(*ssa.Call), del[0].(*ssa.Call)
		c.Ob("PAIR-move", eng.FuncName(move)+" add-on-destination", eng.IsParamLike(eng.RecvOf(ac), "destinationEcNode") && eng.IsParamLike(eng.Arg(ac, 0), "vid"), ac.Pos(), "the shard joins the destination's view under the same volume id")
		c.Ob("PAIR-move", eng.FuncName(move)+" delete-on-source", eng.IsParamLike(eng.RecvOf(dc), "existingLocation") && eng.IsParamLike(eng.Arg(dc, 0), "vid"), dc.Pos(), "the shard leaves the source's view under the same volume id")
		c.Ob("PAIR-move", eng.FuncName(move)+" same-shard-list", eng.SameExpr(eng.Arg(ac, 2), eng.Arg(dc, 1)) || sameDefs(eng.Arg(ac, 2), eng.Arg(dc, 1)), ac.Pos(), "the shards added to the destination are exactly the shards deleted from the source")
		succ := successReturns(move)
		c.Before("PAIR-move", "added-before-success", move, eng.Is(add[0]), succ, "no successful move skips the destination update")
		c.Before("PAIR-move", "deleted-before-success", move, eng.Is(del[0]), succ, "no successful move skips the source update")
		// remote steps: copy -> unmount -> delete, each on the nil-error edge of the previous
		cp := eng.Find(move, eng.PlainCallTo("shell.oneServerCopyAndMountEcShardsFromSource"))
		um := eng.Find(move, eng.PlainCallTo("shell.unmountEcShards"))
		sd := eng.Find(move, eng.PlainCallTo("shell.sourceServerDeleteEcShards"))
		if len(cp) == 1 && len(um) == 1 && len(sd) == 1 {
			c.Guard("PAIR-move", "unmount-after-copy", move, eng.Entry(move), um, eng.PassEdges(move, eng.ErrNil(eng.ErrOf(cp[0]))), "the source copy is unmounted only after the destination copied and mounted the shard")
			c.Guard("PAIR-move", "delete-after-unmount", move, eng.Entry(move), sd, eng.PassEdges(move, eng.ErrNil(eng.ErrOf(um[0]))), "the source copy is deleted only after it was unmounted")
			c.ErrChecked("PAIR-move", "remote-step", move, []ssa.Instruction{cp[0], um[0], sd[0]}, "a failed remote step fails the move (the views are not updated)")
		} else {
			c.Undecided("PAIR-move", eng.FuncName(move)+" remote steps", move.Pos(), "copy / unmount / delete calls not found")
		}
	}
	c.Expect("PAIR-move", 9)

	// ---------------------------------------------------------------- (2) GUARD-move at every caller
	callers := P.CallersOf(move)
	if len(callers) < 3 {
		c.Undecided("GUARD-move", "callers", move.Pos(), fmt.Sprintf("%d callers of the shard move found, expected 3", len(callers)))
	}
	for _, call := range callers {
		fn := call.Parent()
		c.Touch(fn)
		in := call.(ssa.Instruction)
		dst := eng.Arg(call, 5)
		src := eng.Arg(call, 1)
		derivedFromDst := func(v ssa.Value) bool {
			return eng.Mentions(v, 8, func(x ssa.Value) bool { return x == dst || eng.SameExpr(x, dst) })
		}
		free := func(cond ssa.Value) (bool, bool) {
			b, ok := cond.(*ssa.BinOp)
			if !ok || !eng.IsField(b.X, "EcNode.freeEcSlot") || !derivedFromDst(eng.FieldBase(b.X)) {
				return false, false
			}
			k, isK := eng.ConstInt(b.Y)
			if !isK {
				return false, false
			}
			switch {
			case b.Op == token.GTR && k == 0, b.Op == token.GEQ && k == 1:
				return true, true
			case b.Op == token.LEQ && k == 0, b.Op == token.LSS && k == 1:
				return true, false
			}
			return false, false
		}
		name := eng.FuncName(fn)
		c.Guard("GUARD-move", "destination-has-free-slot", fn, eng.Entry(fn), []ssa.Instruction{in}, eng.PassEdges(fn, free), "a shard is planned only onto a server with a free shard slot")
		// destination does not hold the shard: either the volume is absent on the destination, or its shard count for the volume is below the target
		notHeld := eng.MergeEdges(
			eng.FailEdges(fn, func(cond ssa.Value) (bool, bool) { // _, found := emptyNodeIds[shards.Id]
				ex, ok := cond.(*ssa.Extract)
				if !ok || ex.Index != 1 {
					return false, false
				}
				_, ok = ex.Tuple.(*ssa.Lookup)
				return ok, true
			}),
			eng.PassEdges(fn, func(cond ssa.Value) (bool, bool) { // findEcVolumeShards(dest, vid).ShardIdCount() < average
				b, ok := cond.(*ssa.BinOp)
				if !ok || !eng.MentionsCall(b.X, "shell.findEcVolumeShards") {
					return false, false
				}
				okDst := false
				eng.Walk(b.X, 6, func(x ssa.Value) bool {
					if cc, isCall := x.(*ssa.Call); isCall && eng.CalleeIs(cc, "shell.findEcVolumeShards") && derivedFromDst(cc.Call.Args[0]) {
						okDst = true
					}
					return true
				})
				if !okDst {
					return false, false
				}
				switch b.Op {
				case token.LSS:
					return true, true
				case token.GEQ:
					return true, false
				}
				return false, false
			}),
		)
		if !eng.NameIs(name, "shell.moveAwayOneEcVolume") { // evacuation is not part of ec.balance; its capacity guard is still required above
			c.Guard("GUARD-move", "destination-lacks-shard", fn, eng.Entry(fn), []ssa.Instruction{in}, notHeld, "a shard is never planned onto a server that already holds shards of the volume up to the target (in particular the same shard)")
		}
		// destination != source when both come from one candidate list
		if eng.NameIs(name, "shell.pickOneEcNodeAndMoveOneShard") {
			diff := eng.Cmp(func(v ssa.Value) bool { return eng.MentionsField(v, "DataNodeInfo.Id") && derivedFromDst(v) }, func(v ssa.Value) bool {
				return eng.MentionsField(v, "DataNodeInfo.Id") && eng.Mentions(v, 6, func(x ssa.Value) bool { return x == src })
			}, token.NEQ)
			c.Guard("GUARD-move", "destination-is-not-source", fn, eng.Entry(fn), []ssa.Instruction{in}, eng.PassEdges(fn, diff), "the destination is a different server")
		}
	}
	c.Expect("GUARD-move", 6)

	// ---------------------------------------------------------------- (3) MIRROR-slots
	isCountDiff := func(v ssa.Value) bool {
		b, ok := v.(*ssa.BinOp)
		if !ok || b.Op != token.SUB {
			return false
		}
		ca, ok1 := b.X.(*ssa.Call)
		cb, ok2 := b.Y.(*ssa.Call)
		return ok1 && ok2 && eng.CalleeIs(ca, "erasure_coding.ShardBits).ShardIdCount") && eng.CalleeIs(cb, "erasure_coding.ShardBits).ShardIdCount") && !eng.SameExpr(ca.Call.Args[0], cb.Call.Args[0])
	}
	for _, name := range []string{"(*EcNode).addEcVolumeShards", "(*EcNode).deleteEcVolumeShards"} {
		fn := c.NeedFunc("weed/shell", name)
		if fn == nil {
			continue
		}
		sts := eng.Find(fn, eng.StoreToField("EcNode.freeEcSlot"))
		if len(sts) == 0 {
			c.Undecided("MIRROR-slots", eng.FuncName(fn), fn.Pos(), "no update of freeEcSlot")
		}
		for i, st := range sts {
			b, ok := st.(*ssa.Store).Val.(*ssa.BinOp)
			okv := ok && b.Op == token.SUB && eng.IsField(b.X, "EcNode.freeEcSlot") && isCountDiff(b.Y)
			detail := "free slots change by count(new bits) - count(old bits)"
			if !okv && ok && b.Op == token.SUB && eng.IsField(b.X, "EcNode.freeEcSlot") {
				// len(shardIds): only for a volume that was not listed on this server (every shard is new)
				if call, isCall := b.Y.(*ssa.Call); isCall && eng.CalleeIs(call, "builtin.len") && eng.IsParamLike(call.Call.Args[0], "shardIds") {
					notFound := eng.FailEdges(fn, eng.BoolVal(true, func(v ssa.Value) bool {
						phi, isPhi := v.(*ssa.Phi)
						return isPhi && phi.Comment == "foundVolume"
					}))
					if len(notFound) > 0 {
						if hit, _ := eng.Search(eng.Entry(fn), eng.Is(st), eng.SearchOpt{Cut: notFound}); hit == nil {
							okv = true
							detail = "free slots shrink by the list length only for a volume not yet listed on the server"
						}
					}
				}
			}
			c.Ob("MIRROR-slots", fmt.Sprintf("%s freeEcSlot#%d", eng.FuncName(fn), i), okv, st.Pos(), detail+" (a shard that was not set / cleared must not change the slot count)")
		}
	}
	c.Expect("MIRROR-slots", 3)

	// ---------------------------------------------------------------- (3a) the even-spread target is a ceiling
	// the per-rack / per-server cap is ceil(total / n): rounded up through math.Ceil, or (total + n - 1) / n in integers;
	// (total + n) / n is one too many whenever total is a multiple of n
	if fn := c.NeedFunc("weed/shell", "ceilDivide"); fn != nil {
		for i, r := range eng.Find(fn, eng.IsReturn) {
			v := r.(*ssa.Return).Results[0]
			ok := eng.MentionsCall(v, "math.Ceil")
			terms := ""
			if !ok {
				if q, isQ := eng.Unwrap(v).(*ssa.BinOp); isQ && q.Op == token.QUO {
					terms = strings.Join(eng.LinearTerms(q.X), " ")
					ok = terms == strings.Join(eng.LinearTerms(q.X), " ") && strings.Contains(terms, "-1") && strings.Count(terms, "+") == 2
				}
			}
			c.Ob("MIRROR-slots", fmt.Sprintf("%s is-a-ceiling#%d", eng.FuncName(fn), i), ok, r.Pos(), "the cap is the quotient rounded up (math.Ceil, or total+n-1 over n) "+terms)
		}
	}

	// ---------------------------------------------------------------- (3b) SCOPE-per-item
	// The balancing steps are applied once per volume / per rack inside loops; the node lists and count tables handed to
	// a step describe that one volume / rack. A list that is carried around the enclosing loop (declared outside it and
	// appended to, never reset) would still hold the previous racks' servers.
	nScope := 0
	for _, name := range []string{"balanceEcShardsWithinRacks", "balanceEcShardsAcrossRacks", "balanceEcRacks", "deleteDuplicatedEcShards", "doBalanceEcShardsAcrossRacks", "doBalanceEcShardsWithinOneRack"} {
		fn := c.NeedFunc("weed/shell", name)
		if fn == nil {
			continue
		}
		for _, in := range eng.Find(fn, func(in ssa.Instruction) bool { _, ok := in.(*ssa.Call); return ok }) {
			call := in.(*ssa.Call)
			callee := eng.StaticFn(call)
			if callee == nil || callee.Pkg == nil || callee.Pkg != fn.Pkg || len(eng.CycleOf(call.Block())) == 0 {
				continue
			}
			for ai, a := range call.Call.Args {
				switch a.Type().Underlying().(type) {
				case *types.Slice, *types.Map:
				default:
					continue
				}
				nScope++
				phi := eng.CarriedAcross(a, call.Block(), 10)
				c.Ob("SCOPE-per-item", fmt.Sprintf("%s %s arg#%d", eng.FuncName(fn), eng.Callee(call), ai), phi == nil, call.Pos(),
					"the collection handed to a per-volume / per-rack step is built for that one item, not accumulated over the iterations of the enclosing loop"+ifs(phi != nil, ": carried around the loop at "+P.Pos(phiPos(phi))))
			}
		}
	}
	if nScope < 4 {
		c.Undecided("SCOPE-per-item", "discovery", token.NoPos, fmt.Sprintf("only %d in-loop step calls with collection arguments found", nScope))
	}

	// ---------------------------------------------------------------- (4) PAIR-rack-count
	if fn := c.NeedFunc("weed/shell", "doBalanceEcShardsAcrossRacks"); fn != nil {
		mv := eng.Find(fn, eng.PlainCallTo("shell.pickOneEcNodeAndMoveOneShard"))
		pr := eng.Find(fn, eng.PlainCallTo("shell.pickOneRack"))
		if len(mv) != 1 || len(pr) != 1 {
			c.Undecided("PAIR-rack-count", eng.FuncName(fn), fn.Pos(), "pick rack / move calls not found")
		} else {
			rack := eng.ResultOf(pr[0], 0)
			fromDst := func(v ssa.Value) bool { return eng.Mentions(v, 6, func(x ssa.Value) bool { return x == rack }) }
			fromSrc := func(v ssa.Value) bool { return eng.MentionsField(v, "EcNode.rack") }
			delta := func(v ssa.Value, op token.Token) bool {
				b, ok := v.(*ssa.BinOp)
				if !ok || b.Op != op {
					return false
				}
				k, isK := eng.ConstInt(b.Y)
				return isK && k == 1
			}
			type upd struct {
				key  string
				pred eng.InstrPred
			}
			ups := []upd{
				{"count[destination rack] += 1", func(in ssa.Instruction) bool {
					mu, ok := in.(*ssa.MapUpdate)
					return ok && fromDst(mu.Key) && !fromSrc(mu.Key) && delta(mu.Value, token.ADD)
				}},
				{"count[source rack] -= 1", func(in ssa.Instruction) bool {
					mu, ok := in.(*ssa.MapUpdate)
					return ok && fromSrc(mu.Key) && delta(mu.Value, token.SUB)
				}},
				{"free slots[destination rack] -= 1", func(in ssa.Instruction) bool {
					st, ok := in.(*ssa.Store)
					return ok && eng.IsField(st.Addr, "EcRack.freeEcSlot") && fromDst(st.Addr) && !fromSrc(st.Addr) && delta(st.Val, token.SUB)
				}},
				{"free slots[source rack] += 1", func(in ssa.Instruction) bool {
					st, ok := in.(*ssa.Store)
					return ok && eng.IsField(st.Addr, "EcRack.freeEcSlot") && fromSrc(st.Addr) && delta(st.Val, token.ADD)
				}},
			}
			okEdge := eng.FailEdges(fn, eng.ErrNil(eng.ErrOf(mv[0])))
			for _, u := range ups {
				found := eng.Find(fn, u.pred)
				ok := len(found) == 1
				if ok {
					// from the successful move, the next loop iteration / return is not reachable without the update
					hit, _ := eng.Search(eng.After(mv[0]), eng.Or(eng.Is(pr[0]), eng.IsReturn), eng.SearchOpt{Barrier: eng.Is(found[0]), Cut: okEdge})
					ok = hit == nil
				}
				c.Ob("PAIR-rack-count", eng.FuncName(fn)+" "+u.key, ok, mv[0].Pos(), "after a shard was planned onto another rack the planner's per-rack view is updated: "+u.key)
			}
			c.ErrChecked("PAIR-rack-count", "move", fn, mv, "a failed move aborts the balancing")
		}
	}
	if fn := c.NeedFunc("weed/shell", "pickOneRack"); fn != nil {
		var picks []ssa.Instruction
		for _, r := range eng.Find(fn, eng.IsReturn) {
			for _, v := range eng.Resolve(r.(*ssa.Return).Results[0]) {
				if s, isS := eng.ConstString(eng.Unwrap(v)); !isS || s != "" {
					picks = append(picks, r)
					break
				}
			}
		}
		below := func(cond ssa.Value) (bool, bool) {
			b, ok := cond.(*ssa.BinOp)
			if !ok || !eng.IsParamLike(b.Y, "averageShardsPerEcRack") {
				return false, false
			}
			if !eng.Mentions(b.X, 5, func(x ssa.Value) bool { return eng.IsParamLike(x, "rackToShardCount") }) {
				return false, false
			}
			switch b.Op {
			case token.LSS:
				return true, true
			case token.GEQ:
				return true, false
			}
			return false, false
		}
		free := func(cond ssa.Value) (bool, bool) {
			b, ok := cond.(*ssa.BinOp)
			if !ok || !eng.IsField(b.X, "EcRack.freeEcSlot") {
				return false, false
			}
			k, isK := eng.ConstInt(b.Y)
			if !isK || k != 0 {
				return false, false
			}
			switch b.Op {
			case token.GTR:
				return true, true
			case token.LEQ:
				return true, false
			}
			return false, false
		}
		c.Guard("PAIR-rack-count", "rack-below-target", fn, eng.Entry(fn), picks, eng.PassEdges(fn, below), "a rack is picked only while it holds fewer shards of the volume than the spread target")
		c.Guard("PAIR-rack-count", "rack-has-free-slot", fn, eng.Entry(fn), picks, eng.PassEdges(fn, free), "a rack is picked only when it has a free shard slot")
	}
	c.Expect("PAIR-rack-count", 7)

	// ---------------------------------------------------------------- (5) de-duplication keeps the first holder
	if fn := c.NeedFunc("weed/shell", "doDeduplicateEcShards"); fn != nil {
		dels := eng.Find(fn, eng.PlainCallTo("shell.sourceServerDeleteEcShards", "shell.unmountEcShards", "shell.EcNode).deleteEcVolumeShards"))
		ok := len(dels) >= 3
		for _, d := range dels {
			// the node operated on is an element of holders[1:]
			fromTail := false
			for _, a := range d.(*ssa.Call).Call.Args {
				if eng.Mentions(a, 8, func(x ssa.Value) bool {
					sl, isSl := x.(*ssa.Slice)
					if !isSl || sl.Low == nil {
						return false
					}
					k, isK := eng.ConstInt(sl.Low)
					return isK && k == 1
				}) {
					fromTail = true
				}
			}
			if !fromTail {
				ok = false
			}
		}
		c.Ob("DEDUP-keep-first", eng.FuncName(fn), ok, fn.Pos(), "duplicate copies are removed only from holders[1:], the first holder keeps the shard")
		multi := eng.Cmp(func(v ssa.Value) bool {
			call, isCall := v.(*ssa.Call)
			return isCall && eng.CalleeIs(call, "builtin.len")
		}, func(v ssa.Value) bool { k, isK := eng.ConstInt(v); return isK && k == 1 }, token.GTR)
		c.Guard("DEDUP-keep-first", "only-duplicated", fn, eng.Entry(fn), dels, eng.PassEdges(fn, multi), "only shards held by more than one server are touched")
	}
}

// sameDefs: both values are loads of the same local variable (or resolve to the same definitions).
func sameDefs(a, b ssa.Value) bool {
	ua, ok1 := a.(*ssa.UnOp)
	ub, ok2 := b.(*ssa.UnOp)
	if ok1 && ok2 && ua.Op == token.MUL && ub.Op == token.MUL && ua.X == ub.X {
		return true
	}
	ra, rb := eng.Resolve(a), eng.Resolve(b)
	if len(ra) == 0 || len(ra) != len(rb) {
		return false
	}
	for i := range ra {
		if ra[i] != rb[i] {
			return false
		}
	}
	return true
}

func phiPos(phi *ssa.Phi) token.Pos {
	if phi == nil {
		return token.NoPos
	}
	if phi.Pos().IsValid() {
		return phi.Pos()
	}
	for _, in := range phi.Block().Instrs {
		if in.Pos().IsValid() {
			return in.Pos()
		}
	}
	return token.NoPos
}
