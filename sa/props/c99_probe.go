package props

import "verif/sa/eng"

func init() {
	register(&Prop{ID: "C99", Run: func(c *eng.Ctx) {
		errAll(c, "ERR-probe", "weed/storage", "x", "(*Volume).load", "(*Volume).Compact", "(*Volume).Compact2", "(*Volume).CommitCompact", "(*Volume).makeupDiff", "CheckAndFixVolumeDataIntegrity", "(*Store).DeleteEcShardNeedle", "(*Store).ReadEcShardNeedle", "(*Store).readOneEcShardInterval", "(*Store).recoverOneRemoteEcShardInterval")
		errAll(c, "ERR-probe", "weed/storage/erasure_coding", "x", "WriteEcFiles", "RebuildEcFiles", "generateEcFiles", "encodeDatFile", "rebuildEcFiles", "WriteDatFile", "WriteIdxFileFromEcIndex", "(*EcVolume).DeleteNeedleFromEcx", "RebuildEcxFile", "WriteSortedFileFromIdx")
		errAll(c, "ERR-probe", "weed/filer", "x", "(*Filer).CreateEntry", "(*Filer).UpdateEntry", "(*Filer).DeleteEntryMetaAndData", "(*Filer).doBatchDeleteFolderMetaAndData", "(*Filer).doDeleteEntryMetaAndData", "(*FilerStoreWrapper).InsertEntry", "(*FilerStoreWrapper).UpdateEntry", "(*FilerStoreWrapper).DeleteEntry", "(*FilerStoreWrapper).DeleteFolderChildren", "(*FilerStoreWrapper).DeleteHardLink")
		errAll(c, "ERR-probe", "weed/server", "x", "(*FilerServer).AtomicRenameEntry", "(*FilerServer).moveEntry", "(*FilerServer).moveFolderSubEntries", "(*FilerServer).moveSelfEntry", "(*FilerServer).saveMetaData", "(*FilerServer).doPostAutoChunk", "(*FilerServer).doPutAutoChunk", "(*FilerServer).uploadReaderToChunks", "(*FilerServer).dataToChunk", "(*FilerServer).AppendToEntry", "(*FilerServer).CreateEntry", "(*FilerServer).UpdateEntry", "(*FilerServer).DeleteEntry")
		errAll(c, "ERR-probe", "weed/s3api", "x", "(*S3ApiServer).completeMultipartUpload", "(*S3ApiServer).createMultipartUpload", "(*S3ApiServer).abortMultipartUpload", "(*S3ApiServer).putToFiler")
		errAll(c, "ERR-probe", "weed/replication", "x", "(*Replicator).Replicate")
		errAll(c, "ERR-probe", "weed/replication/sink/filersink", "x", "(*FilerSink).CreateEntry", "(*FilerSink).UpdateEntry", "(*FilerSink).DeleteEntry", "(*FilerSink).replicateChunks", "(*FilerSink).replicateOneChunk", "(*FilerSink).fetchAndWrite")
		errAll(c, "ERR-probe", "weed/filesys", "x", "(*FileHandle).doFlush", "(*ContinuousDirtyPages).FlushData", "(*TempFileDirtyPages).FlushData", "(*Dir).Rename", "(*Dir).removeOneFile", "(*Dir).removeFolder")
		errAll(c, "ERR-probe", "weed/topology", "x", "(*Topology).batchVacuumVolumeCompact", "(*Topology).batchVacuumVolumeCommit", "ReplicatedWrite", "ReplicatedDelete")
	}})
}
