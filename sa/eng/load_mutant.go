package eng

// Incremental loading of a mutant program: the unchanged tree was already parsed and
// type-checked (base). A mutant replaces the text of a few files. Only the packages
// that contain such a file, and the module packages that import them (transitively),
// are type-checked again, from source, against the base program's types for
// everything else; then SSA is built for the whole module. No build tool runs and
// nothing is written.

import (
	"fmt"
	"go/ast"
	"go/parser"
	"go/types"
	"sort"
	"strings"

	"golang.org/x/tools/go/packages"
	"golang.org/x/tools/go/ssa"
)

type importerFunc func(path string) (*types.Package, error)

func (f importerFunc) Import(path string) (*types.Package, error) { return f(path) }

// LoadMutant returns the program that results from replacing the given files (absolute path ->
// content) in base. The error is non-nil when the changed program does not type-check.
func LoadMutant(base *Prog, overlay map[string][]byte) (*Prog, error) {
	// all packages of the import graph, by path
	all := map[string]*packages.Package{}
	var walk func(p *packages.Package)
	walk = func(p *packages.Package) {
		if all[p.PkgPath] != nil {
			return
		}
		all[p.PkgPath] = p
		for _, ip := range p.Imports {
			walk(ip)
		}
	}
	for _, p := range base.Pkgs {
		walk(p)
	}
	isRoot := map[string]bool{}
	for _, p := range base.Pkgs {
		isRoot[p.PkgPath] = true
	}
	// directly changed packages
	changed := map[string]bool{}
	skipped := 0
	for file := range overlay {
		found := false
		for _, p := range base.Pkgs {
			for _, f := range p.CompiledGoFiles {
				if f == file {
					changed[p.PkgPath] = true
					found = true
				}
			}
		}
		if !found {
			// a file excluded from this build configuration (the other offset width, another OS): the change to it
			// does not exist here; the rest of the overlay does
			skipped++
		}
	}
	if len(changed) == 0 {
		return nil, fmt.Errorf("no overlay file belongs to a loaded package (%d excluded by build constraints)", skipped)
	}
	// reverse-dependency closure among the module's packages
	affected := map[string]bool{}
	for k := range changed {
		affected[k] = true
	}
	for grew := true; grew; {
		grew = false
		for _, p := range base.Pkgs {
			if affected[p.PkgPath] {
				continue
			}
			for ip := range p.Imports {
				if affected[ip] {
					affected[p.PkgPath] = true
					grew = true
					break
				}
			}
		}
	}
	// dependency order
	var order []*packages.Package
	visited := map[string]bool{}
	var visit func(p *packages.Package)
	visit = func(p *packages.Package) {
		if visited[p.PkgPath] || !affected[p.PkgPath] {
			return
		}
		visited[p.PkgPath] = true
		var deps []string
		for ip := range p.Imports {
			deps = append(deps, ip)
		}
		sort.Strings(deps)
		for _, ip := range deps {
			if q := all[ip]; q != nil {
				visit(q)
			}
		}
		order = append(order, p)
	}
	for _, p := range base.Pkgs {
		visit(p)
	}

	fresh := map[string]*packages.Package{}
	imp := importerFunc(func(path string) (*types.Package, error) {
		if path == "unsafe" {
			return types.Unsafe, nil
		}
		if np := fresh[path]; np != nil {
			return np.Types, nil
		}
		if bp := all[path]; bp != nil && bp.Types != nil {
			return bp.Types, nil
		}
		return nil, fmt.Errorf("package %s not in the base program", path)
	})
	for _, p := range order {
		var files []*ast.File
		for i, name := range p.CompiledGoFiles {
			if content, ok := overlay[name]; ok {
				f, err := parser.ParseFile(base.Fset, name, content, parser.ParseComments|parser.SkipObjectResolution)
				if err != nil {
					return nil, fmt.Errorf("parse %s: %v", name, err)
				}
				files = append(files, f)
				continue
			}
			if i < len(p.Syntax) {
				files = append(files, p.Syntax[i])
			}
		}
		if len(files) != len(p.CompiledGoFiles) || len(p.Syntax) != len(p.CompiledGoFiles) {
			return nil, fmt.Errorf("package %s: syntax does not line up with its file list", p.PkgPath)
		}
		info := &types.Info{
			Types:      map[ast.Expr]types.TypeAndValue{},
			Defs:       map[*ast.Ident]types.Object{},
			Uses:       map[*ast.Ident]types.Object{},
			Implicits:  map[ast.Node]types.Object{},
			Instances:  map[*ast.Ident]types.Instance{},
			Scopes:     map[ast.Node]*types.Scope{},
			Selections: map[*ast.SelectorExpr]*types.Selection{},
		}
		info.FileVersions = map[*ast.File]string{}
		var firstErr error
		conf := types.Config{
			Importer:  imp,
			Sizes:     p.TypesSizes,
			GoVersion: p.Types.GoVersion(),
			Error: func(err error) {
				if firstErr == nil {
					firstErr = err
				}
			},
		}
		tp, _ := conf.Check(p.PkgPath, base.Fset, files, info)
		if firstErr != nil {
			return nil, fmt.Errorf("type-check %s: %v", p.PkgPath, firstErr)
		}
		np := *p
		np.Types = tp
		np.TypesInfo = info
		np.Syntax = files
		np.Imports = map[string]*packages.Package{}
		for k, v := range p.Imports {
			if f := fresh[k]; f != nil {
				np.Imports[k] = f
			} else {
				np.Imports[k] = v
			}
		}
		fresh[p.PkgPath] = &np
	}

	// SSA for the whole module
	prog := ssa.NewProgram(base.Fset, ssa.InstantiateGenerics)
	created := map[*types.Package]bool{}
	var create func(p *packages.Package)
	create = func(p *packages.Package) {
		if f := fresh[p.PkgPath]; f != nil {
			p = f
		}
		if p.Types == nil || created[p.Types] {
			return
		}
		created[p.Types] = true
		if isRoot[p.PkgPath] && p.TypesInfo != nil {
			prog.CreatePackage(p.Types, p.Syntax, p.TypesInfo, true)
		} else {
			prog.CreatePackage(p.Types, nil, nil, true)
		}
		var deps []string
		for ip := range p.Imports {
			deps = append(deps, ip)
		}
		sort.Strings(deps)
		for _, ip := range deps {
			create(p.Imports[ip])
		}
	}
	out := &Prog{Tags: base.Tags, Dir: base.Dir, ByPath: map[string]*packages.Package{}, Fset: base.Fset}
	for _, p := range base.Pkgs {
		q := p
		if f := fresh[p.PkgPath]; f != nil {
			q = f
		}
		out.Pkgs = append(out.Pkgs, q)
		out.ByPath[strings.TrimPrefix(q.PkgPath, ModulePath)] = q
		create(q)
	}
	prog.Build()
	out.SSA = prog
	out.NFuncs = base.NFuncs
	return out, nil
}
