package eng

import (
	"fmt"
	"go/token"

	"golang.org/x/tools/go/ssa"
)

// AbsOracle gives the truth value of a leaf boolean value at an abstract point.
type AbsOracle func(v ssa.Value) (val bool, known bool)

// AbsEvalBool interprets a loop-free boolean function over one abstract point:
// leaf conditions are answered by the oracle, control flow (if/jump/phi/!) is
// followed structurally. This evaluates the predicate's *shape* on a finite
// abstract domain; no program state is executed.
func AbsEvalBool(fn *ssa.Function, oracle AbsOracle, resultIdx int) (bool, error) {
	var prev *ssa.BasicBlock
	b := fn.Blocks[0]
	memo := map[ssa.Value]bool{}
	var eval func(v ssa.Value) (bool, error)
	eval = func(v ssa.Value) (bool, error) {
		if r, ok := memo[v]; ok {
			return r, nil
		}
		if c, ok := ConstBool(v); ok {
			return c, nil
		}
		if val, known := oracle(v); known {
			return val, nil
		}
		switch x := v.(type) {
		case *ssa.UnOp:
			if x.Op == token.NOT {
				r, err := eval(x.X)
				return !r, err
			}
		case *ssa.BinOp:
			if x.Op == token.EQL || x.Op == token.NEQ {
				if _, isB := ConstBool(x.Y); isB {
					l, err := eval(x.X)
					if err != nil {
						return false, err
					}
					r, _ := ConstBool(x.Y)
					return (l == r) == (x.Op == token.EQL), nil
				}
			}
			if x.Op == token.AND || x.Op == token.OR {
				l, err := eval(x.X)
				if err != nil {
					return false, err
				}
				r, err := eval(x.Y)
				if err != nil {
					return false, err
				}
				if x.Op == token.AND {
					return l && r, nil
				}
				return l || r, nil
			}
		case *ssa.Phi:
			return false, fmt.Errorf("phi %s evaluated out of order", x.Name())
		}
		return false, fmt.Errorf("leaf %s = %s is not covered by the abstract domain", v.Name(), v.String())
	}
	for steps := 0; steps < 2000; steps++ {
		// phis first
		for _, in := range b.Instrs {
			phi, ok := in.(*ssa.Phi)
			if !ok {
				break
			}
			if phi.Type().String() != "bool" {
				continue
			}
			idx := -1
			for i, p := range b.Preds {
				if p == prev {
					idx = i
				}
			}
			if idx < 0 {
				return false, fmt.Errorf("phi without predecessor")
			}
			r, err := eval(phi.Edges[idx])
			if err != nil {
				return false, err
			}
			memo[phi] = r
		}
		last := b.Instrs[len(b.Instrs)-1]
		switch t := last.(type) {
		case *ssa.If:
			r, err := eval(t.Cond)
			if err != nil {
				return false, err
			}
			prev = b
			if r {
				b = b.Succs[0]
			} else {
				b = b.Succs[1]
			}
		case *ssa.Jump:
			prev = b
			b = b.Succs[0]
		case *ssa.Return:
			if resultIdx >= len(t.Results) {
				return false, fmt.Errorf("no result %d", resultIdx)
			}
			return eval(t.Results[resultIdx])
		default:
			return false, fmt.Errorf("unsupported terminator %T", last)
		}
	}
	return false, fmt.Errorf("step bound exceeded (loop?)")
}

// OrderOracle builds an oracle for comparisons between two designated integer
// values L and R under a given ordering (-1: L<R, 0: L==R, +1: L>R), plus
// extra named boolean leaves.
func OrderOracle(isL, isR func(ssa.Value) bool, ord int, extra func(v ssa.Value) (bool, bool)) AbsOracle {
	return func(v ssa.Value) (bool, bool) {
		if extra != nil {
			if r, ok := extra(v); ok {
				return r, true
			}
		}
		b, ok := v.(*ssa.BinOp)
		if !ok {
			return false, false
		}
		o := ord
		switch {
		case isL(b.X) && isR(b.Y):
		case isR(b.X) && isL(b.Y):
			o = -ord
		default:
			return false, false
		}
		switch b.Op {
		case token.EQL:
			return o == 0, true
		case token.NEQ:
			return o != 0, true
		case token.LSS:
			return o < 0, true
		case token.LEQ:
			return o <= 0, true
		case token.GTR:
			return o > 0, true
		case token.GEQ:
			return o >= 0, true
		}
		return false, false
	}
}

// CutUnder returns the CFG edges that are inconsistent with an abstract
// assignment of leaf conditions: for every If whose condition (after stripping
// negations) is decided by the oracle, the edge of the opposite outcome is cut.
func CutUnder(fn *ssa.Function, oracle AbsOracle) map[Edge]bool {
	out := map[Edge]bool{}
	for _, b := range fn.Blocks {
		if len(b.Instrs) == 0 {
			continue
		}
		iff, ok := b.Instrs[len(b.Instrs)-1].(*ssa.If)
		if !ok {
			continue
		}
		c, flip := stripNot(iff.Cond)
		val, known := oracle(c)
		if !known {
			continue
		}
		if flip {
			val = !val
		}
		if val {
			out[Edge{b, 1}] = true
		} else {
			out[Edge{b, 0}] = true
		}
	}
	return out
}
