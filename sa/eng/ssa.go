package eng

import (
	"fmt"
	"go/constant"
	"go/token"
	"go/types"
	"strings"

	"golang.org/x/tools/go/ssa"
)

// ---------------------------------------------------------------- callees

// Callee renders the resolved callee of a call: static functions and methods as
// "weed/storage/needle.(*Needle).Append", interface invokes as
// "weed/storage.(NeedleMapper).Put", builtins as "builtin.append", closures
// created in place as the closure's name, anything else as "".
func Callee(c ssa.CallInstruction) string {
	cc := c.Common()
	if cc.IsInvoke() {
		return trimMod(cc.Method.FullName())
	}
	switch v := cc.Value.(type) {
	case *ssa.Function:
		return FuncName(v)
	case *ssa.Builtin:
		return "builtin." + v.Name()
	case *ssa.MakeClosure:
		return FuncName(v.Fn.(*ssa.Function))
	}
	return ""
}

func trimMod(s string) string { return strings.ReplaceAll(s, ModulePath, "") }

// StaticFn returns the called function when statically known (incl. closures).
func StaticFn(c ssa.CallInstruction) *ssa.Function {
	cc := c.Common()
	if cc.IsInvoke() {
		return nil
	}
	switch v := cc.Value.(type) {
	case *ssa.Function:
		return v
	case *ssa.MakeClosure:
		return v.Fn.(*ssa.Function)
	}
	return nil
}

// CalleeIs reports whether the callee name equals or ends with one of the names
// (a name is matched as a suffix at a path boundary so "needle.(*Needle).Append"
// or the full module-relative form both work).
func CalleeIs(c ssa.CallInstruction, names ...string) bool {
	return NameIs(Callee(c), names...)
}

func NameIs(got string, names ...string) bool {
	if got == "" {
		return false
	}
	for _, n := range names {
		if got == n {
			return true
		}
		if strings.HasSuffix(got, n) {
			pre := got[:len(got)-len(n)]
			if strings.HasSuffix(pre, "/") || strings.HasSuffix(pre, "(*") || strings.HasSuffix(pre, "(") || strings.HasSuffix(pre, ".") {
				return true
			}
		}
	}
	return false
}

// InstrPred selects instructions.
type InstrPred func(ssa.Instruction) bool

// CallTo selects call instructions (call, go, defer) whose callee matches.
func CallTo(names ...string) InstrPred {
	return func(in ssa.Instruction) bool {
		c, ok := in.(ssa.CallInstruction)
		return ok && CalleeIs(c, names...)
	}
}

// PlainCallTo selects only ordinary calls (not go/defer).
func PlainCallTo(names ...string) InstrPred {
	return func(in ssa.Instruction) bool {
		c, ok := in.(*ssa.Call)
		return ok && CalleeIs(c, names...)
	}
}

func Or(ps ...InstrPred) InstrPred {
	return func(in ssa.Instruction) bool {
		for _, p := range ps {
			if p(in) {
				return true
			}
		}
		return false
	}
}

// Find returns the instructions of fn (not its closures) matching pred, in block order.
func Find(fn *ssa.Function, pred InstrPred) []ssa.Instruction {
	var out []ssa.Instruction
	if fn == nil {
		return nil
	}
	for _, b := range fn.Blocks {
		for _, in := range b.Instrs {
			if pred(in) {
				out = append(out, in)
			}
		}
	}
	return out
}

// FindDeep also searches nested function literals.
func FindDeep(fn *ssa.Function, pred InstrPred) []ssa.Instruction {
	var out []ssa.Instruction
	for _, f := range WithAnon(fn) {
		out = append(out, Find(f, pred)...)
	}
	return out
}

// ---------------------------------------------------------------- fields

// FieldRef describes a field selection instruction.
func fieldOf(v ssa.Value) (owner string, field string, base ssa.Value, ok bool) {
	switch x := v.(type) {
	case *ssa.FieldAddr:
		t := deref(x.X.Type())
		st, _ := t.Underlying().(*types.Struct)
		if st == nil {
			return
		}
		return typeName(t), st.Field(x.Field).Name(), x.X, true
	case *ssa.Field:
		t := x.X.Type()
		st, _ := t.Underlying().(*types.Struct)
		if st == nil {
			return
		}
		return typeName(t), st.Field(x.Field).Name(), x.X, true
	}
	return
}

func deref(t types.Type) types.Type {
	if p, ok := t.Underlying().(*types.Pointer); ok {
		return p.Elem()
	}
	return t
}

func typeName(t types.Type) string {
	t = deref(t)
	if n, ok := t.(*types.Named); ok {
		return n.Obj().Name()
	}
	if a, ok := t.(*types.Alias); ok {
		return a.Obj().Name()
	}
	return t.String()
}

// TypeName returns the bare name of a (pointer to) named type.
func TypeName(t types.Type) string { return typeName(t) }

// IsField reports whether v selects (address or value, possibly loaded) the field "Type.field".
func IsField(v ssa.Value, spec string) bool {
	if u, ok := v.(*ssa.UnOp); ok && u.Op == token.MUL {
		v = u.X
	}
	o, f, _, ok := fieldOf(v)
	return ok && o+"."+f == spec
}

// FieldBase returns the base object of a (loaded) field selection.
func FieldBase(v ssa.Value) ssa.Value {
	if u, ok := v.(*ssa.UnOp); ok && u.Op == token.MUL {
		v = u.X
	}
	_, _, b, _ := fieldOf(v)
	return b
}

// FieldSpec returns "Type.field" for a (loaded) field selection, else "".
func FieldSpec(v ssa.Value) string {
	if u, ok := v.(*ssa.UnOp); ok && u.Op == token.MUL {
		v = u.X
	}
	o, f, _, ok := fieldOf(v)
	if !ok {
		return ""
	}
	return o + "." + f
}

// StoreToField selects stores whose address is field "Type.field".
func StoreToField(spec string) InstrPred {
	return func(in ssa.Instruction) bool {
		s, ok := in.(*ssa.Store)
		return ok && IsField(s.Addr, spec)
	}
}

// ---------------------------------------------------------------- operand walk

// Walk visits v and, transitively, the values it is computed from (bounded
// depth), following loads of local allocs to the values stored into them.
// visit returns false to stop descending below a node.
func Walk(v ssa.Value, depth int, visit func(ssa.Value) bool) {
	seen := map[ssa.Value]bool{}
	var rec func(v ssa.Value, d int)
	rec = func(v ssa.Value, d int) {
		if v == nil || seen[v] || d < 0 {
			return
		}
		seen[v] = true
		if !visit(v) {
			return
		}
		switch x := v.(type) {
		case *ssa.UnOp:
			rec(x.X, d-1)
			if x.Op == token.MUL {
				if a, ok := x.X.(*ssa.Alloc); ok {
					for _, r := range *a.Referrers() {
						if s, ok := r.(*ssa.Store); ok && s.Addr == a {
							rec(s.Val, d-1)
						}
					}
				}
			}
		case *ssa.BinOp:
			rec(x.X, d-1)
			rec(x.Y, d-1)
		case *ssa.Convert:
			rec(x.X, d-1)
		case *ssa.ChangeType:
			rec(x.X, d-1)
		case *ssa.ChangeInterface:
			rec(x.X, d-1)
		case *ssa.MakeInterface:
			rec(x.X, d-1)
		case *ssa.TypeAssert:
			rec(x.X, d-1)
		case *ssa.Field:
			rec(x.X, d-1)
		case *ssa.FieldAddr:
			rec(x.X, d-1)
		case *ssa.Index:
			rec(x.X, d-1)
			rec(x.Index, d-1)
		case *ssa.IndexAddr:
			rec(x.X, d-1)
			rec(x.Index, d-1)
		case *ssa.Lookup:
			rec(x.X, d-1)
			rec(x.Index, d-1)
		case *ssa.Slice:
			rec(x.X, d-1)
			rec(x.Low, d-1)
			rec(x.High, d-1)
		case *ssa.Extract:
			rec(x.Tuple, d-1)
		case *ssa.Phi:
			for _, e := range x.Edges {
				rec(e, d-1)
			}
		case *ssa.Call:
			if !x.Call.IsInvoke() {
				if _, isFn := x.Call.Value.(*ssa.Function); !isFn {
					rec(x.Call.Value, d-1)
				}
			} else {
				rec(x.Call.Value, d-1)
			}
			for _, a := range x.Call.Args {
				rec(a, d-1)
			}
		case *ssa.MakeClosure:
			for _, b := range x.Bindings {
				rec(b, d-1)
			}
		case *ssa.Alloc:
			for _, r := range *x.Referrers() {
				if s, ok := r.(*ssa.Store); ok && s.Addr == x {
					rec(s.Val, d-1)
				}
				// elements stored into a local array (variadic argument packing)
				if ia, ok := r.(*ssa.IndexAddr); ok && ia.X == x {
					for _, rr := range *ia.Referrers() {
						if s, ok := rr.(*ssa.Store); ok && s.Addr == ia {
							rec(s.Val, d-1)
						}
					}
				}
			}
		case *ssa.Next:
			rec(x.Iter, d-1)
		case *ssa.Range:
			rec(x.X, d-1)
		}
	}
	rec(v, depth)
}

// Mentions reports whether v is computed (within depth) from a value satisfying pred.
func Mentions(v ssa.Value, depth int, pred func(ssa.Value) bool) bool {
	found := false
	Walk(v, depth, func(x ssa.Value) bool {
		if found {
			return false
		}
		if pred(x) {
			found = true
			return false
		}
		return true
	})
	return found
}

// MentionsField: v is computed from a selection of field "Type.field".
func MentionsField(v ssa.Value, spec string) bool {
	return Mentions(v, 8, func(x ssa.Value) bool { return IsField(x, spec) })
}

// MentionsCall: v is computed from the result of a call to one of names.
func MentionsCall(v ssa.Value, names ...string) bool {
	return Mentions(v, 8, func(x ssa.Value) bool {
		c, ok := x.(*ssa.Call)
		return ok && CalleeIs(c, names...)
	})
}

// MentionsValue: v is computed from w.
func MentionsValue(v ssa.Value, w ssa.Value) bool {
	return Mentions(v, 8, func(x ssa.Value) bool { return x == w })
}

// MentionsParam: v is computed from the parameter (or free variable) named name.
func MentionsParam(v ssa.Value, name string) bool {
	return Mentions(v, 8, func(x ssa.Value) bool {
		switch p := x.(type) {
		case *ssa.Parameter:
			return p.Name() == name
		case *ssa.FreeVar:
			return p.Name() == name
		}
		return false
	})
}

// ConstInt returns the integer value of a constant.
func ConstInt(v ssa.Value) (int64, bool) {
	c, ok := v.(*ssa.Const)
	if !ok || c == nil || c.Value == nil {
		return 0, false
	}
	if c.Value.Kind() != constant.Int {
		return 0, false
	}
	i, ok := constant.Int64Val(c.Value)
	return i, ok
}

func IsNilConst(v ssa.Value) bool {
	c, ok := v.(*ssa.Const)
	return ok && c != nil && c.IsNil()
}

func ConstBool(v ssa.Value) (bool, bool) {
	c, ok := v.(*ssa.Const)
	if !ok || c == nil || c.Value == nil || c.Value.Kind() != constant.Bool {
		return false, false
	}
	return constant.BoolVal(c.Value), true
}

func ConstString(v ssa.Value) (string, bool) {
	c, ok := v.(*ssa.Const)
	if !ok || c == nil || c.Value == nil || c.Value.Kind() != constant.String {
		return "", false
	}
	return constant.StringVal(c.Value), true
}

// ---------------------------------------------------------------- conditions

// Atom classifies a condition value: match=false when the atom is not the one
// looked for; holdsOnTrue tells which branch is the one where the guard holds.
type Atom func(cond ssa.Value) (match bool, holdsOnTrue bool)

// Edge identifies a CFG edge (block, successor index).
type Edge struct {
	B *ssa.BasicBlock
	I int
}

// stripNot removes leading negations, returning the inner value and whether the sense is flipped.
func stripNot(v ssa.Value) (ssa.Value, bool) {
	flip := false
	for {
		u, ok := v.(*ssa.UnOp)
		if !ok || u.Op != token.NOT {
			return v, flip
		}
		v = u.X
		flip = !flip
	}
}

// PassEdges returns the CFG edges on which atom holds.
func PassEdges(fn *ssa.Function, atom Atom) map[Edge]bool {
	out := map[Edge]bool{}
	for _, b := range fn.Blocks {
		if len(b.Instrs) == 0 {
			continue
		}
		iff, ok := b.Instrs[len(b.Instrs)-1].(*ssa.If)
		if !ok {
			continue
		}
		c, flip := stripNot(iff.Cond)
		m, onTrue := atom(c)
		if !m {
			continue
		}
		if flip {
			onTrue = !onTrue
		}
		if onTrue {
			out[Edge{b, 0}] = true
		} else {
			out[Edge{b, 1}] = true
		}
	}
	return out
}

// FailEdges returns the complementary edges (where the atom does not hold).
func FailEdges(fn *ssa.Function, atom Atom) map[Edge]bool {
	out := map[Edge]bool{}
	for e := range PassEdges(fn, atom) {
		out[Edge{e.B, 1 - e.I}] = true
	}
	return out
}

// Cmp builds an atom for a comparison `x op y` where px matches one operand
// and py the other (either order). holds lists the operators (as written with
// px on the left) under which the guard holds, e.g. {token.EQL}.
func Cmp(px, py func(ssa.Value) bool, holds ...token.Token) Atom {
	return func(cond ssa.Value) (bool, bool) {
		b, ok := cond.(*ssa.BinOp)
		if !ok {
			return false, false
		}
		op := b.Op
		var swapped bool
		switch {
		case px(b.X) && py(b.Y):
		case px(b.Y) && py(b.X):
			swapped = true
		default:
			return false, false
		}
		if swapped {
			op = swapOp(op)
		}
		for _, h := range holds {
			if op == h {
				return true, true
			}
			if negOp(op) == h {
				return true, false
			}
		}
		return false, false
	}
}

func swapOp(op token.Token) token.Token {
	switch op {
	case token.LSS:
		return token.GTR
	case token.GTR:
		return token.LSS
	case token.LEQ:
		return token.GEQ
	case token.GEQ:
		return token.LEQ
	}
	return op
}

func negOp(op token.Token) token.Token {
	switch op {
	case token.EQL:
		return token.NEQ
	case token.NEQ:
		return token.EQL
	case token.LSS:
		return token.GEQ
	case token.GEQ:
		return token.LSS
	case token.GTR:
		return token.LEQ
	case token.LEQ:
		return token.GTR
	}
	return token.ILLEGAL
}

// ErrNil: the atom "e == nil" for the given error value (or any value that is
// computed from it through phi/extract/load-of-local).
func ErrNil(e ssa.Value) Atom {
	return Cmp(func(v ssa.Value) bool { return SameVar(v, e) }, IsNilConst, token.EQL)
}

// ErrNotNil: the atom "e != nil".
func ErrNotNil(e ssa.Value) Atom {
	return Cmp(func(v ssa.Value) bool { return SameVar(v, e) }, IsNilConst, token.NEQ)
}

// BoolCall: the atom "call to one of names returned true".
func BoolCall(want bool, names ...string) Atom {
	return func(cond ssa.Value) (bool, bool) {
		c, ok := cond.(*ssa.Call)
		if ok && CalleeIs(c, names...) {
			return true, want
		}
		return false, false
	}
}

// BoolVal: the atom "value satisfying p is true (want=true) / false".
func BoolVal(want bool, p func(ssa.Value) bool) Atom {
	return func(cond ssa.Value) (bool, bool) {
		if p(cond) {
			return true, want
		}
		return false, false
	}
}

// AnyAtom combines alternatives: the first matching atom decides.
func AnyAtom(as ...Atom) Atom {
	return func(cond ssa.Value) (bool, bool) {
		for _, a := range as {
			if m, t := a(cond); m {
				return m, t
			}
		}
		return false, false
	}
}

// SameVar: v denotes the same variable as e — identical SSA value, an Extract
// of the same tuple index, a phi with e among its edges, a load of a local
// alloc into which e was stored, or e being such a load of the same alloc.
func SameVar(v, e ssa.Value) bool {
	if v == e {
		return true
	}
	seen := map[ssa.Value]bool{}
	var from func(v ssa.Value, d int) bool
	from = func(v ssa.Value, d int) bool {
		if v == e {
			return true
		}
		if d == 0 || seen[v] {
			return false
		}
		seen[v] = true
		switch x := v.(type) {
		case *ssa.Phi:
			for _, ed := range x.Edges {
				if from(ed, d-1) {
					return true
				}
			}
		case *ssa.UnOp:
			if x.Op == token.MUL {
				if a, ok := x.X.(*ssa.Alloc); ok {
					for _, r := range *a.Referrers() {
						if s, ok := r.(*ssa.Store); ok && s.Addr == a && from(s.Val, d-1) {
							return true
						}
					}
					if l, ok := e.(*ssa.UnOp); ok && l.Op == token.MUL && l.X == a {
						return true
					}
				}
				if fv, ok := x.X.(*ssa.FreeVar); ok {
					if l, ok := e.(*ssa.UnOp); ok && l.Op == token.MUL && l.X == fv {
						return true
					}
					// a captured variable assigned in this function: the load may denote what was stored
					for _, r := range *fv.Referrers() {
						if s, ok := r.(*ssa.Store); ok && s.Addr == fv && from(s.Val, d-1) {
							return true
						}
					}
				}
			}
		case *ssa.ChangeInterface:
			return from(x.X, d-1)
		case *ssa.MakeInterface:
			return from(x.X, d-1)
		}
		return false
	}
	return from(v, 6)
}

// ErrOf returns the error-typed result value of a call instruction (the call
// itself for a single result, the Extract for tuples). nil when none.
func ErrOf(c ssa.Instruction) ssa.Value {
	call, ok := c.(*ssa.Call)
	if !ok {
		return nil
	}
	sig := call.Call.Signature()
	res := sig.Results()
	if res.Len() == 0 {
		return nil
	}
	idx := -1
	for i := 0; i < res.Len(); i++ {
		if isErrorType(res.At(i).Type()) {
			idx = i
		}
	}
	if idx < 0 {
		return nil
	}
	if res.Len() == 1 {
		return call
	}
	for _, r := range *call.Referrers() {
		if ex, ok := r.(*ssa.Extract); ok && ex.Index == idx {
			return ex
		}
	}
	return nil
}

// ResultOf returns the i-th result value of a call.
func ResultOf(c ssa.Instruction, i int) ssa.Value {
	call, ok := c.(*ssa.Call)
	if !ok {
		return nil
	}
	if call.Call.Signature().Results().Len() == 1 {
		if i == 0 {
			return call
		}
		return nil
	}
	for _, r := range *call.Referrers() {
		if ex, ok := r.(*ssa.Extract); ok && ex.Index == i {
			return ex
		}
	}
	return nil
}

func isErrorType(t types.Type) bool {
	n, ok := t.(*types.Named)
	return ok && n.Obj().Pkg() == nil && n.Obj().Name() == "error"
}

// IsErrorType is exported for props.
func IsErrorType(t types.Type) bool { return isErrorType(t) }

// ---------------------------------------------------------------- paths

var noReturn = []string{
	"weed/glog.Fatal", "weed/glog.Fatalf", "weed/glog.Fatalln", "weed/glog.Exit", "weed/glog.Exitf",
	"os.Exit", "log.Fatal", "log.Fatalf", "log.Fatalln", "log.Panic", "log.Panicf", "runtime.Goexit",
}

func isNoReturn(in ssa.Instruction) bool {
	c, ok := in.(*ssa.Call)
	return ok && CalleeIs(c, noReturn...)
}

// Loc is a program point: just before instruction Idx of block B.
type Loc struct {
	B   *ssa.BasicBlock
	Idx int
}

func LocOf(in ssa.Instruction) Loc {
	b := in.Block()
	for i, x := range b.Instrs {
		if x == in {
			return Loc{b, i}
		}
	}
	return Loc{b, 0}
}

func After(in ssa.Instruction) Loc {
	l := LocOf(in)
	l.Idx++
	return l
}

func Entry(fn *ssa.Function) Loc { return Loc{fn.Blocks[0], 0} }

// Search explores the CFG forward from start. Instructions satisfying barrier
// stop a path (the barrier itself is not a target); edges in cut are not
// followed; paths through no-return calls and panics end. It returns the first
// instruction satisfying target that is reachable, plus a witness path of
// block indices. target may be nil-returning for none.
type SearchOpt struct {
	Barrier InstrPred
	Cut     map[Edge]bool
	Cut2    map[Edge]bool
}

func Search(start Loc, target InstrPred, opt SearchOpt) (ssa.Instruction, []int) {
	type item struct {
		loc  Loc
		path []int
	}
	seen := map[*ssa.BasicBlock]bool{}
	work := []item{{start, []int{start.B.Index}}}
	first := true
	for len(work) > 0 {
		it := work[0]
		work = work[1:]
		b := it.loc.B
		if it.loc.Idx == 0 {
			if seen[b] {
				continue
			}
			seen[b] = true
		} else if !first {
			// mid-block starts only for the initial location
		}
		first = false
		stopped := false
		for i := it.loc.Idx; i < len(b.Instrs); i++ {
			in := b.Instrs[i]
			if opt.Barrier != nil && opt.Barrier(in) {
				stopped = true
				break
			}
			if target != nil && target(in) {
				return in, it.path
			}
			if isNoReturn(in) {
				stopped = true
				break
			}
			if _, ok := in.(*ssa.Panic); ok {
				stopped = true
				break
			}
		}
		if stopped {
			continue
		}
		for si, s := range b.Succs {
			e := Edge{b, si}
			if opt.Cut[e] || opt.Cut2[e] {
				continue
			}
			if seen[s] {
				continue
			}
			np := append(append([]int{}, it.path...), s.Index)
			work = append(work, item{Loc{s, 0}, np})
		}
	}
	return nil, nil
}

// IsReturn selects normal return instructions.
func IsReturn(in ssa.Instruction) bool { _, ok := in.(*ssa.Return); return ok }

// Is selects exactly the given instruction.
func Is(x ssa.Instruction) InstrPred { return func(in ssa.Instruction) bool { return in == x } }

func AnyOf(xs []ssa.Instruction) InstrPred {
	m := map[ssa.Instruction]bool{}
	for _, x := range xs {
		m[x] = true
	}
	return func(in ssa.Instruction) bool { return m[in] }
}

// MergeEdges unions edge sets.
func MergeEdges(ms ...map[Edge]bool) map[Edge]bool {
	out := map[Edge]bool{}
	for _, m := range ms {
		for e := range m {
			out[e] = true
		}
	}
	return out
}

// DescribePath renders a witness path.
func DescribePath(p *Prog, fn *ssa.Function, path []int) string {
	var parts []string
	for _, i := range path {
		if i < len(fn.Blocks) {
			b := fn.Blocks[i]
			pos := token.NoPos
			for _, in := range b.Instrs {
				if in.Pos().IsValid() {
					pos = in.Pos()
					break
				}
			}
			line := 0
			if pos.IsValid() {
				line = p.Fset.Position(pos).Line
			}
			parts = append(parts, fmt.Sprintf("b%d@L%d", i, line))
		}
	}
	if len(parts) > 14 {
		parts = append(parts[:6], append([]string{"..."}, parts[len(parts)-6:]...)...)
	}
	return strings.Join(parts, " -> ")
}

// ReturnsNilError: the return instruction's error-typed operand is the nil constant.
func ReturnsNilError(r *ssa.Return) bool {
	for _, v := range r.Results {
		if isErrorType(v.Type()) {
			return IsNilConst(v)
		}
	}
	return false
}

// ReturnErrOperand returns the error-typed result operand of a return.
func ReturnErrOperand(r *ssa.Return) ssa.Value {
	for _, v := range r.Results {
		if isErrorType(v.Type()) {
			return v
		}
	}
	return nil
}

// Dominates: instruction a dominates instruction b (same function).
func Dominates(a, b ssa.Instruction) bool {
	if a.Block() == b.Block() {
		return LocOf(a).Idx < LocOf(b).Idx
	}
	return a.Block().Dominates(b.Block())
}

// ---------------------------------------------------------------- call graph (static)

// Reaches reports whether fn can reach, through statically resolved calls
// (functions, methods, closures created in the function) within depth, a call
// instruction satisfying pred. Interface invokes are not followed.
func Reaches(fn *ssa.Function, pred InstrPred, depth int) bool {
	seen := map[*ssa.Function]bool{}
	var rec func(f *ssa.Function, d int) bool
	rec = func(f *ssa.Function, d int) bool {
		if f == nil || seen[f] || f.Blocks == nil {
			return false
		}
		seen[f] = true
		for _, g := range WithAnon(f) {
			for _, b := range g.Blocks {
				for _, in := range b.Instrs {
					if pred(in) {
						return true
					}
				}
			}
		}
		if d == 0 {
			return false
		}
		for _, g := range WithAnon(f) {
			for _, b := range g.Blocks {
				for _, in := range b.Instrs {
					if c, ok := in.(ssa.CallInstruction); ok {
						if callee := StaticFn(c); callee != nil && callee.Parent() == nil {
							if rec(callee, d-1) {
								return true
							}
						}
					}
				}
			}
		}
		return false
	}
	return rec(fn, depth)
}

// CallReaching selects calls whose static callee reaches (within depth) an instruction satisfying pred.
func CallReaching(pred InstrPred, depth int) InstrPred {
	memo := map[*ssa.Function]bool{}
	return func(in ssa.Instruction) bool {
		c, ok := in.(ssa.CallInstruction)
		if !ok {
			return false
		}
		f := StaticFn(c)
		if f == nil {
			return false
		}
		if v, ok := memo[f]; ok {
			return v
		}
		r := Reaches(f, pred, depth)
		memo[f] = r
		return r
	}
}

// ScopeStarts returns the program points at the head of the successor blocks of the pass edges of atom.
func ScopeStarts(fn *ssa.Function, atom Atom) []Loc {
	var out []Loc
	for _, b := range fn.Blocks {
		for e := range PassEdges(fn, atom) {
			if e.B == b {
				out = append(out, Loc{b.Succs[e.I], 0})
			}
		}
	}
	return out
}

// IsParam: v is the parameter (or captured variable) with that name.
func IsParam(v ssa.Value, name string) bool {
	switch p := v.(type) {
	case *ssa.Parameter:
		return p.Name() == name
	case *ssa.FreeVar:
		return p.Name() == name
	}
	return false
}

// RecvOf returns the receiver argument of a static method call or invoke.
func RecvOf(c ssa.CallInstruction) ssa.Value {
	cc := c.Common()
	if cc.IsInvoke() {
		return cc.Value
	}
	if f := StaticFn(c); f != nil && f.Signature.Recv() != nil && len(cc.Args) > 0 {
		return cc.Args[0]
	}
	return nil
}

// Arg returns the i-th explicit argument (receiver excluded).
func Arg(c ssa.CallInstruction, i int) ssa.Value {
	cc := c.Common()
	off := 0
	if !cc.IsInvoke() {
		if f := StaticFn(c); f != nil && f.Signature.Recv() != nil {
			off = 1
		}
	}
	if i+off < len(cc.Args) {
		return cc.Args[i+off]
	}
	return nil
}

// ---------------------------------------------------------------- reaching stores for locals

// Zero is the marker returned by ReachingDefs for "the zero value (no store on some path)".
var Zero ssa.Value = (*ssa.Const)(nil)

// ReachingDefs returns the values that may be held by the local alloc a just
// before location at: stores reaching along CFG paths; Zero when a path from the
// function entry carries no store. Stores made inside nested closures are
// included conservatively (flow-insensitive).
func ReachingDefs(a *ssa.Alloc, at Loc) []ssa.Value { return ReachingDefsFrom(a, at, nil) }

// ReachingDefsFrom is ReachingDefs restricted to paths that start just after
// instruction `stop`: a backward walk that arrives at stop without having seen
// a store yields Zero (the variable was not assigned since stop).
func ReachingDefsFrom(a *ssa.Alloc, at Loc, stop ssa.Instruction) []ssa.Value {
	return reachingDefs(a, at, stop, nil)
}

// reachingDefs: as ReachingDefsFrom, additionally never walking backwards over an edge in cut
// (the definitions that reach along paths consistent with the branch outcomes the caller fixed).
func reachingDefs(a *ssa.Alloc, at Loc, stop ssa.Instruction, cut map[Edge]bool) []ssa.Value {
	var out []ssa.Value
	seenV := map[ssa.Value]bool{}
	add := func(v ssa.Value) {
		if !seenV[v] {
			seenV[v] = true
			out = append(out, v)
		}
	}
	// closure stores
	for _, r := range *a.Referrers() {
		if mc, ok := r.(*ssa.MakeClosure); ok {
			fn := mc.Fn.(*ssa.Function)
			for i, b := range mc.Bindings {
				if b == a && i < len(fn.FreeVars) {
					fv := fn.FreeVars[i]
					for _, rr := range *fv.Referrers() {
						if s, ok := rr.(*ssa.Store); ok && s.Addr == fv {
							add(s.Val)
						}
					}
				}
			}
		}
	}
	var fwd map[*ssa.BasicBlock]bool
	if stop != nil {
		fwd = map[*ssa.BasicBlock]bool{}
		work := append([]*ssa.BasicBlock{}, stop.Block().Succs...)
		for len(work) > 0 {
			b := work[0]
			work = work[1:]
			if fwd[b] {
				continue
			}
			fwd[b] = true
			work = append(work, b.Succs...)
		}
	}
	seenB := map[*ssa.BasicBlock]bool{}
	var back func(b *ssa.BasicBlock, idx int)
	back = func(b *ssa.BasicBlock, idx int) {
		for i := idx - 1; i >= 0; i-- {
			if stop != nil && b.Instrs[i] == stop {
				add(Zero)
				return
			}
			if s, ok := b.Instrs[i].(*ssa.Store); ok && s.Addr == a {
				add(s.Val)
				return
			}
		}
		if len(b.Preds) == 0 {
			add(Zero)
			return
		}
		for _, p := range b.Preds {
			if seenB[p] {
				continue
			}
			if len(cut) > 0 {
				skip := false
				for si, sb := range p.Succs {
					if sb == b && cut[Edge{p, si}] {
						skip = true
					}
				}
				if skip && !(len(p.Succs) == 2 && p.Succs[0] == p.Succs[1]) {
					continue
				}
			}
			if fwd != nil && !fwd[p] && p != stop.Block() {
				continue
			}
			seenB[p] = true
			back(p, len(p.Instrs))
		}
	}
	back(at.B, at.Idx)
	return out
}

// Resolve expands v into the set of values it may denote: phi edges are
// expanded, loads of local allocs are replaced by their reaching stores.
func Resolve(v ssa.Value) []ssa.Value { return ResolveFrom(v, nil) }

// ResolveFrom is Resolve with local variables resolved along paths starting after stop.
func ResolveFrom(v ssa.Value, stop ssa.Instruction) []ssa.Value { return resolveFrom(v, stop, nil) }

// ResolveFromCut is ResolveFrom along paths that do not use the cut edges.
func ResolveFromCut(v ssa.Value, stop ssa.Instruction, cut map[Edge]bool) []ssa.Value {
	return resolveFrom(v, stop, cut)
}

func resolveFrom(v ssa.Value, stop ssa.Instruction, cut map[Edge]bool) []ssa.Value {
	var out []ssa.Value
	seen := map[ssa.Value]bool{}
	// blocks reachable from stop without the cut edges: a phi takes an incoming value only from such a predecessor
	var reach map[*ssa.BasicBlock]bool
	if stop != nil && stop.Block() != nil {
		reach = map[*ssa.BasicBlock]bool{}
		var work []*ssa.BasicBlock
		push := func(b *ssa.BasicBlock) {
			for si, sb := range b.Succs {
				if !cut[Edge{b, si}] {
					work = append(work, sb)
				}
			}
		}
		push(stop.Block())
		for len(work) > 0 {
			b := work[0]
			work = work[1:]
			if reach[b] {
				continue
			}
			reach[b] = true
			push(b)
		}
	}
	onStack := map[*ssa.Phi]bool{}
	leaf := map[*ssa.Phi]bool{}
	var rec func(v ssa.Value, d int)
	rec = func(v ssa.Value, d int) {
		if v != Zero && v != nil {
			if seen[v] {
				// a restricted phi reached again through a cycle: along that path the variable still holds
				// the value it had when the walk started at stop, which is the phi itself (opaque)
				if ph, isPhi := v.(*ssa.Phi); isPhi && reach != nil && onStack[ph] && !leaf[ph] {
					leaf[ph] = true
					out = append(out, v)
				}
				return
			}
			seen[v] = true
		}
		if d == 0 || v == Zero || v == nil {
			out = append(out, v)
			return
		}
		switch x := v.(type) {
		case *ssa.Phi:
			onStack[x] = true
			defer func() { onStack[x] = false }()
			// a phi evaluated before stop (its block is not re-entered after stop) keeps every incoming value
			restricted := reach != nil && reach[x.Block()] && x.Block() != stop.Block()
			for i, e := range x.Edges {
				if restricted && i < len(x.Block().Preds) {
					pred := x.Block().Preds[i]
					if !reach[pred] && pred != stop.Block() {
						continue
					}
					edgeCut := false
					for si, sb := range pred.Succs {
						if sb == x.Block() && cut[Edge{pred, si}] {
							edgeCut = true
						}
					}
					if edgeCut && !(len(pred.Succs) == 2 && pred.Succs[0] == pred.Succs[1]) {
						continue
					}
				}
				rec(e, d-1)
			}
			return
		case *ssa.UnOp:
			if x.Op == token.MUL {
				if a, ok := x.X.(*ssa.Alloc); ok {
					for _, dv := range reachingDefs(a, LocOf(x), stop, cut) {
						rec(dv, d-1)
					}
					return
				}
				if fv, ok := x.X.(*ssa.FreeVar); ok {
					// captured variable: the values stored into it in this function that can reach the load
					n := 0
					for _, r := range *fv.Referrers() {
						if st, ok := r.(*ssa.Store); ok && st.Addr == fv {
							if st.Block() == x.Block() || st.Block().Dominates(x.Block()) || canReachBlock(st.Block(), x.Block()) {
								n++
								rec(st.Val, d-1)
							}
						}
					}
					if n > 0 && storeDominates(fv, x) {
						return
					}
				}
			}
		}
		out = append(out, v)
	}
	rec(v, 6)
	return out
}

// MayBeNil: some value v may denote is the nil constant or the zero value.
func MayBeNil(v ssa.Value) bool {
	if v == nil {
		return false
	}
	for _, x := range Resolve(v) {
		if x == Zero || x == nil {
			return true
		}
		if IsNilConst(x) {
			return true
		}
	}
	return false
}

// MustBeNil: every value v may denote is nil/zero.
func MustBeNil(v ssa.Value) bool {
	if v == nil {
		return false
	}
	for _, x := range Resolve(v) {
		if x == Zero || x == nil {
			continue
		}
		if !IsNilConst(x) {
			return false
		}
	}
	return true
}

// Unwrap strips type-only conversions (ChangeType, ChangeInterface, MakeInterface, Convert).
func Unwrap(v ssa.Value) ssa.Value {
	for {
		switch x := v.(type) {
		case *ssa.ChangeType:
			v = x.X
		case *ssa.ChangeInterface:
			v = x.X
		case *ssa.MakeInterface:
			v = x.X
		case *ssa.Convert:
			v = x.X
		default:
			return v
		}
	}
}

// Deref returns the element type of a pointer type (or t itself).
func Deref(t types.Type) types.Type { return deref(t) }

// ---------------------------------------------------------------- error classification

// ErrKinds classifies the values an error operand may denote relative to an
// origin error e (may be nil): "nil" (nil constant / zero value), "derived"
// (e itself or computed from it, e.g. fmt.Errorf("..%v", e)), "fresh" (a newly
// built or sentinel error: fmt.Errorf/errors.New/global/concrete value), and
// "unknown" (some other call result or parameter that may or may not be nil).
func ErrKinds(op ssa.Value, e ssa.Value) map[string]bool { return ErrKindsFrom(op, e, nil) }

// ErrKindsFrom classifies along paths that start after instruction stop.
func ErrKindsFrom(op ssa.Value, e ssa.Value, stop ssa.Instruction) map[string]bool {
	return ErrKindsFromCut(op, e, stop, nil)
}

// ErrKindsFromCut classifies along paths that start after stop and do not use the cut edges.
func ErrKindsFromCut(op ssa.Value, e ssa.Value, stop ssa.Instruction, cut map[Edge]bool) map[string]bool {
	out := map[string]bool{}
	for _, v := range resolveFrom(op, stop, cut) {
		switch {
		case v == Zero || v == nil || IsNilConst(v):
			out["nil"] = true
		case e != nil && (v == e || SameVar(v, e) || MentionsValue(v, e)):
			out["derived"] = true
		default:
			switch x := v.(type) {
			case *ssa.Call:
				if CalleeIs(x, "fmt.Errorf", "errors.New", "errors.Wrap", "errors.Wrapf", "status.Errorf", "status.Error") {
					out["fresh"] = true
				} else {
					out["unknown"] = true
				}
			case *ssa.MakeInterface:
				out["fresh"] = true
			case *ssa.UnOp:
				if _, ok := x.X.(*ssa.Global); ok && x.Op == token.MUL {
					out["fresh"] = true
				} else {
					out["unknown"] = true
				}
			default:
				out["unknown"] = true
			}
		}
	}
	return out
}

// MaySucceed: the return's error operand may be nil (nil constant, zero value,
// or an error value of unknown nil-ness such as another call's result).
func MaySucceed(r *ssa.Return) bool {
	op := ReturnErrOperand(r)
	if op == nil {
		return false
	}
	k := ErrKinds(op, nil)
	return k["nil"] || k["unknown"]
}

// ReturnMaySucceed: the return may hand back a nil error: its operand may be the
// nil constant / zero value, or a value of unknown nil-ness that is not known
// non-nil on every path to the return (x != nil / x == sentinel edges).
func ReturnMaySucceed(fn *ssa.Function, r *ssa.Return) bool {
	op := ReturnErrOperand(r)
	if op == nil {
		return false
	}
	vals := append([]ssa.Value{op}, Resolve(op)...)
	for i, v := range vals {
		if i > 0 && (v == Zero || v == nil || IsNilConst(v)) {
			return true
		}
		if i == 0 && (v == Zero || v == nil || IsNilConst(v)) {
			return true
		}
		if i > 0 {
			k := ErrKinds(v, nil)
			if !k["unknown"] {
				continue
			}
		}
		nonNil := func(cond ssa.Value) (bool, bool) {
			b, ok := cond.(*ssa.BinOp)
			if !ok || (b.Op != token.EQL && b.Op != token.NEQ) {
				return false, false
			}
			x, y := b.X, b.Y
			if !SameVar(x, v) {
				x, y = y, x
			}
			if !SameVar(x, v) {
				return false, false
			}
			if IsNilConst(y) {
				return true, b.Op == token.NEQ
			}
			if u, ok := y.(*ssa.UnOp); ok && u.Op == token.MUL {
				if _, isG := u.X.(*ssa.Global); isG {
					return true, b.Op == token.EQL
				}
			}
			return false, false
		}
		cut := PassEdges(fn, nonNil)
		if len(cut) == 0 {
			if i == 0 {
				continue
			}
			return true
		}
		if hit, _ := Search(Entry(fn), Is(r), SearchOpt{Cut: cut}); hit != nil {
			if i == 0 {
				continue
			}
			return true
		}
		if i == 0 {
			return false // the returned variable itself is known non-nil on every path to this return
		}
	}
	return false
}

// IsParamLike: v is the named parameter / captured variable, or a load of the
// local cell the parameter was spilled to (parameters captured by closures).
func IsParamLike(v ssa.Value, name string) bool {
	if IsParam(v, name) {
		return true
	}
	u, ok := v.(*ssa.UnOp)
	if !ok || u.Op != token.MUL {
		return false
	}
	switch a := u.X.(type) {
	case *ssa.FreeVar:
		return a.Name() == name
	case *ssa.Alloc:
		n := 0
		for _, r := range *a.Referrers() {
			if s, ok := r.(*ssa.Store); ok && s.Addr == a {
				if !IsParam(s.Val, name) {
					return false
				}
				n++
			}
		}
		return n > 0
	}
	return false
}

// ByteBufLens returns the constant lengths of the byte buffers created in fn
// (make([]byte, K) with constant K, which go/ssa lowers to new [K]byte + slice,
// or MakeSlice with a constant length).
func ByteBufLens(fn *ssa.Function) []int64 {
	var out []int64
	for _, b := range fn.Blocks {
		for _, in := range b.Instrs {
			switch x := in.(type) {
			case *ssa.MakeSlice:
				if k, ok := ConstInt(x.Len); ok {
					out = append(out, k)
				}
			case *ssa.Alloc:
				if arr, ok := deref(x.Type()).Underlying().(*types.Array); ok {
					if bt, ok := arr.Elem().Underlying().(*types.Basic); ok && bt.Kind() == types.Uint8 {
						out = append(out, arr.Len())
					}
				}
			}
		}
	}
	return out
}

// BufLenOf returns the constant length of the byte buffer v was sliced from, or -1.
func BufLenOf(v ssa.Value) int64 {
	r := int64(-1)
	Walk(v, 4, func(x ssa.Value) bool {
		switch y := x.(type) {
		case *ssa.MakeSlice:
			if k, ok := ConstInt(y.Len); ok {
				r = k
			}
		case *ssa.Alloc:
			if arr, ok := deref(y.Type()).Underlying().(*types.Array); ok {
				r = arr.Len()
			}
			return false
		}
		return true
	})
	return r
}

// ParamName returns the name of the parameter / captured variable v denotes
// (directly, or through the local cell a captured parameter is spilled to), or "".
func ParamName(v ssa.Value) string {
	switch p := v.(type) {
	case *ssa.Parameter:
		return p.Name()
	case *ssa.FreeVar:
		return p.Name()
	case *ssa.UnOp:
		if p.Op != token.MUL {
			return ""
		}
		switch a := p.X.(type) {
		case *ssa.FreeVar:
			return a.Name()
		case *ssa.Alloc:
			name := ""
			for _, r := range *a.Referrers() {
				if s, ok := r.(*ssa.Store); ok && s.Addr == a {
					pp, ok := s.Val.(*ssa.Parameter)
					if !ok {
						return ""
					}
					name = pp.Name()
				}
			}
			return name
		}
	}
	return ""
}

func canReachBlock(a, b *ssa.BasicBlock) bool {
	seen := map[*ssa.BasicBlock]bool{}
	work := []*ssa.BasicBlock{a}
	for len(work) > 0 {
		x := work[0]
		work = work[1:]
		if x == b {
			return true
		}
		if seen[x] {
			continue
		}
		seen[x] = true
		work = append(work, x.Succs...)
	}
	return false
}

// storeDominates: some store to the captured variable in this function dominates the load
// (so the load cannot observe the value the variable had when the closure was entered).
func storeDominates(fv *ssa.FreeVar, load *ssa.UnOp) bool {
	for _, r := range *fv.Referrers() {
		if st, ok := r.(*ssa.Store); ok && st.Addr == fv && Dominates(st, load) {
			return true
		}
	}
	return false
}
