package eng

import (
	"encoding/json"
	"fmt"
	"go/token"
	"os"
	"path/filepath"
	"sort"
	"strings"
	"time"

	"golang.org/x/tools/go/ssa"
)

// Obligation is one decided (rule x construct) instance.
type Obligation struct {
	Rule   string `json:"rule"`
	Key    string `json:"key"` // rule + construct, never a line number
	Config string `json:"config"`
	Status string `json:"status"` // discharged | violation | known-finding | undecided
	Pos    string `json:"pos,omitempty"`
	Detail string `json:"detail,omitempty"`
	Clause string `json:"clause,omitempty"`
}

type KnownFinding struct {
	Property string `json:"property"`
	Status   string `json:"status"` // known | fixed
	Key      string `json:"key"`
	Config   string `json:"config,omitempty"` // "" = any
	What     string `json:"what"`
	Commit   string `json:"commit,omitempty"`
	Finding  string `json:"finding,omitempty"`
}

// Ctx collects the obligations of one property run.
type Ctx struct {
	Prop   string
	Tier   string
	P      *Prog // current configuration
	Obls   []*Obligation
	Funcs  map[string]bool
	Sites  int
	Rules  map[string]int
	Notes  []string
	Min    map[string]int // expected minimum instance count per rule (non-vacuity)
	Only   string
	start  time.Time
	Config []string
	VerifD string
	syntax []synRec
	// Mutation is filled by the thorough tier (mutation-kill validation of the rules) and copied into the evidence.
	Mutation    map[string]interface{}
	vacuityDone bool
}

func NewCtx(prop, tier, verifDir string) *Ctx {
	return &Ctx{Prop: prop, Tier: tier, Funcs: map[string]bool{}, Rules: map[string]int{}, Min: map[string]int{}, start: time.Now(), VerifD: verifDir}
}

func (c *Ctx) cfgName() string {
	if c.P == nil || c.P.Tags == "" {
		return "default"
	}
	return c.P.Tags
}

// Touch records that a function was analysed.
func (c *Ctx) Touch(fn *ssa.Function) {
	if fn != nil {
		k := c.cfgName() + ":" + FuncName(fn)
		if c.Funcs[k] {
			return
		}
		c.Funcs[k] = true
		top := fn
		for top.Parent() != nil {
			top = top.Parent()
		}
		if n := top.Syntax(); n != nil && c.P != nil && c.P.Fset != nil {
			a, b := c.P.Fset.Position(n.Pos()), c.P.Fset.Position(n.End())
			c.syntax = append(c.syntax, synRec{cfg: c.cfgName(), file: a.Filename, start: a.Offset, end: b.Offset, node: n})
		}
	}
}

// Unresolved returns the obligations that are not discharged (violations, undecided, failed
// non-vacuity), as "config|key" strings. It has no side effects besides adding the non-vacuity
// obligations once.
func (c *Ctx) Unresolved() map[string]bool {
	c.nonVacuity()
	out := map[string]bool{}
	for _, o := range c.Obls {
		if o.Status != "discharged" {
			out[o.Config+"|"+o.Key] = true
		}
	}
	return out
}

func (c *Ctx) nonVacuity() {
	if c.vacuityDone {
		return
	}
	c.vacuityDone = true
	for k, n := range c.Min {
		parts := strings.SplitN(k, "|", 2)
		got := 0
		for _, o := range c.Obls {
			if o.Config == parts[0] && o.Rule == parts[1] {
				got++
			}
		}
		if got < n {
			c.Obls = append(c.Obls, &Obligation{Rule: "NONVACUITY", Key: "NONVACUITY " + parts[1], Config: parts[0], Status: "undecided",
				Detail: fmt.Sprintf("rule %s matched %d instance(s), expected at least %d (confirmed by hand on the pinned tree): sites were removed or the matcher no longer recognises them", parts[1], got, n)})
		}
	}
}

// NeedFunc resolves an anchor; an unresolved anchor is an undecided obligation (fails the run).
func (c *Ctx) NeedFunc(rel, name string) *ssa.Function {
	fn := c.P.Func(rel, name)
	if fn == nil || fn.Blocks == nil {
		c.add(&Obligation{Rule: "ANCHOR", Key: "ANCHOR " + rel + "." + name, Status: "undecided",
			Detail: "anchor function not found (renamed or removed): the obligations attached to it cannot be decided"})
		return nil
	}
	c.Touch(fn)
	return fn
}

func (c *Ctx) add(o *Obligation) {
	o.Config = c.cfgName()
	c.Rules[o.Rule]++
	c.Obls = append(c.Obls, o)
}

// Ob records a decided obligation.
func (c *Ctx) Ob(rule, key string, ok bool, pos token.Pos, detail string) {
	st := "discharged"
	if !ok {
		st = "violation"
	}
	ps := ""
	if c.P != nil && pos.IsValid() {
		ps = c.P.Pos(pos)
	}
	c.add(&Obligation{Rule: rule, Key: rule + " " + key, Status: st, Pos: ps, Detail: detail})
}

// Undecided records an obligation the analyser could not decide (fails the run).
func (c *Ctx) Undecided(rule, key string, pos token.Pos, detail string) {
	ps := ""
	if c.P != nil && pos.IsValid() {
		ps = c.P.Pos(pos)
	}
	c.add(&Obligation{Rule: rule, Key: rule + " " + key, Status: "undecided", Pos: ps, Detail: detail})
}

// Expect sets the minimum number of instances a rule must have matched.
func (c *Ctx) Expect(rule string, n int) { c.Min[c.cfgName()+"|"+rule] = n }

func (c *Ctx) Note(format string, a ...interface{}) {
	c.Notes = append(c.Notes, fmt.Sprintf(format, a...))
}

// ------------------------------------------------------------------ path rules on Ctx

// Guard: every path from `from` to each sink passes a pass-edge of atom(s).
// cut is the set of pass edges (union of all acceptable guards). Records one
// obligation per sink.
func (c *Ctx) Guard(rule, key string, fn *ssa.Function, from Loc, sinks []ssa.Instruction, cut map[Edge]bool, what string) {
	c.Touch(fn)
	if len(cut) == 0 {
		for i, s := range sinks {
			c.Ob(rule, fmt.Sprintf("%s %s sink#%d", FuncName(fn), key, i), false, InstrPos(s),
				"guard not found in function: "+what)
		}
		return
	}
	for i, s := range sinks {
		c.Sites++
		hit, path := Search(from, Is(s), SearchOpt{Cut: cut})
		k := fmt.Sprintf("%s %s sink#%d", FuncName(fn), key, i)
		if hit != nil {
			c.Ob(rule, k, false, InstrPos(s), fmt.Sprintf("sink reachable without passing the guard (%s); path %s", what, DescribePath(c.P, fn, path)))
		} else {
			c.Ob(rule, k, true, InstrPos(s), what)
		}
	}
}

// Before: on every path from function entry to each b, some instruction matching a occurs first.
func (c *Ctx) Before(rule, key string, fn *ssa.Function, a InstrPred, bs []ssa.Instruction, what string) {
	c.Touch(fn)
	for i, b := range bs {
		c.Sites++
		hit, path := Search(Entry(fn), Is(b), SearchOpt{Barrier: a})
		k := fmt.Sprintf("%s %s site#%d", FuncName(fn), key, i)
		if hit != nil {
			c.Ob(rule, k, false, InstrPos(b), fmt.Sprintf("reachable without the required preceding step (%s); path %s", what, DescribePath(c.P, fn, path)))
		} else {
			c.Ob(rule, k, true, InstrPos(b), what)
		}
	}
}

// AfterAll: from each a, every path to a normal return passes an instruction
// matching b (or a matching deferred call registered on a dominating path).
func (c *Ctx) AfterAll(rule, key string, fn *ssa.Function, as []ssa.Instruction, b InstrPred, cut map[Edge]bool, what string) {
	c.Touch(fn)
	for i, a := range as {
		c.Sites++
		k := fmt.Sprintf("%s %s site#%d", FuncName(fn), key, i)
		if deferredDominating(fn, a, b) {
			c.Ob(rule, k, true, InstrPos(a), what+" (deferred)")
			continue
		}
		hit, path := Search(After(a), IsReturn, SearchOpt{Barrier: b, Cut: cut})
		if hit != nil {
			c.Ob(rule, k, false, InstrPos(hit), fmt.Sprintf("exit at %s reachable after %s without %s; path %s", c.P.Pos(InstrPos(hit)), c.P.Pos(InstrPos(a)), what, DescribePath(c.P, fn, path)))
		} else {
			c.Ob(rule, k, true, InstrPos(a), what)
		}
	}
}

func deferredDominating(fn *ssa.Function, a ssa.Instruction, b InstrPred) bool {
	for _, blk := range fn.Blocks {
		for _, in := range blk.Instrs {
			d, ok := in.(*ssa.Defer)
			if !ok {
				continue
			}
			match := b(d)
			if !match {
				if f := StaticFn(d); f != nil && f.Parent() == fn {
					if len(Find(f, b)) > 0 {
						match = true
					}
				}
			}
			if match && (Dominates(d, a)) {
				return true
			}
		}
	}
	return false
}

// ------------------------------------------------------------------ finishing

type evidence struct {
	PropertyID string                 `json:"property_id"`
	Tier       string                 `json:"tier"`
	Seed       int                    `json:"seed"`
	Level      string                 `json:"level"`
	Coverage   map[string]interface{} `json:"coverage"`
	Assume     []string               `json:"assumptions"`
	Wall       float64                `json:"wall_s"`
	Violations int                    `json:"violations"`
}

func loadKnown(dir string) ([]KnownFinding, error) {
	b, err := os.ReadFile(filepath.Join(dir, "known_findings.json"))
	if err != nil {
		if os.IsNotExist(err) {
			return nil, nil
		}
		return nil, err
	}
	var f struct {
		Findings []KnownFinding `json:"findings"`
	}
	if err := json.Unmarshal(b, &f); err != nil {
		return nil, err
	}
	return f.Findings, nil
}

// Finish applies non-vacuity minima and known findings, writes evidence and the
// replay file, prints the verdict lines and returns the exit code.
func (c *Ctx) Finish(explanation string, assumptions []string, trusted []string) int {
	c.nonVacuity()
	known, err := loadKnown(c.VerifD)
	if err != nil {
		fmt.Printf("ERROR reading known_findings.json: %v\n", err)
		return 2
	}
	usedKnown := map[int]bool{}
	nViol, nKnown, nDis := 0, 0, 0
	var viol []*Obligation
	for _, o := range c.Obls {
		switch o.Status {
		case "discharged":
			nDis++
		case "violation":
			matched := false
			for i, k := range known {
				if k.Status == "known" && k.Property == c.Prop && k.Key == o.Key && (k.Config == "" || k.Config == o.Config) {
					matched = true
					usedKnown[i] = true
					o.Status = "known-finding"
					o.Clause = k.Finding
					nKnown++
					fmt.Printf("KNOWN-FINDING: property=%s [%s] %s (%s) %s — %s\n", c.Prop, o.Config, o.Key, k.Finding, o.Pos, k.What)
					break
				}
			}
			if !matched {
				nViol++
				viol = append(viol, o)
			}
		default:
			nViol++
			viol = append(viol, o)
		}
	}
	// samples
	var samples []interface{}
	byRule := map[string]int{}
	for _, o := range c.Obls {
		if byRule[o.Rule] < 3 || o.Status != "discharged" {
			byRule[o.Rule]++
			samples = append(samples, o)
		}
	}
	if len(samples) > 60 {
		samples = samples[:60]
	}
	rules := map[string]int{}
	for _, o := range c.Obls {
		rules[o.Rule]++
	}
	fnames := make([]string, 0, len(c.Funcs))
	for f := range c.Funcs {
		fnames = append(fnames, f)
	}
	sort.Strings(fnames)
	cov := map[string]interface{}{
		"explanation":         explanation,
		"obligations":         len(c.Obls),
		"discharged":          nDis,
		"known_findings":      nKnown,
		"violations":          nViol,
		"functions_analysed":  len(fnames),
		"functions":           fnames,
		"call_sites_examined": c.Sites,
		"build_configs":       c.Config,
		"rules":               rules,
		"samples":             samples,
		"exhaustive":          true,
		"checker_cmd":         "./check " + c.Prop,
		"trusted_base":        trusted,
		"notes":               c.Notes,
	}
	if c.Mutation != nil {
		for k, v := range c.Mutation {
			cov[k] = v
		}
	}
	if assumptions == nil {
		assumptions = []string{}
	}
	ev := evidence{PropertyID: c.Prop, Tier: c.Tier, Seed: 0, Level: "other", Coverage: cov, Assume: assumptions,
		Wall: time.Since(c.start).Seconds(), Violations: nViol}
	evDir := filepath.Join(c.VerifD, "evidence")
	os.MkdirAll(evDir, 0o755)
	b, _ := json.MarshalIndent(ev, "", " ")
	if err := os.WriteFile(filepath.Join(evDir, c.Prop+".json"), append(b, '\n'), 0o644); err != nil {
		fmt.Printf("ERROR writing evidence: %v\n", err)
		return 2
	}
	fmt.Printf("property=%s tier=%s configs=%v obligations=%d discharged=%d known=%d violations=%d functions=%d wall=%.1fs\n",
		c.Prop, c.Tier, c.Config, len(c.Obls), nDis, nKnown, nViol, len(fnames), ev.Wall)
	replay := filepath.Join(evDir, c.Prop+".violations.json")
	if nViol > 0 {
		for _, o := range viol {
			fmt.Printf("  %s [%s] %s\n      at %s\n      %s\n", strings.ToUpper(o.Status), o.Config, o.Key, o.Pos, o.Detail)
		}
		vb, _ := json.MarshalIndent(viol, "", " ")
		os.WriteFile(replay, append(vb, '\n'), 0o644)
		fmt.Printf("VIOLATION property=%s replay=%s\n", c.Prop, replay)
		return 1
	}
	os.Remove(replay)
	return 0
}

// PrintAll dumps every obligation (verbose mode).
func (c *Ctx) PrintAll() {
	for _, o := range c.Obls {
		fmt.Printf("  %-13s [%s] %s @ %s :: %s\n", o.Status, o.Config, o.Key, o.Pos, o.Detail)
	}
}

// ErrChecked: the error result of call is not swallowed — following only edges
// on which it may be non-nil, no return whose error operand may be nil (and no
// return at all in functions without error result, when failRet is set) is
// reachable. One obligation per call.
func (c *Ctx) ErrChecked(rule, key string, fn *ssa.Function, calls []ssa.Instruction, what string) {
	c.Touch(fn)
	ord := map[string]int{}
	for _, call := range calls {
		c.Sites++
		cn := "?"
		if cc, ok := call.(ssa.CallInstruction); ok {
			cn = shortCallee(cc)
		}
		ord[cn]++
		k := fmt.Sprintf("%s %s %s#%d", FuncName(fn), key, cn, ord[cn])
		e := ErrOf(call)
		if e == nil {
			if cc, ok := call.(ssa.CallInstruction); ok && sigHasError(cc) {
				c.Ob(rule, k, false, InstrPos(call), "error result is discarded at the call: "+what)
			} else {
				c.Undecided(rule, k, InstrPos(call), "call has no error result: "+what)
			}
			continue
		}
		if len(*e.Referrers()) == 0 {
			c.Ob(rule, k, false, InstrPos(call), "error result is never used: "+what)
			continue
		}
		// edges on which the error is nil, or is one specific sentinel that the code handles on purpose
		sentinel := Cmp(func(v ssa.Value) bool { return SameVar(v, e) }, func(v ssa.Value) bool {
			u, ok := v.(*ssa.UnOp)
			if !ok || u.Op != token.MUL {
				return false
			}
			_, isG := u.X.(*ssa.Global)
			return isG
		}, token.EQL)
		cut := MergeEdges(PassEdges(fn, ErrNil(e)), PassEdges(fn, sentinel))
		hit, path := Search(After(call), func(in ssa.Instruction) bool {
			r, ok := in.(*ssa.Return)
			if !ok {
				return false
			}
			op := ReturnErrOperand(r)
			if op == nil {
				return false
			}
			k := ErrKindsFromCut(op, e, call, cut)
			if !(k["nil"] || k["unknown"]) {
				return false
			}
			// the returned variable may still be known non-nil at this return (it sits behind `x != nil`)
			return ReturnMaySucceed(fn, r)
		}, SearchOpt{Cut: cut})
		if hit != nil {
			c.Ob(rule, k, false, InstrPos(call), fmt.Sprintf("a nil-error return at %s is reachable on the path where this error is non-nil (%s); path %s", c.P.Pos(InstrPos(hit)), what, DescribePath(c.P, fn, path)))
		} else {
			c.Ob(rule, k, true, InstrPos(call), what)
		}
	}
}

// CallersOf returns every static call site of fn in the module.
func (p *Prog) CallersOf(fn *ssa.Function) []ssa.CallInstruction {
	if p.callers == nil {
		p.callers = map[*ssa.Function][]ssa.CallInstruction{}
		for _, f := range p.AllSrcFuncs() {
			for _, b := range f.Blocks {
				for _, in := range b.Instrs {
					if c, ok := in.(ssa.CallInstruction); ok {
						if cal := StaticFn(c); cal != nil {
							p.callers[cal] = append(p.callers[cal], c)
						}
					}
				}
			}
		}
	}
	return p.callers[fn]
}

// GuardUp: like Guard, but when a sink is not guarded inside its own function the
// obligation moves to every static call site of that function (up to depth
// levels). cutOf computes the pass edges of the guard in a given function.
// skip lets a property hand a call chain over to another property's check.
func (c *Ctx) GuardUp(rule, key string, fn *ssa.Function, sinks []ssa.Instruction, cutOf func(*ssa.Function) map[Edge]bool, depth int, skip func(caller *ssa.Function) bool, what string) {
	var rec func(fn *ssa.Function, sink ssa.Instruction, d int, chain string) (bool, string)
	rec = func(fn *ssa.Function, sink ssa.Instruction, d int, chain string) (bool, string) {
		c.Touch(fn)
		cut := cutOf(fn)
		if len(cut) > 0 {
			if hit, _ := Search(Entry(fn), Is(sink), SearchOpt{Cut: cut}); hit == nil {
				return true, ""
			}
		}
		if d == 0 {
			return false, chain + " <- " + FuncName(fn) + " (depth bound reached)"
		}
		root := fn
		for root.Parent() != nil {
			root = root.Parent()
		}
		cs := c.P.CallersOf(root)
		if len(cs) == 0 {
			return false, chain + " <- " + FuncName(fn) + " (unguarded, no static caller)"
		}
		for _, call := range cs {
			caller := call.Parent()
			if skip != nil && skip(caller) {
				continue
			}
			ok, why := rec(caller, call.(ssa.Instruction), d-1, chain+" <- "+FuncName(fn))
			if !ok {
				return false, why
			}
		}
		return true, ""
	}
	for i, s := range sinks {
		c.Sites++
		k := fmt.Sprintf("%s %s sink#%d", FuncName(fn), key, i)
		ok, why := rec(fn, s, depth, "sink")
		if ok {
			c.Ob(rule, k, true, InstrPos(s), what)
		} else {
			c.Ob(rule, k, false, InstrPos(s), "sink reachable without the guard ("+what+") via "+why)
		}
	}
}

func sigHasError(c ssa.CallInstruction) bool {
	res := c.Common().Signature().Results()
	for i := 0; i < res.Len(); i++ {
		if isErrorType(res.At(i).Type()) {
			return true
		}
	}
	return false
}

// shortCallee renders a callee without its package path: "(*Needle).Append", "os.Rename".
func shortCallee(c ssa.CallInstruction) string {
	n := Callee(c)
	if n == "" {
		return "dynamic"
	}
	if i := strings.LastIndex(n, "/"); i >= 0 {
		pre := ""
		if strings.HasPrefix(n, "(*") {
			pre = "(*"
		} else if strings.HasPrefix(n, "(") {
			pre = "("
		}
		n = pre + n[i+1:]
	}
	return n
}
