package eng

import (
	"go/ast"
	"go/token"
	"go/types"
	"sort"
	"strings"

	"golang.org/x/tools/go/packages"
	"golang.org/x/tools/go/ssa"
)

// CloneLit describes a composite literal of struct type T that copies fields from another value of T.
type CloneLit struct {
	Pkg     *packages.Package
	Lit     *ast.CompositeLit
	Func    string            // enclosing function (best effort)
	Copied  map[string]string // field -> source expression text (same-named field copied from a value of type T)
	Source  string            // the source expression most fields are copied from
	Present map[string]bool   // all keys present in the literal
	Pos     token.Pos
}

// FindCloneLits scans every module package for composite literals of the named
// struct type (pkgRel.TypeName) in which at least minCopied fields are copied
// from same-named fields of one other value of that type.
func (p *Prog) FindCloneLits(pkgRel, typeName string, minCopied int) []CloneLit {
	var out []CloneLit
	for _, pk := range p.Pkgs {
		for _, f := range pk.Syntax {
			var stack []ast.Node
			ast.Inspect(f, func(n ast.Node) bool {
				if n == nil {
					stack = stack[:len(stack)-1]
					return true
				}
				stack = append(stack, n)
				cl, ok := n.(*ast.CompositeLit)
				if !ok {
					return true
				}
				t := pk.TypesInfo.TypeOf(cl)
				if t == nil {
					return true
				}
				named, ok := t.(*types.Named)
				if !ok || named.Obj().Name() != typeName || named.Obj().Pkg() == nil || strings.TrimPrefix(named.Obj().Pkg().Path(), ModulePath) != pkgRel {
					return true
				}
				c := CloneLit{Pkg: pk, Lit: cl, Copied: map[string]string{}, Present: map[string]bool{}, Pos: cl.Pos()}
				bySrc := map[string]int{}
				for _, el := range cl.Elts {
					kv, ok := el.(*ast.KeyValueExpr)
					if !ok {
						continue
					}
					key, ok := kv.Key.(*ast.Ident)
					if !ok {
						continue
					}
					c.Present[key.Name] = true
					sel, ok := kv.Value.(*ast.SelectorExpr)
					if !ok || sel.Sel.Name != key.Name {
						continue
					}
					st := pk.TypesInfo.TypeOf(sel.X)
					if st == nil {
						continue
					}
					if ptr, ok := st.(*types.Pointer); ok {
						st = ptr.Elem()
					}
					if sn, ok := st.(*types.Named); !ok || sn.Obj() != named.Obj() {
						continue
					}
					src := types.ExprString(sel.X)
					c.Copied[key.Name] = src
					bySrc[src]++
				}
				best, bestN := "", 0
				var srcs []string
				for s := range bySrc {
					srcs = append(srcs, s)
				}
				sort.Strings(srcs)
				for _, s := range srcs {
					if bySrc[s] > bestN {
						best, bestN = s, bySrc[s]
					}
				}
				if bestN < minCopied {
					return true
				}
				c.Source = best
				for i := len(stack) - 1; i >= 0; i-- {
					if fd, ok := stack[i].(*ast.FuncDecl); ok {
						c.Func = fd.Name.Name
						if fd.Recv != nil && len(fd.Recv.List) > 0 {
							c.Func = types.ExprString(fd.Recv.List[0].Type) + "." + fd.Name.Name
						}
						break
					}
				}
				c.Func = strings.TrimPrefix(pk.PkgPath, ModulePath) + "." + c.Func
				out = append(out, c)
				return true
			})
		}
	}
	sort.Slice(out, func(i, j int) bool { return out[i].Pos < out[j].Pos })
	return out
}

// InCycle reports whether block b lies on a CFG cycle.
func InCycle(b *ssa.BasicBlock) bool {
	seen := map[*ssa.BasicBlock]bool{}
	work := append([]*ssa.BasicBlock{}, b.Succs...)
	for len(work) > 0 {
		x := work[0]
		work = work[1:]
		if x == b {
			return true
		}
		if seen[x] {
			continue
		}
		seen[x] = true
		work = append(work, x.Succs...)
	}
	return false
}

// cycleBlocks returns the blocks that are on some cycle through b.
func cycleBlocks(b *ssa.BasicBlock) map[*ssa.BasicBlock]bool {
	fwd := map[*ssa.BasicBlock]bool{}
	work := []*ssa.BasicBlock{b}
	for len(work) > 0 {
		x := work[0]
		work = work[1:]
		if fwd[x] {
			continue
		}
		fwd[x] = true
		work = append(work, x.Succs...)
	}
	bwd := map[*ssa.BasicBlock]bool{}
	work = []*ssa.BasicBlock{b}
	for len(work) > 0 {
		x := work[0]
		work = work[1:]
		if bwd[x] {
			continue
		}
		bwd[x] = true
		work = append(work, x.Preds...)
	}
	out := map[*ssa.BasicBlock]bool{}
	for x := range fwd {
		if bwd[x] {
			out[x] = true
		}
	}
	return out
}

// LoopVariant reports whether value v, used at an instruction in block at
// (which lies on a cycle), can change between iterations: it is (or is
// computed from) a phi inside the cycle with an incoming value defined inside
// the cycle, or a load of a variable that is stored to inside the cycle
// (including stores made by function literals called in the cycle).
func LoopVariant(v ssa.Value, at *ssa.BasicBlock) bool {
	cyc := cycleBlocks(at)
	if !cyc[at] || len(cyc) < 1 {
		return false
	}
	inCyc := func(x ssa.Value) bool {
		in, ok := x.(ssa.Instruction)
		return ok && in.Block() != nil && in.Block().Parent() == at.Parent() && cyc[in.Block()]
	}
	seen := map[ssa.Value]bool{}
	var variant func(x ssa.Value, d int) bool
	variant = func(x ssa.Value, d int) bool {
		if x == nil || seen[x] || d == 0 {
			return false
		}
		seen[x] = true
		if !inCyc(x) {
			return false
		}
		switch y := x.(type) {
		case *ssa.Phi:
			for _, e := range y.Edges {
				if e != y && inCyc(e) {
					return true
				}
			}
			return false
		case *ssa.Call, *ssa.Extract, *ssa.Next, *ssa.Lookup, *ssa.Index, *ssa.IndexAddr, *ssa.Select:
			return true
		case *ssa.UnOp:
			if y.Op == token.MUL {
				if a, ok := y.X.(*ssa.Alloc); ok {
					for _, r := range *a.Referrers() {
						if s, ok := r.(*ssa.Store); ok && s.Addr == a && cyc[s.Block()] {
							return true
						}
						if mc, ok := r.(*ssa.MakeClosure); ok && cyc[mc.Block()] {
							fn := mc.Fn.(*ssa.Function)
							for i, b := range mc.Bindings {
								if b == a && i < len(fn.FreeVars) {
									for _, rr := range *fn.FreeVars[i].Referrers() {
										if s, ok := rr.(*ssa.Store); ok && s.Addr == fn.FreeVars[i] {
											return true
										}
									}
								}
							}
						}
					}
					return false
				}
				return variant(y.X, d-1) // load through a pointer: variant iff the address is
			}
			return variant(y.X, d-1)
		}
		if in, ok := x.(ssa.Instruction); ok {
			for _, op := range in.Operands(nil) {
				if *op != nil && variant(*op, d-1) {
					return true
				}
			}
		}
		return false
	}
	return variant(v, 8)
}
