// Package eng holds the repository-independent part of weedlint: loading the
// type-checked program, SSA helpers, path rules (GUARD/ORDER/PAIR/EXIT), lock
// dataflow and reporting.
package eng

import (
	"fmt"
	"go/ast"
	"go/token"
	"go/types"
	"os"
	"sort"
	"strings"

	"golang.org/x/tools/go/packages"
	"golang.org/x/tools/go/ssa"
	"golang.org/x/tools/go/ssa/ssautil"
)

const ModulePath = "github.com/chrislusf/seaweedfs/"

// Prog is one type-checked, SSA-built view of /repo under one build configuration.
type Prog struct {
	Tags    string
	Dir     string
	Pkgs    []*packages.Package
	ByPath  map[string]*packages.Package
	SSA     *ssa.Program
	Fset    *token.FileSet
	NFuncs  int
	callers map[*ssa.Function][]ssa.CallInstruction
}

func RepoDir() string {
	if d := os.Getenv("VERIF_REPO"); d != "" {
		return d
	}
	return "/repo"
}

// Load type-checks ./weed/... of the repository under the given build tags
// ("" = default) and builds SSA for every module package. overlay may be nil.
func Load(tags string, overlay map[string][]byte) (*Prog, error) {
	env := []string{}
	for _, e := range os.Environ() {
		if strings.HasPrefix(e, "GOWORK=") || strings.HasPrefix(e, "GOFLAGS=") {
			continue
		}
		env = append(env, e)
	}
	env = append(env, "GOFLAGS=-mod=mod", "GOPROXY=off", "GOSUMDB=off", "GOWORK=off", "GOTOOLCHAIN=local")
	cfg := &packages.Config{
		Mode:    packages.LoadSyntax,
		Dir:     RepoDir(),
		Env:     env,
		Overlay: overlay,
		Tests:   false,
	}
	if tags != "" {
		cfg.BuildFlags = []string{"-tags=" + tags}
	}
	pkgs, err := packages.Load(cfg, "./weed/...")
	if err != nil {
		return nil, fmt.Errorf("packages.Load: %v", err)
	}
	if len(pkgs) < 50 {
		return nil, fmt.Errorf("only %d packages loaded from %s (expected >= 50)", len(pkgs), cfg.Dir)
	}
	var errs []string
	for _, p := range pkgs {
		for _, e := range p.Errors {
			errs = append(errs, e.Error())
		}
	}
	if len(errs) > 0 {
		if len(errs) > 10 {
			errs = errs[:10]
		}
		return nil, fmt.Errorf("type-check/load errors (tags=%q):\n  %s", tags, strings.Join(errs, "\n  "))
	}
	sort.Slice(pkgs, func(i, j int) bool { return pkgs[i].PkgPath < pkgs[j].PkgPath })
	prog, _ := ssautil.Packages(pkgs, ssa.InstantiateGenerics)
	prog.Build()
	p := &Prog{Tags: tags, Dir: cfg.Dir, Pkgs: pkgs, ByPath: map[string]*packages.Package{}, SSA: prog}
	for _, pk := range pkgs {
		p.ByPath[strings.TrimPrefix(pk.PkgPath, ModulePath)] = pk
		if p.Fset == nil {
			p.Fset = pk.Fset
		}
	}
	for _, pk := range pkgs {
		sp := prog.Package(pk.Types)
		if sp == nil {
			continue
		}
		for _, m := range sp.Members {
			if f, ok := m.(*ssa.Function); ok {
				p.NFuncs += 1 + countAnon(f)
			}
		}
	}
	return p, nil
}

func countAnon(f *ssa.Function) int {
	n := 0
	for _, a := range f.AnonFuncs {
		n += 1 + countAnon(a)
	}
	return n
}

// Pkg returns the package with the module-relative path (e.g. "weed/storage").
func (p *Prog) Pkg(rel string) *packages.Package { return p.ByPath[rel] }

func (p *Prog) SSAPkg(rel string) *ssa.Package {
	pk := p.ByPath[rel]
	if pk == nil {
		return nil
	}
	return p.SSA.Package(pk.Types)
}

// Func resolves "weed/storage", "(*Volume).doWriteRequest" | "(Volume).x" | "NewVolume".
// Returns nil when not found.
func (p *Prog) Func(rel, name string) *ssa.Function {
	sp := p.SSAPkg(rel)
	if sp == nil {
		return nil
	}
	if !strings.HasPrefix(name, "(") {
		return sp.Func(name)
	}
	end := strings.Index(name, ").")
	if end < 0 {
		return nil
	}
	recv := strings.TrimPrefix(name[1:end], "*")
	meth := name[end+2:]
	obj := sp.Pkg.Scope().Lookup(recv)
	if obj == nil {
		return nil
	}
	named, ok := obj.Type().(*types.Named)
	if !ok {
		return nil
	}
	for _, t := range []types.Type{types.NewPointer(named), named} {
		ms := p.SSA.MethodSets.MethodSet(t)
		if sel := ms.Lookup(sp.Pkg, meth); sel != nil {
			fn := p.SSA.MethodValue(sel)
			if fn != nil && fn.Synthetic != "" {
				// promoted / wrapper: resolve to the declared method if it is ours
				if o, ok := sel.Obj().(*types.Func); ok {
					if f2 := p.SSA.FuncValue(o); f2 != nil {
						return f2
					}
				}
			}
			return fn
		}
	}
	return nil
}

// SrcFuncs returns every source function (including methods and nested function
// literals) of the package, in deterministic order.
func (p *Prog) SrcFuncs(rel string) []*ssa.Function {
	sp := p.SSAPkg(rel)
	if sp == nil {
		return nil
	}
	var out []*ssa.Function
	var add func(f *ssa.Function)
	add = func(f *ssa.Function) {
		if f == nil || f.Blocks == nil {
			return
		}
		out = append(out, f)
		for _, a := range f.AnonFuncs {
			add(a)
		}
	}
	for _, m := range sp.Members {
		switch m := m.(type) {
		case *ssa.Function:
			if m.Synthetic == "" || m.Name() == "init" {
				add(m)
			}
		case *ssa.Type:
			named, ok := m.Type().(*types.Named)
			if !ok {
				continue
			}
			for i := 0; i < named.NumMethods(); i++ {
				add(p.SSA.FuncValue(named.Method(i)))
			}
		}
	}
	// by file name and offset, not by token.Pos: files are parsed concurrently, so the order of their Pos ranges varies from run to run
	type key struct {
		file string
		off  int
		name string
	}
	ks := map[*ssa.Function]key{}
	for _, f := range out {
		ps := p.Fset.Position(f.Pos())
		ks[f] = key{ps.Filename, ps.Offset, f.String()}
	}
	sort.Slice(out, func(i, j int) bool {
		a, b := ks[out[i]], ks[out[j]]
		if a.file != b.file {
			return a.file < b.file
		}
		if a.off != b.off {
			return a.off < b.off
		}
		return a.name < b.name
	})
	return out
}

// AllSrcFuncs returns the source functions of every module package.
func (p *Prog) AllSrcFuncs() []*ssa.Function {
	var out []*ssa.Function
	for _, pk := range p.Pkgs {
		out = append(out, p.SrcFuncs(strings.TrimPrefix(pk.PkgPath, ModulePath))...)
	}
	return out
}

// WithAnon returns fn and all nested function literals.
func WithAnon(fn *ssa.Function) []*ssa.Function {
	out := []*ssa.Function{fn}
	for _, a := range fn.AnonFuncs {
		out = append(out, WithAnon(a)...)
	}
	return out
}

// Pos renders a position relative to the repository root.
func (p *Prog) Pos(pos token.Pos) string {
	if !pos.IsValid() {
		return "?"
	}
	ps := p.Fset.Position(pos)
	f := strings.TrimPrefix(ps.Filename, p.Dir+"/")
	return fmt.Sprintf("%s:%d:%d", f, ps.Line, ps.Column)
}

// InstrPos returns the best available position for an instruction.
func InstrPos(in ssa.Instruction) token.Pos {
	if in == nil {
		return token.NoPos
	}
	if in.Pos().IsValid() {
		return in.Pos()
	}
	if v, ok := in.(ssa.Value); ok {
		_ = v
	}
	// fall back: nearest instruction in the block with a position
	b := in.Block()
	if b != nil {
		idx := -1
		for i, x := range b.Instrs {
			if x == in {
				idx = i
			}
		}
		for i := idx; i >= 0; i-- {
			if b.Instrs[i].Pos().IsValid() {
				return b.Instrs[i].Pos()
			}
		}
		for i := idx + 1; i < len(b.Instrs) && i >= 0; i++ {
			if b.Instrs[i].Pos().IsValid() {
				return b.Instrs[i].Pos()
			}
		}
		if b.Parent() != nil {
			return b.Parent().Pos()
		}
	}
	return token.NoPos
}

// FuncDecl finds the AST declaration of a named function or method.
func (p *Prog) FuncDecl(rel, name string) (*ast.FuncDecl, *packages.Package) {
	pk := p.ByPath[rel]
	if pk == nil {
		return nil, nil
	}
	recv, meth := "", name
	if strings.HasPrefix(name, "(") {
		end := strings.Index(name, ").")
		recv = strings.TrimPrefix(name[1:end], "*")
		meth = name[end+2:]
	}
	for _, f := range pk.Syntax {
		for _, d := range f.Decls {
			fd, ok := d.(*ast.FuncDecl)
			if !ok || fd.Name.Name != meth {
				continue
			}
			if recv == "" {
				if fd.Recv == nil {
					return fd, pk
				}
				continue
			}
			if fd.Recv == nil || len(fd.Recv.List) == 0 {
				continue
			}
			t := fd.Recv.List[0].Type
			if s, ok := t.(*ast.StarExpr); ok {
				t = s.X
			}
			if id, ok := t.(*ast.Ident); ok && id.Name == recv {
				return fd, pk
			}
		}
	}
	return nil, pk
}

// FuncName renders a function as "weed/storage.(*Volume).doWriteRequest" (closures get $N suffixes).
func FuncName(fn *ssa.Function) string {
	if fn == nil {
		return "<nil>"
	}
	return strings.ReplaceAll(fn.String(), ModulePath, "")
}
