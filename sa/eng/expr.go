package eng

import (
	"go/constant"
	"go/token"
	"go/types"
	"sort"
	"strconv"
	"strings"

	"golang.org/x/tools/go/ssa"
)

// SameExpr reports whether two SSA values are structurally the same pure
// expression: identical value, equal constants, or the same operator applied to
// structurally equal operands. Loads are equal when their addresses are
// structurally equal (go/ssa performs no CSE, so `cs.counter` read twice in one
// statement is two loads); the caller is responsible for the two occurrences
// lying in a region without an intervening store (the rules that use this
// compare operands of one statement / one basic block).
func SameExpr(a, b ssa.Value) bool { return sameExpr(a, b, 10) }

func sameExpr(a, b ssa.Value, d int) bool {
	if a == b {
		return true
	}
	if a == nil || b == nil || d == 0 {
		return false
	}
	switch x := a.(type) {
	case *ssa.Const:
		y, ok := b.(*ssa.Const)
		if !ok {
			return false
		}
		if x.Value == nil || y.Value == nil {
			return x.Value == nil && y.Value == nil && types.Identical(x.Type(), y.Type())
		}
		return constant.Compare(x.Value, token.EQL, y.Value)
	case *ssa.BinOp:
		y, ok := b.(*ssa.BinOp)
		return ok && x.Op == y.Op && sameExpr(x.X, y.X, d-1) && sameExpr(x.Y, y.Y, d-1)
	case *ssa.UnOp:
		y, ok := b.(*ssa.UnOp)
		return ok && x.Op == y.Op && sameExpr(x.X, y.X, d-1)
	case *ssa.FieldAddr:
		y, ok := b.(*ssa.FieldAddr)
		return ok && x.Field == y.Field && types.Identical(x.X.Type(), y.X.Type()) && sameExpr(x.X, y.X, d-1)
	case *ssa.Field:
		y, ok := b.(*ssa.Field)
		return ok && x.Field == y.Field && types.Identical(x.X.Type(), y.X.Type()) && sameExpr(x.X, y.X, d-1)
	case *ssa.IndexAddr:
		y, ok := b.(*ssa.IndexAddr)
		return ok && sameExpr(x.X, y.X, d-1) && sameExpr(x.Index, y.Index, d-1)
	case *ssa.Index:
		y, ok := b.(*ssa.Index)
		return ok && sameExpr(x.X, y.X, d-1) && sameExpr(x.Index, y.Index, d-1)
	case *ssa.Convert:
		y, ok := b.(*ssa.Convert)
		return ok && types.Identical(x.Type(), y.Type()) && sameExpr(x.X, y.X, d-1)
	case *ssa.ChangeType:
		y, ok := b.(*ssa.ChangeType)
		return ok && types.Identical(x.Type(), y.Type()) && sameExpr(x.X, y.X, d-1)
	case *ssa.Call:
		// only builtin len/cap of structurally equal operands
		y, ok := b.(*ssa.Call)
		if !ok {
			return false
		}
		bx, ok1 := x.Call.Value.(*ssa.Builtin)
		by, ok2 := y.Call.Value.(*ssa.Builtin)
		if !ok1 || !ok2 || bx.Name() != by.Name() || (bx.Name() != "len" && bx.Name() != "cap") {
			return false
		}
		return sameExpr(x.Call.Args[0], y.Call.Args[0], d-1)
	}
	return false
}

// ReachableInstrs returns every instruction reachable from start without
// following the cut edges (paths end at no-return calls and panics).
func ReachableInstrs(start Loc, cut map[Edge]bool) []ssa.Instruction {
	var out []ssa.Instruction
	Search(start, func(in ssa.Instruction) bool {
		out = append(out, in)
		return false
	}, SearchOpt{Cut: cut})
	return out
}

// CanReach: some path leads from just after a to b.
func CanReach(a, b ssa.Instruction) bool {
	hit, _ := Search(After(a), Is(b), SearchOpt{})
	return hit != nil
}

// CycleOf returns the blocks lying on a cycle through b (empty when b is not in a loop).
func CycleOf(b *ssa.BasicBlock) map[*ssa.BasicBlock]bool {
	c := cycleBlocks(b)
	if !InCycle(b) {
		return map[*ssa.BasicBlock]bool{}
	}
	return c
}

// StaleInit describes a pre-loop value that is derived from the initial value
// of a loop-carried variable and used inside the loop directly (not through
// the loop-carried variable): it keeps the first iteration's view.
type StaleInit struct {
	Phi   *ssa.Phi        // the loop-carried variable
	Value ssa.Value       // the stale pre-loop derivative
	Use   ssa.Instruction // its use inside the loop
}

// StaleInits finds, for every loop-carried variable (header phi with an edge
// from inside and an edge from outside the loop), values computed outside the
// loop from its initial value — by data flow, or by control flow (a phi joining
// the arms of a branch on it) — that are used inside the loop.
func StaleInits(fn *ssa.Function) []StaleInit {
	var out []StaleInit
	for _, hb := range fn.Blocks {
		cyc := CycleOf(hb)
		if len(cyc) == 0 {
			continue
		}
		for _, in := range hb.Instrs {
			phi, ok := in.(*ssa.Phi)
			if !ok {
				break
			}
			var inits []ssa.Value
			hasInner := false
			for i, p := range hb.Preds {
				if cyc[p] {
					if phi.Edges[i] != phi {
						hasInner = true
					}
				} else {
					inits = append(inits, phi.Edges[i])
				}
			}
			if !hasInner || len(inits) == 0 {
				continue
			}
			for _, v := range inits {
				if _, isConst := v.(*ssa.Const); isConst {
					continue
				}
				tainted := map[ssa.Value]bool{}
				dependsOn := func(x ssa.Value) bool {
					return Mentions(x, 6, func(y ssa.Value) bool { return y == v || tainted[y] })
				}
				// fixed point over pre-loop instructions
				for changed := true; changed; {
					changed = false
					for _, b := range fn.Blocks {
						for _, ins := range b.Instrs {
							if cyc[b] {
								// only a pre-loop join that go/ssa folded into the loop header: a header phi
								// whose in-loop edges are all the phi itself
								p2, isPhi := ins.(*ssa.Phi)
								if !isPhi || b != hb || !selfCarried(p2, cyc) {
									continue
								}
							}
							val, isVal := ins.(ssa.Value)
							if !isVal || tainted[val] || val == v {
								continue
							}
							if p2, isPhi := ins.(*ssa.Phi); isPhi {
								// control dependence: a dominating branch on a tainted condition whose both arms reach this join
								for _, kb := range fn.Blocks {
									if cyc[kb] || kb == b || !kb.Dominates(b) || len(kb.Instrs) == 0 || len(p2.Edges) < 2 {
										continue
									}
									iff, isIf := kb.Instrs[len(kb.Instrs)-1].(*ssa.If)
									if !isIf || !dependsOn(iff.Cond) {
										continue
									}
									tainted[p2] = true
									changed = true
								}
								if tainted[p2] {
									continue
								}
							}
							if _, isCall := ins.(*ssa.Call); isCall {
								continue // results of calls are new facts, not views of the variable
							}
							if dependsOn(val) && val != v {
								tainted[val] = true
								changed = true
							}
						}
					}
				}
				for t := range tainted {
					refs := t.Referrers()
					if refs == nil {
						continue
					}
					for _, r := range *refs {
						if r.Block() != nil && cyc[r.Block()] {
							if _, isPhi := r.(*ssa.Phi); isPhi && r.Block() == hb {
								continue
							}
							out = append(out, StaleInit{phi, t, r})
						}
					}
				}
			}
		}
	}
	return out
}

// selfCarried: every edge of the header phi that comes from inside the loop is the phi itself
// (the variable is not modified in the loop; its distinct values all come from before the loop).
func selfCarried(phi *ssa.Phi, cyc map[*ssa.BasicBlock]bool) bool {
	outer := 0
	for i, p := range phi.Block().Preds {
		if cyc[p] {
			if phi.Edges[i] != phi {
				return false
			}
		} else {
			outer++
		}
	}
	return outer >= 2
}

// VarargValues returns the values packed into a variadic argument (the slice of
// a freshly allocated array go/ssa builds at the call site), or the argument itself.
func VarargValues(arg ssa.Value) []ssa.Value {
	sl, ok := arg.(*ssa.Slice)
	if !ok {
		return []ssa.Value{arg}
	}
	al, ok := sl.X.(*ssa.Alloc)
	if !ok {
		return []ssa.Value{arg}
	}
	byIdx := map[int64]ssa.Value{}
	var max int64 = -1
	for _, r := range *al.Referrers() {
		if ia, ok := r.(*ssa.IndexAddr); ok {
			k, isK := ConstInt(ia.Index)
			if !isK {
				continue
			}
			for _, rr := range *ia.Referrers() {
				if st, ok := rr.(*ssa.Store); ok && st.Addr == ia {
					byIdx[k] = st.Val
					if k > max {
						max = k
					}
				}
			}
		}
	}
	var out []ssa.Value
	for i := int64(0); i <= max; i++ {
		if v, ok := byIdx[i]; ok {
			out = append(out, v)
		}
	}
	return out
}

// ExprShape renders the computation of v as a term over field names, constants
// and operators, ignoring which object the fields belong to (sibling formulas on
// different receivers compare equal when they compute the same thing). Phis are
// rendered as the sorted set of their incoming shapes with the branch conditions'
// shapes; values it cannot render become their type.
func ExprShape(v ssa.Value) string { return exprShape(v, 8, map[ssa.Value]bool{}) }

func exprShape(v ssa.Value, d int, seen map[ssa.Value]bool) string {
	if v == nil {
		return "nil"
	}
	if d == 0 || seen[v] {
		return "…"
	}
	switch x := v.(type) {
	case *ssa.Const:
		if x.Value == nil {
			return "nil"
		}
		return x.Value.ExactString()
	case *ssa.BinOp:
		return "(" + exprShape(x.X, d-1, seen) + " " + x.Op.String() + " " + exprShape(x.Y, d-1, seen) + ")"
	case *ssa.UnOp:
		if x.Op == token.MUL {
			if fa, ok := x.X.(*ssa.FieldAddr); ok {
				return "." + fieldNameOf(fa.X.Type(), fa.Field)
			}
			return "*" + exprShape(x.X, d-1, seen)
		}
		return x.Op.String() + exprShape(x.X, d-1, seen)
	case *ssa.Field:
		return "." + fieldNameOf(x.X.Type(), x.Field)
	case *ssa.Convert:
		return exprShape(x.X, d-1, seen)
	case *ssa.ChangeType:
		return exprShape(x.X, d-1, seen)
	case *ssa.Phi:
		// the set of non-phi values that can flow in (nested phis flattened; the branch conditions that select
		// them are conditions of the function in their own right)
		seen[v] = true
		leaves := map[string]bool{}
		var flat func(p *ssa.Phi)
		visited := map[*ssa.Phi]bool{}
		flat = func(p *ssa.Phi) {
			if visited[p] {
				return
			}
			visited[p] = true
			for _, e := range p.Edges {
				if q, ok := e.(*ssa.Phi); ok {
					flat(q)
					continue
				}
				leaves[exprShape(e, d-1, seen)] = true
			}
		}
		flat(x)
		delete(seen, v)
		var parts []string
		for l := range leaves {
			parts = append(parts, l)
		}
		sort.Strings(parts)
		return "φ{" + strings.Join(parts, " | ") + "}"
	case *ssa.Parameter:
		return "param:" + x.Name()
	case *ssa.Call:
		name := ""
		if b, ok := x.Call.Value.(*ssa.Builtin); ok {
			name = b.Name()
		} else if f := x.Call.StaticCallee(); f != nil {
			name = f.Name()
		} else if x.Call.IsInvoke() {
			name = x.Call.Method.Name()
		} else {
			return "<" + typeName(v.Type()) + ">"
		}
		seen[v] = true
		var args []string
		for _, a := range x.Call.Args {
			args = append(args, exprShape(a, d-1, seen))
		}
		delete(seen, v)
		return name + "(" + strings.Join(args, ",") + ")"
	case *ssa.IndexAddr:
		return exprShape(x.X, d-1, seen) + "[" + exprShape(x.Index, d-1, seen) + "]"
	case *ssa.FieldAddr:
		return "&." + fieldNameOf(x.X.Type(), x.Field)
	case *ssa.Extract:
		return exprShape(x.Tuple, d-1, seen) + "#" + strconv.Itoa(x.Index)
	}
	return "<" + typeName(v.Type()) + ">"
}

func fieldNameOf(t types.Type, i int) string {
	if st, ok := deref(t).Underlying().(*types.Struct); ok && i < st.NumFields() {
		return st.Field(i).Name()
	}
	return "?"
}

// LinearTerms flattens the additions and subtractions of v into a sorted list of
// signed term shapes ("+.TempOffset", "-.DataOffset", ...): two sums that differ
// only in the order of their terms compare equal.
func LinearTerms(v ssa.Value) []string {
	var out []string
	var rec func(x ssa.Value, neg bool)
	rec = func(x ssa.Value, neg bool) {
		if b, ok := x.(*ssa.BinOp); ok && (b.Op == token.ADD || b.Op == token.SUB) {
			rec(b.X, neg)
			rec(b.Y, neg != (b.Op == token.SUB))
			return
		}
		if c, ok := x.(*ssa.Convert); ok {
			rec(c.X, neg)
			return
		}
		sign := "+"
		if neg {
			sign = "-"
		}
		out = append(out, sign+ExprShape(x))
	}
	rec(v, false)
	sort.Strings(out)
	return out
}

// NaturalLoop returns the blocks of the natural loops headed by h: h itself plus every block that reaches a back edge
// source (a predecessor of h that h dominates) without passing through h. Empty when h heads no loop.
func NaturalLoop(h *ssa.BasicBlock) map[*ssa.BasicBlock]bool {
	body := map[*ssa.BasicBlock]bool{}
	var work []*ssa.BasicBlock
	for _, p := range h.Preds {
		if h.Dominates(p) {
			work = append(work, p)
		}
	}
	if len(work) == 0 {
		return body
	}
	body[h] = true
	for len(work) > 0 {
		b := work[len(work)-1]
		work = work[:len(work)-1]
		if body[b] {
			continue
		}
		body[b] = true
		work = append(work, b.Preds...)
	}
	return body
}

// CarriedAcross reports a loop-carried variable that v is computed from and whose loop encloses block at: a phi at a
// loop header h, with a value arriving over a back edge that is not the phi itself, such that at lies in the natural
// loop of h. Such a value accumulates over the iterations of a loop that `at` is executed in once per iteration.
func CarriedAcross(v ssa.Value, at *ssa.BasicBlock, depth int) *ssa.Phi {
	var found *ssa.Phi
	Walk(v, depth, func(x ssa.Value) bool {
		phi, ok := x.(*ssa.Phi)
		if !ok || found != nil {
			return found == nil
		}
		if phi.Comment == "rangeindex" {
			return true
		}
		h := phi.Block()
		loop := NaturalLoop(h)
		if len(loop) == 0 || !loop[at] {
			return true
		}
		for i, p := range h.Preds {
			if h.Dominates(p) && phi.Edges[i] != ssa.Value(phi) {
				if _, isNext := phi.Edges[i].(*ssa.Next); !isNext {
					found = phi
				}
			}
		}
		return true
	})
	return found
}

// InnermostLoop returns the header and body of the smallest natural loop that contains block b (nil when b is in no loop).
func InnermostLoop(b *ssa.BasicBlock) (*ssa.BasicBlock, map[*ssa.BasicBlock]bool) {
	var best *ssa.BasicBlock
	var bestBody map[*ssa.BasicBlock]bool
	for _, h := range b.Parent().Blocks {
		body := NaturalLoop(h)
		if len(body) == 0 || !body[b] {
			continue
		}
		if best == nil || len(body) < len(bestBody) {
			best, bestBody = h, body
		}
	}
	return best, bestBody
}

// OnEveryIteration reports whether instruction x, which sits in a loop, is executed on every iteration of its
// innermost loop that goes round again: no path leads from the loop header back to the header without passing x.
// The returned path (block indices) is a witness iteration that skips x.
func OnEveryIteration(x ssa.Instruction) (bool, []int) {
	h, body := InnermostLoop(x.Block())
	if h == nil {
		return false, nil
	}
	first := h.Instrs[0]
	for _, s := range h.Succs {
		if !body[s] {
			continue
		}
		if x.Block() == h {
			return true, nil
		}
		if hit, path := Search(Loc{B: s, Idx: 0}, Is(first), SearchOpt{Barrier: Is(x)}); hit != nil {
			return false, path
		}
	}
	return true, nil
}
