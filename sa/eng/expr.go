package eng

import (
	"go/constant"
	"go/token"
	"go/types"

	"golang.org/x/tools/go/ssa"
)

// SameExpr reports whether two SSA values are structurally the same pure
// expression: identical value, equal constants, or the same operator applied to
// structurally equal operands. Loads are equal when their addresses are
// structurally equal (go/ssa performs no CSE, so `cs.counter` read twice in one
// statement is two loads); the caller is responsible for the two occurrences
// lying in a region without an intervening store (the rules that use this
// compare operands of one statement / one basic block).
func SameExpr(a, b ssa.Value) bool { return sameExpr(a, b, 10) }

func sameExpr(a, b ssa.Value, d int) bool {
	if a == b {
		return true
	}
	if a == nil || b == nil || d == 0 {
		return false
	}
	switch x := a.(type) {
	case *ssa.Const:
		y, ok := b.(*ssa.Const)
		if !ok {
			return false
		}
		if x.Value == nil || y.Value == nil {
			return x.Value == nil && y.Value == nil && types.Identical(x.Type(), y.Type())
		}
		return constant.Compare(x.Value, token.EQL, y.Value)
	case *ssa.BinOp:
		y, ok := b.(*ssa.BinOp)
		return ok && x.Op == y.Op && sameExpr(x.X, y.X, d-1) && sameExpr(x.Y, y.Y, d-1)
	case *ssa.UnOp:
		y, ok := b.(*ssa.UnOp)
		return ok && x.Op == y.Op && sameExpr(x.X, y.X, d-1)
	case *ssa.FieldAddr:
		y, ok := b.(*ssa.FieldAddr)
		return ok && x.Field == y.Field && types.Identical(x.X.Type(), y.X.Type()) && sameExpr(x.X, y.X, d-1)
	case *ssa.Field:
		y, ok := b.(*ssa.Field)
		return ok && x.Field == y.Field && types.Identical(x.X.Type(), y.X.Type()) && sameExpr(x.X, y.X, d-1)
	case *ssa.IndexAddr:
		y, ok := b.(*ssa.IndexAddr)
		return ok && sameExpr(x.X, y.X, d-1) && sameExpr(x.Index, y.Index, d-1)
	case *ssa.Index:
		y, ok := b.(*ssa.Index)
		return ok && sameExpr(x.X, y.X, d-1) && sameExpr(x.Index, y.Index, d-1)
	case *ssa.Convert:
		y, ok := b.(*ssa.Convert)
		return ok && types.Identical(x.Type(), y.Type()) && sameExpr(x.X, y.X, d-1)
	case *ssa.ChangeType:
		y, ok := b.(*ssa.ChangeType)
		return ok && types.Identical(x.Type(), y.Type()) && sameExpr(x.X, y.X, d-1)
	case *ssa.Call:
		// only builtin len/cap of structurally equal operands
		y, ok := b.(*ssa.Call)
		if !ok {
			return false
		}
		bx, ok1 := x.Call.Value.(*ssa.Builtin)
		by, ok2 := y.Call.Value.(*ssa.Builtin)
		if !ok1 || !ok2 || bx.Name() != by.Name() || (bx.Name() != "len" && bx.Name() != "cap") {
			return false
		}
		return sameExpr(x.Call.Args[0], y.Call.Args[0], d-1)
	}
	return false
}

// ReachableInstrs returns every instruction reachable from start without
// following the cut edges (paths end at no-return calls and panics).
func ReachableInstrs(start Loc, cut map[Edge]bool) []ssa.Instruction {
	var out []ssa.Instruction
	Search(start, func(in ssa.Instruction) bool {
		out = append(out, in)
		return false
	}, SearchOpt{Cut: cut})
	return out
}

// CanReach: some path leads from just after a to b.
func CanReach(a, b ssa.Instruction) bool {
	hit, _ := Search(After(a), Is(b), SearchOpt{})
	return hit != nil
}
