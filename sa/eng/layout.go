package eng

import (
	"fmt"
	"go/token"
	"sort"
	"strings"

	"golang.org/x/tools/go/ssa"
)

// LayoutItem is one access to a byte buffer: bytes [Lo,Hi) associated with a
// set of names (struct fields "Type.field", parameters "param:x", or callees).
type LayoutItem struct {
	Lo, Hi int64
	Names  []string
	Pos    token.Pos
}

func (l LayoutItem) String() string {
	return fmt.Sprintf("[%d:%d]=%s", l.Lo, l.Hi, strings.Join(l.Names, "+"))
}

// namesIn collects the field / parameter names a value is computed from.
func namesIn(v ssa.Value, depth int) []string {
	set := map[string]bool{}
	Walk(v, depth, func(x ssa.Value) bool {
		if f := FieldSpec(x); f != "" {
			if _, isLoadOrAddr := x.(*ssa.UnOp); isLoadOrAddr {
				set[f] = true
			} else if _, ok := x.(*ssa.Field); ok {
				set[f] = true
			} else if _, ok := x.(*ssa.FieldAddr); ok {
				set[f] = true
			}
		}
		if p, ok := x.(*ssa.Parameter); ok {
			set["param:"+p.Name()] = true
		}
		return true
	})
	var out []string
	for k := range set {
		out = append(out, k)
	}
	sort.Strings(out)
	return out
}

// flowsTo collects the struct fields / results a value flows into (forward
// through conversions, calls, extracts, arithmetic) within a small depth.
func flowsTo(v ssa.Value, depth int) []string {
	set := map[string]bool{}
	seen := map[ssa.Value]bool{}
	var rec func(v ssa.Value, d int)
	rec = func(v ssa.Value, d int) {
		if v == nil || seen[v] || d < 0 {
			return
		}
		seen[v] = true
		refs := v.Referrers()
		if refs == nil {
			return
		}
		for _, r := range *refs {
			switch x := r.(type) {
			case *ssa.Store:
				if x.Val == v {
					if f := FieldSpec(x.Addr); f != "" {
						set[f] = true
					} else if a, ok := x.Addr.(*ssa.Alloc); ok {
						// named result / local: follow loads
						for _, rr := range *a.Referrers() {
							if u, ok := rr.(*ssa.UnOp); ok && u.Op == token.MUL {
								rec(u, d-1)
							}
						}
						if a.Comment != "" {
							set["var:"+a.Comment] = true
						}
					}
				}
			case *ssa.Return:
				for i, rv := range x.Results {
					if rv == v {
						res := x.Parent().Signature.Results()
						n := fmt.Sprintf("result:%d", i)
						if i < res.Len() && res.At(i).Name() != "" {
							n = "result:" + res.At(i).Name()
						}
						set[n] = true
					}
				}
			case ssa.Value:
				switch x.(type) {
				case *ssa.Convert, *ssa.ChangeType, *ssa.Call, *ssa.Extract, *ssa.BinOp, *ssa.UnOp, *ssa.MakeInterface, *ssa.Phi, *ssa.Slice:
					rec(x, d-1)
				}
			}
		}
	}
	rec(v, depth)
	var out []string
	for k := range set {
		out = append(out, k)
	}
	sort.Strings(out)
	return out
}

// BufferLayout extracts how fn accesses the byte buffer(s) selected by isBuf:
// constant index stores/loads and constant sub-slices, with the names written
// from (writer=true: what is stored / which other arguments accompany the
// sub-slice in a call) or read into (writer=false: where the loaded value or the
// call result flows).
func BufferLayout(fn *ssa.Function, isBuf func(ssa.Value) bool, writer bool) ([]LayoutItem, []string) {
	var items []LayoutItem
	var undecided []string
	for _, b := range fn.Blocks {
		for _, in := range b.Instrs {
			switch x := in.(type) {
			case *ssa.IndexAddr:
				if !isBuf(x.X) {
					continue
				}
				k, ok := ConstInt(x.Index)
				if !ok {
					undecided = append(undecided, "non-constant index into the buffer")
					continue
				}
				it := LayoutItem{Lo: k, Hi: k + 1, Pos: x.Pos()}
				for _, r := range *x.Referrers() {
					switch y := r.(type) {
					case *ssa.Store:
						if writer && y.Addr == x {
							it.Names = append(it.Names, namesIn(y.Val, 6)...)
						}
					case *ssa.UnOp:
						if !writer && y.Op == token.MUL {
							it.Names = append(it.Names, flowsTo(y, 5)...)
						}
					}
				}
				if len(it.Names) > 0 {
					items = append(items, it)
				}
			case *ssa.Slice:
				if !isBuf(x.X) {
					continue
				}
				lo, hi := int64(0), int64(-1)
				if x.Low != nil {
					k, ok := ConstInt(x.Low)
					if !ok {
						undecided = append(undecided, "non-constant slice bound")
						continue
					}
					lo = k
				}
				if x.High != nil {
					k, ok := ConstInt(x.High)
					if !ok {
						undecided = append(undecided, "non-constant slice bound")
						continue
					}
					hi = k
				}
				if x.Low == nil && x.High == nil {
					continue // buf[:] of an array
				}
				it := LayoutItem{Lo: lo, Hi: hi, Pos: x.Pos()}
				for _, r := range *x.Referrers() {
					call, ok := r.(*ssa.Call)
					if !ok {
						continue
					}
					if writer {
						for _, a := range call.Call.Args {
							if a != x {
								it.Names = append(it.Names, namesIn(a, 6)...)
							}
						}
						if call.Call.IsInvoke() {
							it.Names = append(it.Names, namesIn(call.Call.Value, 6)...)
						}
					} else {
						it.Names = append(it.Names, flowsTo(call, 5)...)
					}
				}
				if len(it.Names) > 0 {
					items = append(items, it)
				}
			}
		}
	}
	for i := range items {
		set := map[string]bool{}
		for _, n := range items[i].Names {
			set[n] = true
		}
		items[i].Names = items[i].Names[:0]
		for n := range set {
			items[i].Names = append(items[i].Names, n)
		}
		sort.Strings(items[i].Names)
	}
	sort.Slice(items, func(i, j int) bool {
		if items[i].Lo != items[j].Lo {
			return items[i].Lo < items[j].Lo
		}
		return items[i].Hi < items[j].Hi
	})
	return items, undecided
}

// LayoutRanges renders only the byte ranges "[0:1] [1:2] [2:4]".
func LayoutRanges(items []LayoutItem) string {
	var parts []string
	seen := map[string]bool{}
	for _, it := range items {
		s := fmt.Sprintf("[%d:%d]", it.Lo, it.Hi)
		if !seen[s] {
			seen[s] = true
			parts = append(parts, s)
		}
	}
	return strings.Join(parts, " ")
}

// LayoutMap maps each range to the names (restricted by keep) associated with it.
func LayoutMap(items []LayoutItem, keep func(string) bool) map[string]string {
	out := map[string]string{}
	for _, it := range items {
		k := fmt.Sprintf("[%d:%d]", it.Lo, it.Hi)
		var ns []string
		for _, n := range it.Names {
			if keep(n) {
				ns = append(ns, n)
			}
		}
		if len(ns) == 0 {
			continue
		}
		prev := out[k]
		if prev != "" {
			ns = append(strings.Split(prev, "+"), ns...)
		}
		set := map[string]bool{}
		for _, n := range ns {
			set[n] = true
		}
		ns = ns[:0]
		for n := range set {
			ns = append(ns, n)
		}
		sort.Strings(ns)
		out[k] = strings.Join(ns, "+")
	}
	return out
}
