package eng

import (
	"fmt"
	"go/token"
	"os"
	"sort"
	"strings"

	"golang.org/x/tools/go/ssa"
)

// Lock states (must-hold lattice: None < R < W).
const (
	LNone = 0
	LR    = 1
	LW    = 2
)

// LockSpec describes one guarded-by discipline.
type LockSpec struct {
	Mutex   string            // "VolumeLayout.accessLock" (Type.field of the mutex) ; embedded mutex: "LogBuffer.RWMutex"
	Fields  []string          // guarded fields "VolumeLayout.writables"
	Pkg     string            // package whose functions are analysed (module-relative)
	Exempt  map[string]string // function name (FuncName form) -> reason (constructors, not-yet-shared values)
	ReadsOK map[string]string // field -> reason: unlocked reads tolerated (e.g. immutable after construction)
	// WriteCalls: a call to one of these callees with an argument or receiver loaded from a guarded
	// field is a write access to that field (mutating method on the guarded object).
	WriteCalls []string
	// Scope, when set, limits the functions whose own accesses are reported (summaries are still
	// computed package-wide, and callers of an in-scope function that needs the lock are always checked).
	Scope func(fn *ssa.Function) bool
	// MethodsOn: also treat calls of any method on a value loaded from these
	// fields as a read access (default true for all Fields).
}

type lockAccess struct {
	in    ssa.Instruction
	field string
	write bool
}

type fnLockInfo struct {
	fn       *ssa.Function
	state    map[ssa.Instruction]int // state before each instruction
	accesses []lockAccess
	calls    []ssa.CallInstruction // static calls to same-package functions
	closures map[*ssa.Function]int // state at creation of nested closures (non-go, non-defer)
	goOrDef  map[*ssa.Function]bool
	goFn     map[*ssa.Function]bool // subset of goOrDef: started with `go`
}

func mutexOp(in ssa.Instruction, mutex string) (op string, ok bool) {
	c, isCall := in.(ssa.CallInstruction)
	if !isCall {
		return "", false
	}
	name := Callee(c)
	var kind string
	switch {
	case strings.HasSuffix(name, "sync.RWMutex).Lock"), strings.HasSuffix(name, "sync.Mutex).Lock"):
		kind = "Lock"
	case strings.HasSuffix(name, "sync.RWMutex).Unlock"), strings.HasSuffix(name, "sync.Mutex).Unlock"):
		kind = "Unlock"
	case strings.HasSuffix(name, "sync.RWMutex).RLock"):
		kind = "RLock"
	case strings.HasSuffix(name, "sync.RWMutex).RUnlock"):
		kind = "RUnlock"
	default:
		return "", false
	}
	args := c.Common().Args
	if len(args) == 0 {
		return "", false
	}
	if FieldSpec(args[0]) != mutex {
		return "", false
	}
	return kind, true
}

// analyseLocks runs the forward must-hold dataflow on fn with the given entry state.
func analyseLocks(fn *ssa.Function, spec *LockSpec, entry int) *fnLockInfo {
	info := &fnLockInfo{fn: fn, state: map[ssa.Instruction]int{}, closures: map[*ssa.Function]int{}, goOrDef: map[*ssa.Function]bool{}, goFn: map[*ssa.Function]bool{}}
	if fn.Blocks == nil {
		return info
	}
	in := make([]int, len(fn.Blocks))
	out := make([]int, len(fn.Blocks))
	for i := range in {
		in[i] = -1 // unvisited (top)
		out[i] = -1
	}
	in[0] = entry
	changed := true
	transfer := func(b *ssa.BasicBlock, st int, record bool) int {
		for _, ins := range b.Instrs {
			if record {
				info.state[ins] = st
			}
			if _, isDefer := ins.(*ssa.Defer); isDefer {
				continue // deferred unlocks keep the lock to function exit
			}
			if _, isGo := ins.(*ssa.Go); isGo {
				continue
			}
			if op, ok := mutexOp(ins, spec.Mutex); ok {
				switch op {
				case "Lock":
					st = LW
				case "RLock":
					if st < LR {
						st = LR
					}
				case "Unlock", "RUnlock":
					st = LNone
				}
			}
		}
		return st
	}
	for changed {
		changed = false
		for _, b := range fn.Blocks {
			st := in[b.Index]
			if b.Index != 0 {
				st = -1
				for _, p := range b.Preds {
					if out[p.Index] == -1 {
						continue
					}
					if st == -1 || out[p.Index] < st {
						st = out[p.Index]
					}
				}
			}
			if st == -1 {
				continue
			}
			if st != in[b.Index] {
				in[b.Index] = st
				changed = true
			}
			o := transfer(b, st, false)
			if o != out[b.Index] {
				out[b.Index] = o
				changed = true
			}
		}
	}
	guarded := map[string]bool{}
	for _, f := range spec.Fields {
		guarded[f] = true
	}
	for _, b := range fn.Blocks {
		if in[b.Index] == -1 {
			continue
		}
		transfer(b, in[b.Index], true)
		for _, ins := range b.Instrs {
			switch x := ins.(type) {
			case *ssa.Store:
				if f := FieldSpec(x.Addr); guarded[f] {
					if _, isFA := x.Addr.(*ssa.FieldAddr); isFA {
						info.accesses = append(info.accesses, lockAccess{ins, f, true})
					}
				}
			case *ssa.UnOp:
				if x.Op == token.MUL {
					if _, isFA := x.X.(*ssa.FieldAddr); isFA {
						if f := FieldSpec(x.X); guarded[f] {
							// classify: is the loaded value written through (map update / delete)?
							w := false
							for _, r := range *x.Referrers() {
								switch y := r.(type) {
								case *ssa.MapUpdate:
									if y.Map == x {
										w = true
									}
								case *ssa.Call:
									if CalleeIs(y, "builtin.delete") && len(y.Call.Args) > 0 && y.Call.Args[0] == x {
										w = true
									}
								}
							}
							info.accesses = append(info.accesses, lockAccess{ins, f, w})
						}
					}
				}
			case *ssa.Field:
				if f := FieldSpec(x); guarded[f] {
					info.accesses = append(info.accesses, lockAccess{ins, f, false})
				}
			case *ssa.MakeClosure:
				cf := x.Fn.(*ssa.Function)
				isGoDef := false
				for _, r := range *x.Referrers() {
					switch y := r.(type) {
					case *ssa.Go:
						if y.Call.Value == x {
							isGoDef = true
							info.goFn[cf] = true
						}
					case *ssa.Defer:
						if y.Call.Value == x {
							isGoDef = true
						}
					}
				}
				if isGoDef {
					info.goOrDef[cf] = true
				} else {
					info.closures[cf] = info.state[ins]
				}
			}
			if c, ok := ins.(ssa.CallInstruction); ok && len(spec.WriteCalls) > 0 && CalleeIs(c, spec.WriteCalls...) {
				ops := append([]ssa.Value{}, c.Common().Args...)
				if c.Common().IsInvoke() {
					ops = append(ops, c.Common().Value)
				}
				for _, op := range ops {
					f := ""
					Walk(op, 3, func(x ssa.Value) bool {
						if u, isU := x.(*ssa.UnOp); isU && u.Op == token.MUL {
							if _, isFA := u.X.(*ssa.FieldAddr); isFA && guarded[FieldSpec(u.X)] {
								f = FieldSpec(u.X)
							}
						}
						return true
					})
					if f != "" {
						info.accesses = append(info.accesses, lockAccess{ins, f, true})
						break
					}
				}
			}
			if c, ok := ins.(ssa.CallInstruction); ok {
				if _, isGo := ins.(*ssa.Go); isGo {
					continue
				}
				if f := StaticFn(c); f != nil && f.Parent() == nil {
					info.calls = append(info.calls, c)
				}
			}
		}
	}
	return info
}

// CheckLocks decides the guarded-by discipline for every function of spec.Pkg
// (and nested literals). It records one obligation per access / per call of a
// function that requires the lock.
func (c *Ctx) CheckLocks(rule string, spec *LockSpec) {
	P := c.P
	fns := P.SrcFuncs(spec.Pkg)
	infos := map[*ssa.Function]*fnLockInfo{}
	// top-level functions start unlocked; closures inherit the state at their creation point.
	var analyse func(fn *ssa.Function, entry int)
	analyse = func(fn *ssa.Function, entry int) {
		info := analyseLocks(fn, spec, entry)
		infos[fn] = info
		for cf, st := range info.closures {
			analyse(cf, st)
		}
		for cf := range info.goOrDef {
			// deferred closures run at exit: the lock state then is unknown -> analyse from the
			// state at the end is not tracked; conservatively start unlocked for `go`, and from
			// the creation state for defer (defer Unlock idiom keeps the lock to exit).
			st := LNone
			for _, b := range fn.Blocks {
				for _, ins := range b.Instrs {
					if d, ok := ins.(*ssa.Defer); ok {
						if mc, ok := d.Call.Value.(*ssa.MakeClosure); ok && mc.Fn == cf {
							st = info.state[ins]
						}
					}
				}
			}
			analyse(cf, st)
		}
	}
	for _, fn := range fns {
		if fn.Parent() == nil {
			analyse(fn, LNone)
		}
	}
	// requirement summaries: minimal lock level a function needs from its caller
	need := map[*ssa.Function]int{}
	needWhy := map[*ssa.Function]string{}
	changed := true
	for changed {
		changed = false
		for fn, info := range infos {
			if _, ex := spec.Exempt[FuncName(fn)]; ex {
				continue
			}
			req := need[fn]
			why := needWhy[fn]
			for _, a := range info.accesses {
				if _, ok := spec.ReadsOK[a.field]; ok && !a.write {
					continue
				}
				want := LR
				if a.write {
					want = LW
				}
				if info.state[a.in] < want && want > req {
					req = want
					why = fmt.Sprintf("%s of %s at %s", map[bool]string{true: "write", false: "read"}[a.write], a.field, P.Pos(InstrPos(a.in)))
				}
			}
			for _, call := range info.calls {
				callee := StaticFn(call)
				if n := need[callee]; n > 0 && info.state[call.(ssa.Instruction)] < n && n > req {
					req = n
					why = fmt.Sprintf("calls %s (needs lock: %s)", FuncName(callee), needWhy[callee])
				}
			}
			// closures: a closure's need propagates to its parent at creation state (already inherited), so
			// an unmet need inside a closure is a need of the enclosing top-level function.
			if req != need[fn] {
				need[fn] = req
				needWhy[fn] = why
				changed = true
			}
		}
		// propagate closure needs to parents
		for fn := range infos {
			if p := fn.Parent(); p != nil && infos[p] != nil && infos[p].goFn[fn] {
				continue // a goroutine does not run under its creator's lock: reported at the goroutine itself
			}
			if p := fn.Parent(); p != nil && need[fn] > need[p] {
				if _, ex := spec.Exempt[FuncName(p)]; !ex {
					need[p] = need[fn]
					needWhy[p] = "function literal " + FuncName(fn) + ": " + needWhy[fn]
					changed = true
				}
			}
		}
	}
	// callers in the whole module
	callers := map[*ssa.Function][]ssa.CallInstruction{}
	for _, f := range P.AllSrcFuncs() {
		for _, b := range f.Blocks {
			for _, ins := range b.Instrs {
				if call, ok := ins.(ssa.CallInstruction); ok {
					if cal := StaticFn(call); cal != nil && need[cal] > 0 {
						callers[cal] = append(callers[cal], call)
					}
				}
			}
		}
	}
	// functions (in or out of scope) whose need stems from an in-scope function's accesses
	needFromScope := map[*ssa.Function]bool{}
	if spec.Scope != nil {
		for fn := range infos {
			root := fn
			for root.Parent() != nil {
				root = root.Parent()
			}
			if need[fn] > 0 && spec.Scope(root) {
				needFromScope[root] = true
				needFromScope[fn] = true
			}
		}
		for changed := true; changed; {
			changed = false
			for fn, info := range infos {
				if need[fn] == 0 || needFromScope[fn] {
					continue
				}
				for _, call := range info.calls {
					if cal := StaticFn(call); cal != nil && needFromScope[cal] && need[cal] > 0 && info.state[call.(ssa.Instruction)] < need[cal] {
						needFromScope[fn] = true
						changed = true
					}
				}
			}
		}
	}
	if os.Getenv("WEEDLINT_DEBUG_LOCK") != "" {
		for fn := range needFromScope {
			fmt.Printf("DEBUG needFromScope %s need=%d why=%s\n", FuncName(fn), need[fn], needWhy[fn])
		}
	}
	// obligations
	var names []*ssa.Function
	for fn := range infos {
		names = append(names, fn)
	}
	sort.Slice(names, func(i, j int) bool { return FuncName(names[i]) < FuncName(names[j]) })
	nAcc := 0
	for _, fn := range names {
		info := infos[fn]
		if len(info.accesses) > 0 {
			c.Touch(fn)
		}
		if _, ex := spec.Exempt[FuncName(fn)]; ex {
			continue
		}
		nAcc += len(info.accesses)
		if fn.Parent() != nil {
			if pi := infos[fn.Parent()]; pi != nil && pi.goFn[fn] && need[fn] > 0 && (spec.Scope == nil || spec.Scope(fn)) {
				c.Ob(rule, FuncName(fn)+" goroutine-needs-"+spec.Mutex, false, fn.Pos(), fmt.Sprintf("the goroutine performs %s without %s held (its creator's lock does not cover it)", needWhy[fn], spec.Mutex))
			}
			continue // otherwise reported through the enclosing function
		}
		inScope := spec.Scope == nil || spec.Scope(fn)
		if need[fn] == 0 {
			if len(info.accesses) > 0 && inScope {
				c.Ob(rule, FuncName(fn)+" accesses-under-"+spec.Mutex, true, fn.Pos(), fmt.Sprintf("%d guarded access(es) with the lock held", len(info.accesses)))
			}
			continue
		}
		// function needs the lock from its callers
		if !inScope && !needFromScope[fn] {
			continue
		}
		exportedEntry := fn.Object() != nil && fn.Object().Exported()
		cs := callers[fn]
		if len(cs) == 0 {
			c.Ob(rule, FuncName(fn)+" needs-"+spec.Mutex, false, fn.Pos(),
				fmt.Sprintf("%s without %s held and no statically known caller provides it (exported=%v)", needWhy[fn], spec.Mutex, exportedEntry))
			continue
		}
		allOK := true
		for i, call := range cs {
			caller := call.Parent()
			ci := infos[caller]
			st := LNone
			if ci != nil {
				st = ci.state[call.(ssa.Instruction)]
			}
			ok := st >= need[fn]
			if !ok && ci != nil && need[caller] >= need[fn] {
				// the caller itself requires the lock from its own callers: checked there
				ok = true
			}
			if !ok {
				allOK = false
				c.Ob(rule, fmt.Sprintf("%s needs-%s caller %s#%d", FuncName(fn), spec.Mutex, FuncName(caller), i), false, InstrPos(call.(ssa.Instruction)),
					fmt.Sprintf("%s is called without %s held, but it performs %s", FuncName(fn), spec.Mutex, needWhy[fn]))
			}
		}
		if allOK {
			c.Ob(rule, FuncName(fn)+" caller-holds-"+spec.Mutex, true, fn.Pos(), fmt.Sprintf("every one of %d caller(s) holds the lock (%s)", len(cs), needWhy[fn]))
		}
	}
	c.Sites += nAcc
	c.Note("LOCK %s: %d functions analysed, %d guarded accesses", spec.Mutex, len(infos), nAcc)
}

// CheckLockPairs decides the release side of a lock discipline: in every source function of the
// package, each acquisition of the mutex (Lock / RLock on a value whose field spec is mutex) is
// released on all paths to a return — by the matching Unlock / RUnlock call, or by a deferred one
// registered on the way (directly, or inside a deferred function literal). One obligation per
// acquisition site, keyed by function and ordinal. Functions listed in handOver return with the
// lock held on purpose (name -> reason) and are recorded as such.
func (c *Ctx) CheckLockPairs(rule, pkg, mutex string, handOver map[string]string) {
	for _, fn := range c.P.SrcFuncs(pkg) {
		if fn.Blocks == nil {
			continue
		}
		n := 0
		for _, b := range fn.Blocks {
			for _, in := range b.Instrs {
				if _, isDefer := in.(*ssa.Defer); isDefer {
					continue
				}
				if _, isGo := in.(*ssa.Go); isGo {
					continue
				}
				op, ok := mutexOp(in, mutex)
				if !ok || (op != "Lock" && op != "RLock") {
					continue
				}
				n++
				c.Touch(fn)
				key := fmt.Sprintf("%s %s#%d", FuncName(fn), op, n)
				if why, ok := handOver[FuncName(fn)]; ok {
					c.Ob(rule, key, true, in.Pos(), "returns with the lock held on purpose: "+why)
					continue
				}
				want := "Unlock"
				if op == "RLock" {
					want = "RUnlock"
				}
				releases := func(x ssa.Instruction) bool {
					if d, isDefer := x.(*ssa.Defer); isDefer {
						if o, ok := mutexOp(d, mutex); ok && o == want {
							return true
						}
						// defer func() { ...Unlock()... }()
						if mc, isMC := d.Call.Value.(*ssa.MakeClosure); isMC {
							if cl, isFn := mc.Fn.(*ssa.Function); isFn {
								for _, cb := range cl.Blocks {
									for _, ci := range cb.Instrs {
										if o, ok := mutexOp(ci, mutex); ok && o == want {
											return true
										}
									}
								}
							}
						}
						return false
					}
					if _, isGo := x.(*ssa.Go); isGo {
						return false
					}
					o, ok := mutexOp(x, mutex)
					return ok && o == want
				}
				hit, path := Search(After(in), IsReturn, SearchOpt{Barrier: releases})
				detail := "every path from the " + op + " to a return releases the lock (" + want + " or a deferred " + want + ")"
				if hit != nil {
					detail += "; a return at " + c.P.Pos(InstrPos(hit)) + " is reached with the lock held, path " + DescribePath(c.P, fn, path)
				}
				c.Ob(rule, key, hit == nil, in.Pos(), detail)
			}
		}
	}
}
