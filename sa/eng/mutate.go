package eng

// Mutation-kill validation of the checker (thorough tier). Nothing is executed and
// the tree on disk is never touched: a mutant is a changed copy of one source file
// handed to go/packages as an in-memory overlay; the mutant program is type-checked,
// converted to SSA and the property's rules are run on it. A mutant is killed when
// the rules report something they did not report on the unchanged tree.

import (
	"bufio"
	"bytes"
	"fmt"
	"go/ast"
	"go/token"
	"os"
	"path/filepath"
	"sort"
	"strconv"
	"strings"
)

type Mutant struct {
	ID      string            `json:"id"`
	Kind    string            `json:"kind"`
	Where   string            `json:"where"`
	Desc    string            `json:"desc"`
	Overlay map[string][]byte `json:"-"`
}

// Span is the source extent of a function the rules looked at.
type Span struct {
	File       string
	Start, End int // byte offsets
	Node       ast.Node
}

// TouchedSpans returns the outermost declarations enclosing the functions touched in
// this run (closures are part of their parent), de-duplicated.
func (c *Ctx) TouchedSpans() []Span {
	var out []Span
	seen := map[string]bool{}
	for _, n := range c.syntax {
		if n.node == nil || (len(c.Config) > 0 && n.cfg != c.Config[0]) {
			continue
		}
		k := fmt.Sprintf("%s:%d", n.file, n.start)
		if seen[k] {
			continue
		}
		seen[k] = true
		out = append(out, Span{File: n.file, Start: n.start, End: n.end, Node: n.node})
	}
	sort.Slice(out, func(i, j int) bool {
		if out[i].File != out[j].File {
			return out[i].File < out[j].File
		}
		return out[i].Start < out[j].Start
	})
	// drop spans nested in another span
	var top []Span
	for _, s := range out {
		nested := false
		for _, t := range out {
			if t.File == s.File && (t.Start < s.Start || t.End > s.End) && t.Start <= s.Start && s.End <= t.End {
				nested = true
			}
		}
		if !nested {
			top = append(top, s)
		}
	}
	return top
}

type synRec struct {
	cfg        string
	file       string
	start, end int
	node       ast.Node
}

var flipOp = map[token.Token]token.Token{
	token.LSS: token.LEQ, token.LEQ: token.LSS, token.GTR: token.GEQ, token.GEQ: token.GTR,
	token.EQL: token.NEQ, token.NEQ: token.EQL, token.LAND: token.LOR, token.LOR: token.LAND,
}

// AutoMutants derives single-edit mutants inside the given spans: a branch condition
// negated, a comparison or connective flipped, a call statement dropped, an
// assignment dropped, a return of an error replaced... (only edits that are plain
// text replacements of one node). The list is deterministic.
func AutoMutants(spans []Span) []Mutant {
	var out []Mutant
	src := map[string][]byte{}
	for _, sp := range spans {
		b, ok := src[sp.File]
		if !ok {
			var err error
			b, err = os.ReadFile(sp.File)
			if err != nil {
				continue
			}
			src[sp.File] = b
		}
		file := sp.File
		// positions inside one file differ by byte offsets
		off := func(p token.Pos) int { return sp.Start + int(p-sp.Node.Pos()) }
		lineCol := func(o int) (int, int) {
			if o > len(b) {
				o = len(b)
			}
			line := 1 + bytes.Count(b[:o], []byte("\n"))
			col := o - bytes.LastIndexByte(b[:o], '\n')
			return line, col
		}
		rel := strings.TrimPrefix(file, RepoDir()+"/")
		add := func(kind string, at token.Pos, from, to int, repl, desc string) {
			if from < 0 || to > len(b) || from > to {
				return
			}
			nb := append([]byte{}, b[:from]...)
			nb = append(nb, repl...)
			nb = append(nb, b[to:]...)
			line, col := lineCol(off(at))
			out = append(out, Mutant{
				ID:      fmt.Sprintf("%s:%04d:%03d:%s", rel, line, col, kind),
				Kind:    kind,
				Where:   fmt.Sprintf("%s:%d:%d", rel, line, col),
				Desc:    desc,
				Overlay: map[string][]byte{file: nb},
			})
		}
		ast.Inspect(sp.Node, func(n ast.Node) bool {
			switch x := n.(type) {
			case *ast.IfStmt:
				f, t := off(x.Cond.Pos()), off(x.Cond.End())
				add("negate-condition", x.Cond.Pos(), f, t, "!("+string(b[f:t])+")", "if "+short(string(b[f:t]))+"  ->  negated")
			case *ast.BinaryExpr:
				if to, ok := flipOp[x.Op]; ok {
					f := off(x.OpPos)
					add("flip-operator", x.OpPos, f, f+len(x.Op.String()), to.String(), fmt.Sprintf("%s  ->  %s in %s", x.Op, to, short(string(b[off(x.Pos()):off(x.End())]))))
				}
			case *ast.ExprStmt:
				if _, isCall := x.X.(*ast.CallExpr); isCall {
					f, t := off(x.Pos()), off(x.End())
					txt := string(b[f:t])
					if strings.HasPrefix(txt, "glog.") || strings.HasPrefix(txt, "log.") || strings.HasPrefix(txt, "fmt.Print") || strings.HasPrefix(txt, "println") {
						return true // logging: a behaviour-preserving edit, not a mutant
					}
					add("drop-call", x.Pos(), f, t, "", "dropped: "+short(txt))
				}
			case *ast.AssignStmt:
				if x.Tok == token.ASSIGN && len(x.Lhs) == 1 {
					if _, isSel := x.Lhs[0].(*ast.SelectorExpr); isSel {
						f, t := off(x.Pos()), off(x.End())
						add("drop-field-store", x.Pos(), f, t, "", "dropped: "+short(string(b[f:t])))
					}
				}
			case *ast.DeferStmt:
				f, t := off(x.Pos()), off(x.End())
				add("drop-defer", x.Pos(), f, t, "", "dropped: "+short(string(b[f:t])))
			case *ast.BasicLit:
				if x.Kind == token.INT {
					if v, err := strconv.ParseInt(x.Value, 0, 64); err == nil && v >= 0 && v < 1<<31 {
						f, t := off(x.Pos()), off(x.End())
						add("constant+1", x.Pos(), f, t, strconv.FormatInt(v+1, 10), fmt.Sprintf("constant %s  ->  %d", x.Value, v+1))
					}
				}
			case *ast.BranchStmt:
				if x.Tok == token.BREAK || x.Tok == token.CONTINUE {
					other := "continue"
					if x.Tok == token.CONTINUE {
						other = "break"
					}
					if x.Label == nil {
						f, t := off(x.Pos()), off(x.End())
						add("swap-branch", x.Pos(), f, t, other, x.Tok.String()+"  ->  "+other)
					}
				}
			}
			return true
		})
	}
	sort.Slice(out, func(i, j int) bool { return out[i].ID < out[j].ID })
	return out
}

func short(s string) string {
	s = strings.Join(strings.Fields(s), " ")
	if len(s) > 90 {
		s = s[:90] + "…"
	}
	return s
}

// Sample picks at most n mutants, evenly spaced over the deterministic order, rotated by seed.
func Sample(ms []Mutant, n int, seed int) []Mutant {
	if n <= 0 {
		return nil
	}
	if len(ms) <= n {
		return ms
	}
	var out []Mutant
	for i := 0; i < n; i++ {
		out = append(out, ms[(i*len(ms)/n+seed)%len(ms)])
	}
	return out
}

// SeededMutant turns a unified diff (as written by git diff) into an overlay over the
// current tree. ok is false when a hunk no longer finds its lines (the tree moved on).
func SeededMutant(id, patchFile string) (m Mutant, ok bool, why string) {
	data, err := os.ReadFile(patchFile)
	if err != nil {
		return m, false, err.Error()
	}
	type hunk struct {
		oldStart int
		old, new []string
	}
	files := map[string][]hunk{}
	var cur string
	var h *hunk
	flush := func() {
		if h != nil && cur != "" {
			files[cur] = append(files[cur], *h)
		}
		h = nil
	}
	sc := bufio.NewScanner(bytes.NewReader(data))
	sc.Buffer(make([]byte, 1<<20), 1<<24)
	for sc.Scan() {
		line := sc.Text()
		switch {
		case strings.HasPrefix(line, "diff --git "):
			flush()
			cur = ""
		case strings.HasPrefix(line, "+++ "):
			flush()
			cur = strings.TrimPrefix(strings.TrimPrefix(line, "+++ "), "b/")
			if cur == "/dev/null" {
				return m, false, "patch deletes a file"
			}
		case strings.HasPrefix(line, "--- "):
			if strings.TrimPrefix(line, "--- ") == "/dev/null" {
				return m, false, "patch adds a file"
			}
		case strings.HasPrefix(line, "@@ "):
			flush()
			h = &hunk{}
			// @@ -a,b +c,d @@
			parts := strings.Fields(line)
			if len(parts) >= 2 {
				a := strings.TrimPrefix(parts[1], "-")
				if i := strings.Index(a, ","); i >= 0 {
					a = a[:i]
				}
				h.oldStart, _ = strconv.Atoi(a)
			}
		case h != nil && strings.HasPrefix(line, "+"):
			h.new = append(h.new, line[1:])
		case h != nil && strings.HasPrefix(line, "-"):
			h.old = append(h.old, line[1:])
		case h != nil && strings.HasPrefix(line, " "):
			h.old = append(h.old, line[1:])
			h.new = append(h.new, line[1:])
		case h != nil && line == "":
			h.old = append(h.old, "")
			h.new = append(h.new, "")
		case strings.HasPrefix(line, "\\ No newline"):
		}
	}
	flush()
	if len(files) == 0 {
		return m, false, "no hunks"
	}
	m = Mutant{ID: id, Kind: "seeded", Overlay: map[string][]byte{}}
	var names []string
	for rel, hs := range files {
		abs := filepath.Join(RepoDir(), rel)
		b, err := os.ReadFile(abs)
		if err != nil {
			return m, false, "file gone: " + rel
		}
		lines := strings.Split(string(b), "\n")
		shift := 0
		for _, hk := range hs {
			at := -1
			want := hk.oldStart - 1 + shift
			for d := 0; d < 400 && at < 0; d++ {
				for _, cand := range []int{want + d, want - d} {
					if cand >= 0 && cand+len(hk.old) <= len(lines) && equalLines(lines[cand:cand+len(hk.old)], hk.old) {
						at = cand
						break
					}
				}
			}
			if at < 0 {
				return m, false, "hunk does not apply to " + rel
			}
			nl := append([]string{}, lines[:at]...)
			nl = append(nl, hk.new...)
			nl = append(nl, lines[at+len(hk.old):]...)
			lines = nl
			shift += len(hk.new) - len(hk.old)
		}
		m.Overlay[abs] = []byte(strings.Join(lines, "\n"))
		names = append(names, rel)
	}
	sort.Strings(names)
	m.Where = strings.Join(names, ", ")
	return m, true, ""
}

func equalLines(a, b []string) bool {
	if len(a) != len(b) {
		return false
	}
	for i := range a {
		if a[i] != b[i] {
			return false
		}
	}
	return true
}
