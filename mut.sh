#!/bin/bash
# usage: mut.sh <prop> <file under /repo> <python-replace-old> <python-replace-new>  — applies one textual mutation to /repo, runs the check, restores (development helper for testing rules both ways)
cd /verif
export GOFLAGS=-mod=mod GOPROXY=off GOSUMDB=off GOTOOLCHAIN=local
P=$1; F=/repo/$2
[ -n "$(git -C /repo status --porcelain)" ] && { echo "/repo not clean"; exit 2; }
python3 - "$F" "$3" "$4" <<'PY' || { git -C /repo checkout -- .; exit 3; }
import sys
p,old,new=sys.argv[1:4]
s=open(p).read()
if s.count(old)<1: print("pattern not found"); sys.exit(1)
open(p,'w').write(s.replace(old,new,1))
PY
(cd /repo && go build ./weed/... 2>&1 | head -3)
./check $P quick 2>&1 | grep "^  VIOL\|^  UNDEC\|^property" | cut -c1-220
git -C /repo checkout -- .
