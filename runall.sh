#!/bin/bash
# runs the quick check of every claimed property; prints one summary line each (development helper)
cd /verif
export GOFLAGS=-mod=mod GOPROXY=off GOSUMDB=off GOTOOLCHAIN=local
for p in $(python3 -c "import json; print(' '.join(c['property_id'] for c in json.load(open('MANIFEST.json'))['checks']))"); do
  ./check $p ${1:-quick} 2>&1 | grep "^property=\|^VIOLATION\|panic\|load failed" 
done
