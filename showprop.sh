#!/bin/bash
# usage: showprop.sh C06  — prints the property and the seeded changes kept for it (development helper)
python3 - "$1" <<'PY'
import json,sys,glob,os
pid=sys.argv[1]
for l in open('/verif/properties.jsonl'):
    p=json.loads(l)
    if p['id']==pid:
        print(p['title']); print(p['statement']); print('Q:',p['quantifier']['text']); print('anchors:',json.dumps(p['anchors'].get('mechanism')), p['anchors'].get('files'))
for d in sorted(glob.glob(f'/verif/seeded/{pid}_*')):
    m=json.load(open(d+'/meta.json'))
    print('\n==',os.path.basename(d)); print(m.get('breaks')); print('NEEDS:',m.get('needs_to_manifest'))
    print(open(d+'/patch.diff').read()[:3500])
PY
