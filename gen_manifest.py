#!/usr/bin/env python3
"""Regenerates MANIFEST.json from manifest_src.json (claims) + the list of properties weedlint implements."""
import json, subprocess, sys, os
here = os.path.dirname(os.path.abspath(__file__))
src = json.load(open(os.path.join(here, "manifest_src.json")))
props = [json.loads(l) for l in open(os.path.join(here, "properties.jsonl"))]
checks = []
na = []
for p in props:
    pid = p["id"]
    if pid in src["claims"]:
        c = src["claims"][pid]
        checks.append({
            "property_id": pid,
            "quick_cmd": f"./check {pid} quick",
            "thorough_cmd": f"./check {pid} thorough",
            "evidence_file": f"/verif/evidence/{pid}.json",
            "replay_cmd_template": f"./check {pid} quick -v  # violations listed in {{path}}",
            "engine": "weedlint",
            "level_claimed": {"category": "other", "text": c["text"], "design_ref": f"DESIGN.md §5 {pid}"},
            "level_note": c.get("note", src["default_note"]),
            "technique": c["technique"],
        })
    else:
        na.append({"property_id": pid, "reason": src["not_applicable"].get(pid, "no static check built yet for this property (see DESIGN.md)")})
m = {
    "version": 1,
    "setup_cmd": "cd /verif/sa && GOFLAGS=-mod=mod GOPROXY=off GOSUMDB=off GOTOOLCHAIN=local GOWORK=off go build -o ../bin/weedlint ./cmd/weedlint",
    "hooks": {"guard": "verif", "enable": "no hooks are needed: the checks only read /repo's source (go/packages + go/ssa); nothing is built with a tag",
              "baseline_off_cmd": src["baseline_off_cmd"], "source_commits": [], "add_only": True},
    "engines": [{"name": "weedlint", "path": "/verif/sa", "serves_properties": [c["property_id"] for c in checks],
                 "kind_free_text": "repository-specific static analyser over go/packages + go/ssa (x/tools v0.29.0): guard/order/pair/exit path rules, field/codec tables, lock dataflow, abstract truth tables; one obligation table per property"}],
    "checks": checks,
    "not_applicable": na,
    "notes": src["notes"],
}
json.dump(m, open(os.path.join(here, "MANIFEST.json"), "w"), indent=1)
print(len(checks), "checks;", len(na), "not applicable")
