#!/usr/bin/env python3
"""kf.py <property> <status known|fixed> <finding-id> <key> <what> [commit]  — appends one entry to known_findings.json (development helper; never run by a check)."""
import json,sys
p,st,fid,key,what=sys.argv[1:6]
d=json.load(open('/verif/known_findings.json'))
e={"property":p,"status":st,"finding":fid,"key":key,"what":what}
if len(sys.argv)>6: e["commit"]=sys.argv[6]
d["findings"]=[x for x in d["findings"] if not (x["property"]==p and x["key"]==key)]
d["findings"].append(e)
json.dump(d,open('/verif/known_findings.json','w'),indent=1)
print("ok",len(d["findings"]))
