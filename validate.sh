#!/bin/bash
# validates MANIFEST.json and every evidence file against the interface schemas
python3-vt - <<'PY'
import json, jsonschema, glob
jsonschema.validate(json.load(open('/verif/MANIFEST.json')), json.load(open('/root/.vp/MANIFEST.schema.json')))
s = json.load(open('/root/.vp/EVIDENCE.schema.json'))
n = 0
for f in sorted(glob.glob('/verif/evidence/C*.json')):
    if f.endswith('.violations.json'): continue
    jsonschema.validate(json.load(open(f)), s); n += 1
print("manifest ok;", n, "evidence files ok")
PY
